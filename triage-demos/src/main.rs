//! Demonstrations used once, by hand, to triage what the static checks report.
use ldap3::{LdapConnAsync, Scope, SearchOptions, StreamState};
use std::time::Duration;
use tokio::io::{AsyncReadExt, AsyncWriteExt};
use tokio::net::TcpListener;

/// Minimal scripted peer: for every request read, `respond(msgid, request bytes, nth request)` gives the bytes to send.
async fn peer<F>(respond: F) -> String
where
    F: Fn(u8, &[u8], usize) -> Vec<u8> + Send + 'static,
{
    let l = TcpListener::bind("127.0.0.1:0").await.unwrap();
    let port = l.local_addr().unwrap().port();
    tokio::spawn(async move {
        let (mut s, _) = l.accept().await.unwrap();
        let mut n = 0usize;
        let mut buf = vec![0u8; 65536];
        loop {
            let k = match s.read(&mut buf).await {
                Ok(0) | Err(_) => break,
                Ok(k) => k,
            };
            // requests are small: 30 len 02 01 id ...
            let id = buf[4];
            let out = respond(id, &buf[..k], n);
            n += 1;
            if !out.is_empty() {
                let _ = s.write_all(&out).await;
            }
        }
    });
    format!("ldap://127.0.0.1:{}", port)
}

fn result_msg(id: u8, op: u8) -> Vec<u8> {
    // LDAPMessage { id, [APPLICATION op] { rc 0, "", "" } }
    vec![0x30, 0x0c, 0x02, 0x01, id, 0x60 | op, 0x07, 0x0a, 0x01, 0x00, 0x04, 0x00, 0x04, 0x00]
}
fn entry_msg(id: u8) -> Vec<u8> {
    // SearchResultEntry { dn "", attrs {} }
    vec![0x30, 0x09, 0x02, 0x01, id, 0x64, 0x04, 0x04, 0x00, 0x30, 0x00]
}

async fn driver_outcome(bytes: Vec<u8>) -> String {
    let url = peer(move |_id, _req, _n| bytes.clone()).await;
    let (conn, mut ldap) = LdapConnAsync::new(&url).await.unwrap();
    let h = tokio::spawn(async move { conn.drive().await });
    let op = tokio::time::timeout(Duration::from_millis(700), ldap.simple_bind("", "")).await;
    let opd = match op {
        Err(_) => "operation still waiting after 700ms".to_string(),
        Ok(Ok(r)) => format!("operation returned rc={}", r.rc),
        Ok(Err(e)) => format!("operation failed: {}", e),
    };
    drop(ldap);
    let d = match tokio::time::timeout(Duration::from_millis(700), h).await {
        Err(_) => "driver still running".to_string(),
        Ok(Err(e)) if e.is_panic() => "DRIVER PANICKED".to_string(),
        Ok(Err(_)) => "driver cancelled".to_string(),
        Ok(Ok(Ok(()))) => "driver ended Ok".to_string(),
        Ok(Ok(Err(e))) => format!("driver ended Err({})", e),
    };
    format!("{}; {}", opd, d)
}

#[tokio::main(flavor = "multi_thread", worker_threads = 2)]
async fn main() {
    let which = std::env::args().nth(1).unwrap_or_default();
    match which.as_str() {
        "c11-empty-envelope" => println!("30 00 -> {}", driver_outcome(vec![0x30, 0x00]).await),
        "c11-no-msgid" => println!("30 02 61 00 -> {}", driver_outcome(vec![0x30, 0x02, 0x61, 0x00]).await),
        "c11-inner-incomplete" => println!("30 03 04 05 41 -> {}", driver_outcome(vec![0x30, 0x03, 0x04, 0x05, 0x41]).await),
        "c11-deep-nesting" => {
            // 20000 nested constructed elements with 4-byte lengths, innermost empty
            let depth = 20000usize;
            let mut v: Vec<u8> = vec![];
            for _ in 0..depth {
                let len = v.len();
                let mut w = vec![0x30, 0x84];
                w.extend_from_slice(&(len as u32).to_be_bytes());
                w.extend(v);
                v = w;
            }
            let res = std::thread::Builder::new().stack_size(2 * 1024 * 1024).spawn(move || {
                let rt = tokio::runtime::Builder::new_current_thread().enable_all().build().unwrap();
                rt.block_on(driver_outcome(v))
            }).unwrap().join();
            println!("nesting {} -> {:?}", depth, res);
        }
        "c11-unknown-op-for-search" => {
            // first request is a search: answer with a BindResponse (op 1) under the search's id, then Done
            let url = peer(|id, _req, n| if n == 0 { let mut v = result_msg(id, 1); v.extend(result_msg(id, 5)); v } else { vec![] }).await;
            let (conn, mut ldap) = LdapConnAsync::new(&url).await.unwrap();
            let h = tokio::spawn(async move { conn.drive().await });
            let r = tokio::time::timeout(Duration::from_millis(700), ldap.search("", Scope::Base, "(a=b)", vec!["a"])).await;
            println!("search: {:?}", r.map(|x| x.map(|y| y.1.rc)));
            drop(ldap);
            match tokio::time::timeout(Duration::from_millis(700), h).await {
                Ok(Err(e)) if e.is_panic() => println!("DRIVER PANICKED"),
                other => println!("driver: {:?}", other.map(|x| x.map(|y| y.is_ok()))),
            }
        }
        "c10-direct-done" => {
            let url = peer(|id, _req, _n| { let mut v = entry_msg(id); v.extend(result_msg(id, 5)); v }).await;
            let (conn, mut ldap) = LdapConnAsync::new(&url).await.unwrap();
            ldap3::drive!(conn);
            let mut st = ldap.streaming_search("", Scope::Base, "(a=b)", vec!["a"]).await.unwrap();
            let mut n = 0;
            while let Some(_e) = st.next().await.unwrap() { n += 1; }
            println!("entries={} state after Ok(None) = {:?} (expected Done)", n, st.state());
            if st.state() == StreamState::Active {
                let r = tokio::spawn(async move { st.next().await.map(|x| x.is_none()) }).await;
                println!("second next(): {:?}", r.map_err(|e| if e.is_panic() { "PANICKED" } else { "cancelled" }));
            } else {
                println!("second next(): {:?}", st.next().await.map(|x| x.is_none()));
            }
        }
        "c13-search-id-leak" => {
            let url = peer(|id, _req, _n| result_msg(id, 5)).await;
            let (conn, mut ldap) = LdapConnAsync::new(&url).await.unwrap();
            ldap3::drive!(conn);
            for _ in 0..3 {
                let _ = ldap.search("", Scope::Base, "(a=b)", vec!["a"]).await.unwrap();
            }
            tokio::time::sleep(Duration::from_millis(100)).await;
            println!("{:?}", ldap);   // Debug prints the msgmap (counter, in-use set)
        }
        "c13-abandon-leak" => {
            // never answer the first op; abandon it
            let url = peer(|_id, _req, _n| vec![]).await;
            let (conn, mut ldap) = LdapConnAsync::new(&url).await.unwrap();
            ldap3::drive!(conn);
            let mut l2 = ldap.clone();
            let h = tokio::spawn(async move { l2.simple_bind("", "").await.map(|r| r.rc) });
            tokio::time::sleep(Duration::from_millis(100)).await;
            ldap.abandon(1).await.unwrap();
            println!("abandoned op: {:?}", h.await);
            tokio::time::sleep(Duration::from_millis(100)).await;
            println!("{:?}", ldap);
        }
        "c18-empty-host" => {
            for u in ["ldap:///", "ldap:", "ldap://:1"] {
                let u2 = u.to_string();
                let r = tokio::spawn(async move { LdapConnAsync::new(&u2).await.map(|_| ()) }).await;
                match r {
                    Err(e) if e.is_panic() => println!("{} -> PANICKED", u),
                    other => println!("{} -> {:?}", u, other.map(|x| x.map_err(|e| e.to_string()))),
                }
            }
        }
        "c02-search-opts-survive" => {
            // print the sizelimit INTEGER of the search request as seen by the peer
            let url = peer(|id, req, _n| {
                if req[5] == 0x63 {
                    println!("search request bytes: {:02x?}", &req[..req.len().min(24)]);
                    result_msg(id, 5)
                } else {
                    result_msg(id, req[5] & 0x1f | 1)
                }
            }).await;
            let (conn, mut ldap) = LdapConnAsync::new(&url).await.unwrap();
            ldap3::drive!(conn);
            ldap.with_search_options(SearchOptions::new().sizelimit(77));
            let _ = ldap.simple_bind("", "").await.unwrap();       // non-search: options documented as discarded
            let _ = ldap.search("", Scope::Base, "(a=b)", vec!["a"]).await.unwrap();
            println!("(a sizelimit of 0x4d = 77 in the request means the options survived the bind)");
        }
        "c02-add-keeps-modifiers" => {
            let url = peer(|id, req, _n| { println!("request has controls: {}", req.windows(2).any(|w| w == [0xa0, 0x1b]) || req.len() > 40); result_msg(id, 11) }).await;
            let (conn, mut ldap) = LdapConnAsync::new(&url).await.unwrap();
            ldap3::drive!(conn);
            let r = ldap.with_controls(ldap3::controls::ManageDsaIt).add("cn=x", vec![("a", std::collections::HashSet::<&str>::new())]).await;
            println!("add with empty value set: {:?}", r.map(|x| x.rc).map_err(|e| e.to_string()));
            println!("controls still set on the handle: {}", ldap.controls.is_some());
        }
        "c07-negative-integer" => {
            use ldap3::asn1::{ASNTag, Integer};
            for v in [-128i64, -129, -200, -32769, i64::MIN + 1] {
                let st = Integer { inner: v, ..Default::default() }.into_structure();
                println!("INTEGER {} -> content {:02x?}", v, st.expect_primitive().unwrap());
            }
        }
        _ => eprintln!("unknown demo"),
    }
}
