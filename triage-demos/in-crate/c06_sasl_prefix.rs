// Hand triage of C06 G7.sasl-layer-no-extra-rejection (NOT part of any check): an in-crate unit test (LdapCodec is pub(crate)):
// append to src/protocol.rs of a scratch copy of the repository and run `cargo test --offline --features gssapi --lib triage_c06`.
// Before fix ee26132 decode() answered Err("invalid SASL buffer") for a buffer holding 1-3 octets of a SASL token's length prefix.
#[cfg(all(test, feature = "gssapi"))]
mod triage_c06_sasl_prefix {
    use super::*;
    #[test]
    fn short_sasl_length_prefix_is_need_more() {
        let mut codec = LdapCodec {
            has_decoded_data: false,
            sasl_param: Arc::new(RwLock::new((true, 0))),
            client_ctx: Arc::new(Mutex::new(None)),
        };
        // a read boundary inside the 4-octet SASL length prefix: 2 of its 4 octets have arrived
        let mut buf = BytesMut::from(&[0x00u8, 0x00][..]);
        let r = codec.decode(&mut buf);
        assert!(matches!(r, Ok(None)), "decode() must wait for the rest of the prefix, got {:?}", r.map(|_| ()));
        assert_eq!(buf.len(), 2, "nothing may be consumed");
    }
}
