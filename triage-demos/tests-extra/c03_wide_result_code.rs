// Hand triage of C03 T1.result-code-exact (NOT part of any check): run as an integration test of a scratch copy of the repository.
// A BindResponse whose resultCode does not fit 32 bits - 2^32 (`0a 05 01 00 00 00 00`), or 2^64 in nine content octets - is a
// refusal with an unusual code.  Before the fix it was cut down to 0 (`rc as u32`, resp. the wrap of the unsigned fold) and
// success() accepted it; the same conversion guards StartTLS (`res.success()?` before the handshake).
use std::time::Duration;
use tokio::io::{AsyncReadExt, AsyncWriteExt};

async fn bind_rc(code_octets: &'static [u8]) -> ldap3::LdapResult {
    let l = tokio::net::TcpListener::bind("127.0.0.1:0").await.unwrap();
    let port = l.local_addr().unwrap().port();
    tokio::spawn(async move {
        let (mut s, _) = l.accept().await.unwrap();
        let mut buf = [0u8; 256];
        let _ = s.read(&mut buf).await;
        let mut op = vec![0x0a, code_octets.len() as u8];
        op.extend_from_slice(code_octets);
        op.extend_from_slice(&[0x04, 0x00, 0x04, 0x00]);
        let mut m = vec![0x02, 0x01, 0x01, 0x61, op.len() as u8];
        m.extend(op);
        let mut out = vec![0x30, m.len() as u8];
        out.extend(m);
        s.write_all(&out).await.unwrap();
        tokio::time::sleep(Duration::from_secs(1)).await;
    });
    let (conn, mut ldap) = ldap3::LdapConnAsync::new(&format!("ldap://127.0.0.1:{}", port)).await.unwrap();
    ldap3::drive!(conn);
    ldap.simple_bind("cn=x", "pw").await.unwrap()
}

#[tokio::test]
async fn result_code_2_pow_32_is_not_success() {
    let r = bind_rc(&[0x01, 0x00, 0x00, 0x00, 0x00]).await;
    assert!(r.clone().success().is_err(), "a refusal with result code 2^32 is taken for success (rc={})", r.rc);
}

#[tokio::test]
async fn result_code_2_pow_64_is_not_success() {
    let r = bind_rc(&[0x01, 0, 0, 0, 0, 0, 0, 0, 0]).await;
    assert!(r.clone().success().is_err(), "a refusal with result code 2^64 is taken for success (rc={})", r.rc);
}

#[tokio::test]
async fn ordinary_codes_are_exact() {
    assert_eq!(bind_rc(&[0x31]).await.rc, 49);
    assert_eq!(bind_rc(&[0x00]).await.rc, 0);
    assert_eq!(bind_rc(&[0x00, 0x80]).await.rc, 128);
}
