// Hand triage of C01 R1.envelope-path (message ID narrowed by a truncating cast; NOT part of any check): run as an integration test
// of a scratch copy of the repository.  The peer answers a Bind (message ID 1) with a BindResponse sent under message ID 2^32+1
// (`02 05 01 00 00 00 01`), carrying result code 49.  Nobody waits for that ID: the Bind must NOT receive it.  Before the fix the
// ID was cut down with `as i32` to 1 and the Bind returned rc=49.
use std::time::Duration;
use tokio::io::{AsyncReadExt, AsyncWriteExt};

#[tokio::test]
async fn response_under_a_wide_id_is_not_delivered_to_id_1() {
    let l = tokio::net::TcpListener::bind("127.0.0.1:0").await.unwrap();
    let port = l.local_addr().unwrap().port();
    tokio::spawn(async move {
        let (mut s, _) = l.accept().await.unwrap();
        let mut buf = [0u8; 256];
        let _ = s.read(&mut buf).await; // BindRequest, id 1
        // LDAPMessage { messageID 4294967297, bindResponse { resultCode 49, "", "" } }
        s.write_all(&[0x30, 0x10, 0x02, 0x05, 0x01, 0x00, 0x00, 0x00, 0x01, 0x61, 0x07, 0x0a, 0x01, 0x31, 0x04, 0x00, 0x04, 0x00])
            .await
            .unwrap();
        tokio::time::sleep(Duration::from_secs(2)).await;
    });
    let (conn, mut ldap) = ldap3::LdapConnAsync::new(&format!("ldap://127.0.0.1:{}", port)).await.unwrap();
    ldap3::drive!(conn);
    let r = tokio::time::timeout(Duration::from_millis(800), ldap.simple_bind("cn=x", "pw")).await;
    match r {
        Ok(Ok(res)) => panic!("the Bind (ID 1) was handed a response sent under ID 2^32+1: rc={}", res.rc),
        Ok(Err(_)) => (), // the connection was ended with a decoding error: the out-of-range ID is not a well-formed MessageID
        Err(_) => (),     // or the message was ignored and the Bind is still waiting
    }
}
