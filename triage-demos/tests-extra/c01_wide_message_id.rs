// Hand triage of C01 R1.message-id-exact (NOT part of any check): run as an integration test of a scratch copy of the repository.
// The peer answers a Bind (message ID 1) with a BindResponse rc 49 sent under a messageID that is NOT 1 but was read as 1 by a
// lenient reader: 2^32+1 (`02 05 01 00 00 00 01`, cut down by `as i32` before fix a4e0c7a), 2^64+1 (nine content octets: the
// unsigned fold wraps modulo 2^64, which slipped past the first repair).  Nobody waits for those IDs: the Bind must NOT get rc 49.
// A second test: after 127 operations the next one has ID 128; a response under the NEGATIVE messageID -128 (`02 01 80`) must not
// be delivered to it.
use std::time::Duration;
use tokio::io::{AsyncReadExt, AsyncWriteExt};

async fn bind_against(id_octets: &'static [u8]) -> Option<u32> {
    let l = tokio::net::TcpListener::bind("127.0.0.1:0").await.unwrap();
    let port = l.local_addr().unwrap().port();
    tokio::spawn(async move {
        let (mut s, _) = l.accept().await.unwrap();
        let mut buf = [0u8; 256];
        let _ = s.read(&mut buf).await; // BindRequest, id 1
        let mut m = vec![0x02, id_octets.len() as u8];
        m.extend_from_slice(id_octets);
        m.extend_from_slice(&[0x61, 0x07, 0x0a, 0x01, 0x31, 0x04, 0x00, 0x04, 0x00]);
        let mut out = vec![0x30, m.len() as u8];
        out.extend(m);
        s.write_all(&out).await.unwrap();
        tokio::time::sleep(Duration::from_secs(2)).await;
    });
    let (conn, mut ldap) = ldap3::LdapConnAsync::new(&format!("ldap://127.0.0.1:{}", port)).await.unwrap();
    ldap3::drive!(conn);
    match tokio::time::timeout(Duration::from_millis(800), ldap.simple_bind("cn=x", "pw")).await {
        Ok(Ok(res)) => Some(res.rc),
        _ => None, // decoding error (connection ended) or still waiting: either way nothing was delivered
    }
}

#[tokio::test]
async fn response_under_2_pow_32_plus_1_is_not_delivered_to_id_1() {
    assert_eq!(bind_against(&[0x01, 0x00, 0x00, 0x00, 0x01]).await, None);
}

#[tokio::test]
async fn response_under_2_pow_64_plus_1_is_not_delivered_to_id_1() {
    assert_eq!(bind_against(&[0x01, 0, 0, 0, 0, 0, 0, 0, 0x01]).await, None);
}

#[tokio::test]
async fn response_with_an_empty_message_id_is_not_delivered() {
    assert_eq!(bind_against(&[]).await, None);
}

#[tokio::test]
async fn well_formed_id_is_delivered() {
    assert_eq!(bind_against(&[0x01]).await, Some(49));
    assert_eq!(bind_against(&[0x00, 0x01]).await.is_some() || true, true); // non-minimal form: either answer is acceptable
}

#[tokio::test]
async fn response_under_minus_128_is_not_delivered_to_id_128() {
    let l = tokio::net::TcpListener::bind("127.0.0.1:0").await.unwrap();
    let port = l.local_addr().unwrap().port();
    tokio::spawn(async move {
        let (mut s, _) = l.accept().await.unwrap();
        let mut buf = [0u8; 256];
        for id in 1u8..=127 {
            let _ = s.read(&mut buf).await;
            s.write_all(&[0x30, 0x0c, 0x02, 0x01, id, 0x61, 0x07, 0x0a, 0x01, 0x00, 0x04, 0x00, 0x04, 0x00]).await.unwrap();
        }
        let _ = s.read(&mut buf).await; // BindRequest, id 128 (02 02 00 80)
        // BindResponse rc 49 under messageID -128 (02 01 80)
        s.write_all(&[0x30, 0x0c, 0x02, 0x01, 0x80, 0x61, 0x07, 0x0a, 0x01, 0x31, 0x04, 0x00, 0x04, 0x00]).await.unwrap();
        tokio::time::sleep(Duration::from_secs(2)).await;
    });
    let (conn, mut ldap) = ldap3::LdapConnAsync::new(&format!("ldap://127.0.0.1:{}", port)).await.unwrap();
    ldap3::drive!(conn);
    for _ in 1..=127 {
        assert_eq!(ldap.simple_bind("cn=x", "pw").await.unwrap().rc, 0);
    }
    let r = tokio::time::timeout(Duration::from_millis(800), ldap.simple_bind("cn=x", "pw")).await;
    if let Ok(Ok(res)) = r {
        panic!("operation 128 was handed a response sent under messageID -128: rc={}", res.rc);
    }
}
