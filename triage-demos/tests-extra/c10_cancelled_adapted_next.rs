// Hand triage of C10 Q5.shim-restores-chain-position (NOT part of any check): run as an integration test of a scratch copy of the
// repository.  Written by the sub-agent that wrote seed C10i (its side remark about the unchanged code), confirmed here.
// Pre-existing issue probe (UNCHANGED code): dropping the future of an adapted next()
// while it is pending leaves the adapter index advanced.
use std::time::Duration;
use ldap3::adapters::EntriesOnly;
use ldap3::{LdapConnAsync, Scope, StreamState};
use tokio::io::{AsyncReadExt, AsyncWriteExt};
use tokio::net::TcpListener;

#[tokio::test]
async fn cancelled_adapted_next() {
    let listener = TcpListener::bind("127.0.0.1:0").await.unwrap();
    let port = listener.local_addr().unwrap().port();
    tokio::spawn(async move {
        let (mut sock, _) = listener.accept().await.unwrap();
        let mut buf = [0u8; 512];
        let _ = sock.read(&mut buf).await.unwrap(); // the Search request, id 1
        tokio::time::sleep(Duration::from_millis(300)).await;
        let mut out = vec![];
        out.extend_from_slice(&[0x30, 0x09, 0x02, 0x01, 0x01, 0x64, 0x04, 0x04, 0x00, 0x30, 0x00]); // entry
        out.extend_from_slice(&[0x30, 0x0a, 0x02, 0x01, 0x01, 0x73, 0x05, 0x04, 0x03, b'l', b':', b'x']); // reference
        out.extend_from_slice(&[0x30, 0x0c, 0x02, 0x01, 0x01, 0x65, 0x07, 0x0a, 0x01, 0x00, 0x04, 0x00, 0x04, 0x00]); // done
        sock.write_all(&out).await.unwrap();
        let _ = sock.read(&mut buf).await;
    });
    let (conn, mut ldap) = LdapConnAsync::new(&format!("ldap://127.0.0.1:{}", port)).await.unwrap();
    ldap3::drive!(conn);
    let mut stream = ldap
        .streaming_search_with(EntriesOnly::new(), "", Scope::Base, "(objectClass=*)", vec!["cn"])
        .await
        .unwrap();
    // the caller gives up waiting: the future of next() is dropped while pending
    assert!(tokio::time::timeout(Duration::from_millis(50), stream.next()).await.is_err());
    let mut kinds = vec![];
    while let Some(re) = stream.next().await.unwrap() {
        kinds.push(re.0.id);
    }
    eprintln!("kinds={:?} state={:?}", kinds, stream.state());
    // observed on the unchanged code: kinds=[4, 19] state=Active
    let filtered = kinds == vec![4] && stream.state() == StreamState::Done;
    // one more next() must return Ok(None) without panicking
    assert!(stream.next().await.unwrap().is_none());
    assert!(filtered, "EntriesOnly must filter the reference and the stream must be Done");
}
