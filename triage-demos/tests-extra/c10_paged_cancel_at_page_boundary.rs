// Hand triage of C10 Q5.missing-receiver-is-an-error (NOT part of any check): run as an integration test of a scratch copy of the
// repository.  Written by the sub-agent that wrote seed C10j (its side remark about the unchanged code), confirmed here.
// Side remark (pre-existing, NOT the seeded defect): a pending next() of a PagedResults-adapted
// stream which is dropped while the adapter is starting the Search for the next page leaves the
// stream Active with no receiver; the following next() panics in next_inner() on rx.unwrap().
// This test states the expected behaviour (no panic) and therefore FAILS on the unchanged code.

use std::time::Duration;

use ldap3::adapters::PagedResults;
use ldap3::{LdapConnAsync, Scope};
use tokio::io::{AsyncReadExt, AsyncWriteExt};
use tokio::net::TcpListener;

#[tokio::test]
async fn dropped_next_during_page_turn() {
    let listener = TcpListener::bind("127.0.0.1:0").await.unwrap();
    let url = format!("ldap://{}", listener.local_addr().unwrap());
    tokio::spawn(async move {
        let (mut sock, _) = listener.accept().await.unwrap();
        let mut buf = [0u8; 512];
        let n = sock.read(&mut buf).await.unwrap();
        assert!(n > 0);
        // entry, then SearchResultDone with a Paged Results control holding cookie "A"
        let mut script = vec![0x30, 0x09, 0x02, 0x01, 0x01, 0x64, 0x04, 0x04, 0x00, 0x30, 0x00];
        let oid = b"1.2.840.113556.1.4.319";
        let mut ctrl = vec![0x04, oid.len() as u8];
        ctrl.extend_from_slice(oid);
        ctrl.extend_from_slice(&[0x04, 0x08, 0x30, 0x06, 0x02, 0x01, 0x00, 0x04, 0x01, 0x41]);
        let mut ctrls = vec![0xa0, (ctrl.len() + 2) as u8, 0x30, ctrl.len() as u8];
        ctrls.extend(ctrl);
        let mut body = vec![0x02, 0x01, 0x01, 0x65, 0x07, 0x0a, 0x01, 0x00, 0x04, 0x00, 0x04, 0x00];
        body.extend(ctrls);
        script.extend([0x30, body.len() as u8]);
        script.extend(body);
        sock.write_all(&script).await.unwrap();
        // the request for the second page is read but never answered
        loop {
            if sock.read(&mut buf).await.unwrap_or(0) == 0 {
                break;
            }
        }
    });

    let (conn, mut ldap) = LdapConnAsync::new(&url).await.unwrap();
    ldap3::drive!(conn);
    let mut stream = ldap
        .streaming_search_with(
            PagedResults::new(1),
            "dc=example",
            Scope::Subtree,
            "(objectClass=*)",
            vec!["*"],
        )
        .await
        .unwrap();
    assert!(stream.next().await.unwrap().is_some());
    // let the driver queue the SearchResultDone of the first page
    tokio::time::sleep(Duration::from_millis(200)).await;
    // poll next() exactly once and drop it: it consumes the Done, submits the Search for
    // the second page and is waiting for the driver's acknowledgement
    tokio::select! {
        biased;
        r = stream.next() => panic!("unexpectedly ready: {:?}", r.map(|o| o.is_some())),
        _ = std::future::ready(()) => (),
    }
    println!("state after the dropped next(): {:?}", stream.state());
    // must not panic
    let r = tokio::time::timeout(Duration::from_secs(1), stream.next()).await;
    println!("second next(): {:?}", r.map(|r| r.map(|o| o.is_some())));
}
