// Hand triage of C19 Y.optional-component-absent (NOT part of any check): RFC 3062 PasswdModifyResponseValue ::= SEQUENCE {
// genPasswd [0] OCTET STRING OPTIONAL }.  The well-formed value `30 00` (no generated password) panics in
// PasswordModifyResp::parse ("element"); the struct field gen_pass: String cannot represent absence.
use ldap3::exop::{ExopParser, PasswordModifyResp};

#[test]
fn passmod_response_with_generated_password() {
    let r = PasswordModifyResp::parse(&[0x30, 0x05, 0x80, 0x03, b'a', b'b', b'c']);
    assert_eq!(r.gen_pass, "abc");
}

#[test]
fn passmod_response_without_generated_password() {
    let r = std::panic::catch_unwind(|| PasswordModifyResp::parse(&[0x30, 0x00]));
    assert!(r.is_ok(), "the well-formed response value 30 00 (genPasswd absent) makes the parser panic");
}
