// Hand triage of C04 L9.unbind-ends-the-driver (NOT part of any check): run as an integration test of a scratch copy of the
// repository.  Two handles on one connection: one has a Bind outstanding that the peer never answers, the other unbinds.  The
// peer keeps its end of the connection open.  C04: when the client unbinds, each operation still waiting returns an error (it never
// hangs).  Before the fix the driver shut the socket down but kept waiting for the peer, and the Bind hung for as long as the
// peer stayed connected.
use std::time::Duration;
use tokio::io::AsyncReadExt;

#[tokio::test]
async fn unbind_fails_operations_still_waiting() {
    let l = tokio::net::TcpListener::bind("127.0.0.1:0").await.unwrap();
    let port = l.local_addr().unwrap().port();
    tokio::spawn(async move {
        let (mut s, _) = l.accept().await.unwrap();
        let mut buf = [0u8; 1024];
        // read whatever the client sends, never answer, never close
        let t = tokio::time::Instant::now();
        while t.elapsed() < Duration::from_secs(6) {
            let _ = tokio::time::timeout(Duration::from_millis(200), s.read(&mut buf)).await;
        }
    });
    let (conn, mut ldap) = ldap3::LdapConnAsync::new(&format!("ldap://127.0.0.1:{}", port)).await.unwrap();
    ldap3::drive!(conn);
    let mut other = ldap.clone();
    let pending = tokio::spawn(async move { other.simple_bind("cn=x", "pw").await });
    tokio::time::sleep(Duration::from_millis(200)).await; // the Bind is on the wire and waiting
    ldap.unbind().await.unwrap();
    match tokio::time::timeout(Duration::from_secs(3), pending).await {
        Err(_) => panic!("the pending Bind still hangs 3 s after the client unbound"),
        Ok(r) => assert!(r.unwrap().is_err(), "the pending Bind must fail, no response was received"),
    }
    // later operations on the handle fail immediately
    let r = tokio::time::timeout(Duration::from_secs(1), ldap.simple_bind("cn=y", "pw")).await;
    assert!(matches!(r, Ok(Err(_))), "an operation after unbind must fail at once");
}
