// Hand triage of C10 Q2.finish-returns-server-result-only-when-read-to-the-end (NOT part of any check): run as an integration
// test of a scratch copy of the repository (copy into <scratch>/tests/).  A paged search whose second page is not read to the end:
// finish() must return the synthetic "cancelled" result (rc 88); before the fix it returned the FIRST page's server result
// (rc 0, still carrying the paging control with the non-empty cookie), because the adapter leaves it in `stream.res`.
use ldap3::adapters::{Adapter, EntriesOnly, PagedResults};
use ldap3::{LdapConnAsync, Scope};
use tokio::io::{AsyncReadExt, AsyncWriteExt};

async fn read_msg(s: &mut tokio::net::TcpStream) -> Vec<u8> {
    let mut hdr = [0u8; 2];
    s.read_exact(&mut hdr).await.unwrap();
    let len = if hdr[1] < 0x80 {
        hdr[1] as usize
    } else {
        let n = (hdr[1] & 0x7f) as usize;
        let mut l = vec![0u8; n];
        s.read_exact(&mut l).await.unwrap();
        l.iter().fold(0usize, |a, b| (a << 8) | *b as usize)
    };
    let mut body = vec![0u8; len];
    s.read_exact(&mut body).await.unwrap();
    body
}

fn entry(id: u8, dn: &str) -> Vec<u8> {
    let mut op = vec![0x04, dn.len() as u8];
    op.extend_from_slice(dn.as_bytes());
    op.extend_from_slice(&[0x30, 0x00]);
    let mut m = vec![0x02, 0x01, id, 0x64, op.len() as u8];
    m.extend(op);
    let mut out = vec![0x30, m.len() as u8];
    out.extend(m);
    out
}

fn done_with_cookie(id: u8, cookie: &[u8]) -> Vec<u8> {
    // controls [0] { SEQUENCE { OID, OCTET STRING { SEQUENCE { INTEGER 0, OCTET STRING cookie } } } }
    let oid = b"1.2.840.113556.1.4.319";
    let mut pr = vec![0x02, 0x01, 0x00, 0x04, cookie.len() as u8];
    pr.extend_from_slice(cookie);
    let mut prs = vec![0x30, pr.len() as u8];
    prs.extend(pr);
    let mut ctrl = vec![0x04, oid.len() as u8];
    ctrl.extend_from_slice(oid);
    ctrl.push(0x04);
    ctrl.push(prs.len() as u8);
    ctrl.extend(prs);
    let mut cseq = vec![0x30, ctrl.len() as u8];
    cseq.extend(ctrl);
    let mut ctrls = vec![0xa0, cseq.len() as u8];
    ctrls.extend(cseq);
    let mut m = vec![0x02, 0x01, id, 0x65, 0x07, 0x0a, 0x01, 0x00, 0x04, 0x00, 0x04, 0x00];
    m.extend(ctrls);
    let mut out = vec![0x30, m.len() as u8];
    out.extend(m);
    out
}

async fn run(chain: bool) -> (u32, usize) {
    let l = tokio::net::TcpListener::bind("127.0.0.1:0").await.unwrap();
    let port = l.local_addr().unwrap().port();
    tokio::spawn(async move {
        let (mut s, _) = l.accept().await.unwrap();
        let _ = read_msg(&mut s).await; // Search #1 (id 1)
        s.write_all(&entry(1, "cn=A")).await.unwrap();
        s.write_all(&done_with_cookie(1, b"c1")).await.unwrap();
        let _ = read_msg(&mut s).await; // Search #2 (id 2), cookie c1
        s.write_all(&entry(2, "cn=B")).await.unwrap();
        // page 2 is never completed
        tokio::time::sleep(std::time::Duration::from_secs(2)).await;
    });
    let (conn, mut ldap) = LdapConnAsync::new(&format!("ldap://127.0.0.1:{}", port)).await.unwrap();
    ldap3::drive!(conn);
    let adapters: Vec<Box<dyn Adapter<_, _>>> = if chain {
        vec![Box::new(EntriesOnly::new()), Box::new(PagedResults::new(1))]
    } else {
        vec![Box::new(PagedResults::new(1))]
    };
    let mut stream = ldap
        .streaming_search_with(adapters, "dc=example", Scope::Subtree, "(objectClass=*)", vec!["cn"])
        .await
        .unwrap();
    assert!(stream.next().await.unwrap().is_some()); // A
    assert!(stream.next().await.unwrap().is_some()); // B (page 2)
    let res = stream.finish().await; // early: page 2 not read to the end
    (res.rc, res.ctrls.len())
}

#[tokio::test]
async fn early_finish_on_second_page_is_cancelled() {
    let (rc, nctrls) = run(false).await;
    assert_eq!((rc, nctrls), (88, 0), "finish() before the end of page 2 must be the synthetic cancelled result");
}

#[tokio::test]
async fn early_finish_on_second_page_is_cancelled_chained() {
    let (rc, nctrls) = run(true).await;
    assert_eq!((rc, nctrls), (88, 0), "finish() before the end of page 2 must be the synthetic cancelled result");
}
