// Hand triage of C18 U3.port-bearing-url-rejected (NOT part of any check): run as an integration test of a scratch copy of
// the repository (copy into <scratch>/tests/).  Fails before fix 46798cd ("connected instead of returning an error"), passes after.
#[cfg(unix)]
#[tokio::test]
async fn port_bearing_ldapi_url_is_rejected() {
    let path = "/tmp/ldapi-verif-port.sock";
    let _ = std::fs::remove_file(path);
    let _l = tokio::net::UnixListener::bind(path).unwrap();
    let r = ldap3::LdapConnAsync::new("ldapi://%2Ftmp%2Fldapi-verif-port.sock:389").await;
    let _ = std::fs::remove_file(path);
    match r {
        Err(ldap3::LdapError::PortInUnixPath) => (),
        Err(e) => panic!("other error: {:?}", e),
        Ok(_) => panic!("a port-bearing ldapi URL connected instead of returning an error"),
    }
}
