// Hand triage (NOT part of any check): run as an integration test of a scratch copy of the repository.
// C11: "input that is not a well-formed LDAPMessage envelope ends the connection with a decoding error that every pending
// operation observes".  RFC 4511 4.1.1: LDAPMessage ::= SEQUENCE { messageID, protocolOp, controls [0] OPTIONAL } - a universal
// SEQUENCE with nothing in front of the message ID.
use std::time::Duration;
use tokio::io::{AsyncReadExt, AsyncWriteExt};

async fn bind_answered_with(frame: &'static [u8]) -> Result<ldap3::LdapResult, ldap3::LdapError> {
    let l = tokio::net::TcpListener::bind("127.0.0.1:0").await.unwrap();
    let port = l.local_addr().unwrap().port();
    tokio::spawn(async move {
        let (mut s, _) = l.accept().await.unwrap();
        let mut buf = [0u8; 256];
        let _ = s.read(&mut buf).await;
        s.write_all(frame).await.unwrap();
        tokio::time::sleep(Duration::from_secs(2)).await;
    });
    let (conn, mut ldap) = ldap3::LdapConnAsync::new(&format!("ldap://127.0.0.1:{}", port)).await.unwrap();
    ldap3::drive!(conn);
    tokio::time::timeout(Duration::from_secs(1), ldap.simple_bind("cn=x", "pw")).await.expect("the Bind neither completed nor failed")
}

#[tokio::test]
async fn well_formed_envelope_is_delivered() {
    let r = bind_answered_with(&[0x30, 0x0c, 0x02, 0x01, 0x01, 0x61, 0x07, 0x0a, 0x01, 0x00, 0x04, 0x00, 0x04, 0x00]).await;
    assert_eq!(r.unwrap().rc, 0);
}

#[tokio::test]
async fn application_class_outer_element_is_not_an_envelope() {
    // [APPLICATION 16] constructed instead of the universal SEQUENCE
    let r = bind_answered_with(&[0x70, 0x0c, 0x02, 0x01, 0x01, 0x61, 0x07, 0x0a, 0x01, 0x00, 0x04, 0x00, 0x04, 0x00]).await;
    assert!(r.is_err(), "an [APPLICATION 16] element was taken for an LDAPMessage: {:?}", r);
}

#[tokio::test]
async fn context_class_outer_element_is_not_an_envelope() {
    let r = bind_answered_with(&[0xb0, 0x0c, 0x02, 0x01, 0x01, 0x61, 0x07, 0x0a, 0x01, 0x00, 0x04, 0x00, 0x04, 0x00]).await;
    assert!(r.is_err(), "a [16] element was taken for an LDAPMessage: {:?}", r);
}

#[tokio::test]
async fn element_in_front_of_the_message_id_is_not_an_envelope() {
    let r = bind_answered_with(&[0x30, 0x0f, 0x04, 0x01, 0x41, 0x02, 0x01, 0x01, 0x61, 0x07, 0x0a, 0x01, 0x00, 0x04, 0x00, 0x04, 0x00]).await;
    assert!(r.is_err(), "a SEQUENCE with an extra element in front of the message ID was taken for an LDAPMessage: {:?}", r);
}
