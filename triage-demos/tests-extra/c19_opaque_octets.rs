// Hand triage of C19 Y.opaque-octets-total (NOT part of any check): run as an integration test of a scratch copy of the repository.
// RFC 5805: the transaction identifier returned by StartTxn is an opaque OCTET STRING; RFC 3062: genPasswd is an OCTET STRING.
// Both decoders convert the octets with a UTF-8 test whose failure panics, and both structs hold a String: a well-formed value
// whose octets are not UTF-8 cannot be represented and makes the caller's task panic.
use ldap3::exop::{ExopParser, PasswordModifyResp, StartTxnResp};

#[test]
fn start_txn_identifier_that_is_not_utf8() {
    let r = std::panic::catch_unwind(|| StartTxnResp::parse(&[0xff, 0x00, 0x80]));
    assert!(r.is_ok(), "StartTxnResp::parse panics on the well-formed identifier ff 00 80");
}

#[test]
fn generated_password_that_is_not_utf8() {
    let r = std::panic::catch_unwind(|| PasswordModifyResp::parse(&[0x30, 0x04, 0x80, 0x02, 0xc3, 0x28]));
    assert!(r.is_ok(), "PasswordModifyResp::parse panics on the well-formed genPasswd c3 28");
}
