// Hand triage of C04 L6.handed-back-connection-holds-no-waiter (NOT part of any check): run as an integration test of a scratch
// copy of the repository (copy into <scratch>/tests/).  A peer that closes the connection after reading the StartTLS request:
// before the fix, LdapConnAsync::with_settings(starttls) never returns (the one-operation driver hands the connection back
// with the StartTLS operation's reply sender still in its result map, so the operation waits forever); after it, an error.
use std::time::Duration;
use tokio::io::AsyncReadExt;

#[tokio::test]
async fn starttls_peer_closes_after_request() {
    let l = tokio::net::TcpListener::bind("127.0.0.1:0").await.unwrap();
    let port = l.local_addr().unwrap().port();
    tokio::spawn(async move {
        let (mut s, _) = l.accept().await.unwrap();
        let mut buf = [0u8; 256];
        let _ = s.read(&mut buf).await; // the StartTLS ExtendedRequest
        drop(s); // clean close, no response
    });
    let settings = ldap3::LdapConnSettings::new().set_starttls(true);
    let r = tokio::time::timeout(
        Duration::from_secs(3),
        ldap3::LdapConnAsync::with_settings(settings, &format!("ldap://127.0.0.1:{}", port)),
    )
    .await;
    match r {
        Err(_) => panic!("connection establishment hangs after the peer closed the connection"),
        Ok(Ok(_)) => panic!("connection established without TLS"),
        Ok(Err(_)) => (),
    }
}

// an unsolicited message under an unknown ID ahead of the StartTLS response must not end the one-operation driver either
#[tokio::test]
async fn starttls_unsolicited_message_then_close() {
    use tokio::io::AsyncWriteExt;
    let l = tokio::net::TcpListener::bind("127.0.0.1:0").await.unwrap();
    let port = l.local_addr().unwrap().port();
    tokio::spawn(async move {
        let (mut s, _) = l.accept().await.unwrap();
        let mut buf = [0u8; 256];
        let _ = s.read(&mut buf).await;
        // ExtendedResponse (Notice of Disconnection-like) under message ID 0
        let _ = s.write_all(&[0x30, 0x0c, 0x02, 0x01, 0x00, 0x78, 0x07, 0x0a, 0x01, 0x34, 0x04, 0x00, 0x04, 0x00]).await;
        tokio::time::sleep(Duration::from_millis(200)).await;
        drop(s);
    });
    let settings = ldap3::LdapConnSettings::new().set_starttls(true);
    let r = tokio::time::timeout(
        Duration::from_secs(3),
        ldap3::LdapConnAsync::with_settings(settings, &format!("ldap://127.0.0.1:{}", port)),
    )
    .await;
    match r {
        Err(_) => panic!("connection establishment hangs after an unsolicited message and a close"),
        Ok(Ok(_)) => panic!("connection established without TLS"),
        Ok(Err(_)) => (),
    }
}

// the same, with the peer closing before the StartTLS request has even been taken from the request channel by the one-operation
// driver (a race between the spawned driver task and the caller's extended(): needs a multi-thread runtime; about half of the
// attempts hung before the follow-up fix)
#[tokio::test(flavor = "multi_thread", worker_threads = 4)]
async fn starttls_peer_closes_right_after_accept() {
    let mut hung = 0;
    for _ in 0..100 {
        let l = tokio::net::TcpListener::bind("127.0.0.1:0").await.unwrap();
        let port = l.local_addr().unwrap().port();
        tokio::spawn(async move {
            let (s, _) = l.accept().await.unwrap();
            drop(s);
        });
        let settings = ldap3::LdapConnSettings::new().set_starttls(true);
        let r = tokio::time::timeout(
            Duration::from_secs(1),
            ldap3::LdapConnAsync::with_settings(settings, &format!("ldap://127.0.0.1:{}", port)),
        )
        .await;
        match r {
            Err(_) => hung += 1,
            Ok(Ok(_)) => panic!("connection established without TLS"),
            Ok(Err(_)) => (),
        }
    }
    assert_eq!(hung, 0, "connection establishment hung in {} of 100 attempts", hung);
}
