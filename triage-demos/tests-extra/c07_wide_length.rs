// Hand triage (NOT part of any check): run as an integration test of a scratch copy of the repository.
// A long-form length whose value does not fit the parser's accumulator (more than eight significant length octets) was cut down to
// its low 64 bits: `04 89 01 00 00 00 00 00 00 00 02 41 42 43` (an OCTET STRING announcing 2^64 + 2 octets) parsed as the two-octet
// string "AB" with "C" left over - an element delimited where the sender did not delimit it.  Zero-padded length fields of any
// width stay legal.
use lber::parse::parse_tag;

#[test]
fn length_of_2_pow_64_plus_2_is_not_2() {
    let input = [0x04, 0x89, 0x01, 0, 0, 0, 0, 0, 0, 0, 0x02, 0x41, 0x42, 0x43];
    match parse_tag(&input) {
        Ok((rest, tag)) => panic!("an element announcing 2^64 + 2 content octets was delimited after 2: {:?}, rest {:?}", tag, rest),
        Err(_) => (),
    }
}

#[test]
fn envelope_length_of_2_pow_64_plus_12_is_not_12() {
    let mut input = vec![0x30, 0x89, 0x01, 0, 0, 0, 0, 0, 0, 0, 0x0c];
    input.extend_from_slice(&[0x02, 0x01, 0x01, 0x61, 0x07, 0x0a, 0x01, 0x00, 0x04, 0x00, 0x04, 0x00]);
    assert!(parse_tag(&input).is_err(), "a frame announcing 2^64 + 12 octets was delivered after 12");
}

#[test]
fn zero_padded_lengths_stay_legal() {
    let input = [0x04, 0x8a, 0, 0, 0, 0, 0, 0, 0, 0, 0, 0x02, 0x41, 0x42, 0x43];
    let (rest, tag) = parse_tag(&input).expect("zero-padded length field");
    assert_eq!(rest, &[0x43]);
    assert_eq!(tag.expect_primitive().unwrap(), vec![0x41, 0x42]);
    let input = [0x04, 0x88, 0, 0, 0, 0, 0, 0, 0, 0x01, 0x41];
    assert!(parse_tag(&input).is_ok());
}
