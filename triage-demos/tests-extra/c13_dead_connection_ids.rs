// Hand triage of C13 K9.unsent-operation-releases-its-id (NOT part of any check): run as an integration test of a scratch copy of the
// repository.  After the connection has ended (here: Unbind), every further operation on a handle fails at once - but op_call had
// reserved a message ID for it before noticing, and nobody releases it: the shared in-use set grows by one entry per failed call.
use tokio::io::AsyncReadExt;

fn in_use(ldap: &ldap3::Ldap) -> String {
    let dbg = format!("{:?}", ldap);
    let i = dbg.find("msgmap").expect("msgmap in Debug output");
    let rest = &dbg[i..];
    let j = rest.find('(').unwrap();
    let k = rest[j..].find(')').unwrap();
    rest[j..j + k + 1].to_string()
}

#[tokio::test]
async fn failed_operations_on_a_dead_connection_reserve_nothing() {
    let l = tokio::net::TcpListener::bind("127.0.0.1:0").await.unwrap();
    let port = l.local_addr().unwrap().port();
    tokio::spawn(async move {
        let (mut s, _) = l.accept().await.unwrap();
        let mut buf = [0u8; 256];
        while s.read(&mut buf).await.unwrap_or(0) > 0 {}
    });
    let (conn, mut ldap) = ldap3::LdapConnAsync::new(&format!("ldap://127.0.0.1:{}", port)).await.unwrap();
    let driver = tokio::spawn(async move { conn.drive().await });
    ldap.unbind().await.unwrap();
    let _ = driver.await; // the driver has ended
    for _ in 0..5 {
        assert!(ldap.delete("cn=x").await.is_err());
    }
    let t = in_use(&ldap);
    // the Unbind's own ID aside (it is never answered), nothing may stay reserved
    let n = t.matches(',').count();
    assert!(n <= 1, "message IDs reserved by operations that were never sent: {}", t);
}
