// Hand triage (NOT part of any check): run as an integration test of a scratch copy of the repository.
// A response whose resultCode has no content octets (`0a 00`) carries no code at all; it was read as 0 and passed success() - also
// in the StartTLS exchange, where `res.success()?` decides whether the TLS handshake is started.
use std::time::Duration;
use tokio::io::{AsyncReadExt, AsyncWriteExt};

async fn bind_answered_with(frame: &'static [u8]) -> ldap3::LdapResult {
    let l = tokio::net::TcpListener::bind("127.0.0.1:0").await.unwrap();
    let port = l.local_addr().unwrap().port();
    tokio::spawn(async move {
        let (mut s, _) = l.accept().await.unwrap();
        let mut buf = [0u8; 256];
        let _ = s.read(&mut buf).await;
        s.write_all(frame).await.unwrap();
        tokio::time::sleep(Duration::from_secs(1)).await;
    });
    let (conn, mut ldap) = ldap3::LdapConnAsync::new(&format!("ldap://127.0.0.1:{}", port)).await.unwrap();
    ldap3::drive!(conn);
    ldap.simple_bind("cn=x", "pw").await.unwrap()
}

#[tokio::test]
async fn empty_result_code_is_not_success() {
    let r = bind_answered_with(&[0x30, 0x0b, 0x02, 0x01, 0x01, 0x61, 0x06, 0x0a, 0x00, 0x04, 0x00, 0x04, 0x00]).await;
    assert!(r.clone().success().is_err(), "a response without a result code is taken for success (rc={})", r.rc);
    assert!(r.clone().non_error().is_err());
}

#[tokio::test]
async fn zero_is_still_success() {
    let r = bind_answered_with(&[0x30, 0x0c, 0x02, 0x01, 0x01, 0x61, 0x07, 0x0a, 0x01, 0x00, 0x04, 0x00, 0x04, 0x00]).await;
    assert!(r.success().is_ok());
}
