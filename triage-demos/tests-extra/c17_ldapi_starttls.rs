// Hand triage of C17 W8.no-cleartext-handle-when-starttls-requested (NOT part of any check): run as an integration test of a
// scratch copy of the repository (copy into <scratch>/tests/).  With an ldapi URL, set_starttls(true) is silently ignored: the
// constructor hands back a cleartext handle and the Bind that follows, password included, crosses the socket unprotected.
// This test documents the finding: it PASSES while the defect is present (it asserts the cleartext Bind).
#[cfg(unix)]
#[tokio::test]
async fn ldapi_with_starttls_requested_gives_a_cleartext_handle() {
    use tokio::io::AsyncReadExt;
    let path = "/tmp/ldapi-verif-starttls.sock";
    let _ = std::fs::remove_file(path);
    let l = tokio::net::UnixListener::bind(path).unwrap();
    let srv = tokio::spawn(async move {
        let (mut s, _) = l.accept().await.unwrap();
        let mut buf = vec![0u8; 512];
        let n = s.read(&mut buf).await.unwrap();
        buf.truncate(n);
        buf
    });
    let settings = ldap3::LdapConnSettings::new().set_starttls(true);
    let r = ldap3::LdapConnAsync::with_settings(settings, "ldapi://%2Ftmp%2Fldapi-verif-starttls.sock").await;
    let (conn, mut ldap) = r.expect("known finding: the constructor succeeds although StartTLS was requested and cannot be honoured");
    ldap3::drive!(conn);
    let _ = tokio::time::timeout(std::time::Duration::from_millis(300), ldap.simple_bind("cn=admin", "s3cr3t")).await;
    let seen = srv.await.unwrap();
    let _ = std::fs::remove_file(path);
    // first message on the wire: a BindRequest (application tag 0x60) carrying the password in the clear - not the StartTLS request
    assert!(seen.windows(6).any(|w| w == b"s3cr3t"), "the password crossed the socket in cleartext: {:02x?}", seen);
    assert_eq!(seen[5], 0x60, "first cleartext message is the Bind, not a StartTLS extended request");
}
