// Hand triage of C13 K9.stream-scrubs-its-own-search (NOT part of any check): run as an integration test of a scratch copy of the
// repository.  A streaming Search (message ID 1) is running; another operation is issued through the stream's own handle
// (`stream.ldap_handle()`, ID 2) and completes; then the stream is finished early.  finish() must release the SEARCH's ID and
// routing entry.  Before the fix the scrub named `ldap.last_id`, which the second operation had overwritten with 2: ID 1 stayed
// reserved (and its routing entry stayed in the driver) for as long as the server sent nothing more for it.
use std::time::Duration;
use tokio::io::{AsyncReadExt, AsyncWriteExt};

async fn read_msg(s: &mut tokio::net::TcpStream) -> Vec<u8> {
    let mut hdr = [0u8; 2];
    s.read_exact(&mut hdr).await.unwrap();
    let len = if hdr[1] < 0x80 {
        hdr[1] as usize
    } else {
        let n = (hdr[1] & 0x7f) as usize;
        let mut l = vec![0u8; n];
        s.read_exact(&mut l).await.unwrap();
        l.iter().fold(0usize, |a, b| (a << 8) | *b as usize)
    };
    let mut body = vec![0u8; len];
    s.read_exact(&mut body).await.unwrap();
    body
}

#[tokio::test]
async fn early_finish_releases_the_searchs_own_id() {
    let l = tokio::net::TcpListener::bind("127.0.0.1:0").await.unwrap();
    let port = l.local_addr().unwrap().port();
    tokio::spawn(async move {
        let (mut s, _) = l.accept().await.unwrap();
        let _ = read_msg(&mut s).await; // Search, id 1
        s.write_all(&[0x30, 0x09, 0x02, 0x01, 0x01, 0x64, 0x04, 0x04, 0x00, 0x30, 0x00]).await.unwrap(); // one entry, no Done
        let _ = read_msg(&mut s).await; // Compare, id 2
        s.write_all(&[0x30, 0x0c, 0x02, 0x01, 0x02, 0x6f, 0x07, 0x0a, 0x01, 0x06, 0x04, 0x00, 0x04, 0x00]).await.unwrap(); // compareTrue
        tokio::time::sleep(Duration::from_secs(2)).await;
    });
    let (conn, mut ldap) = ldap3::LdapConnAsync::new(&format!("ldap://127.0.0.1:{}", port)).await.unwrap();
    ldap3::drive!(conn);
    let mut stream = ldap
        .streaming_search("dc=example", ldap3::Scope::Subtree, "(objectClass=*)", vec!["cn"])
        .await
        .unwrap();
    assert!(stream.next().await.unwrap().is_some());
    let r = stream.ldap_handle().compare("cn=x", "cn", "x").await.unwrap();
    assert_eq!(r.0.rc, 6);
    let res = stream.finish().await;
    assert_eq!(res.rc, 88);
    tokio::time::sleep(Duration::from_millis(200)).await; // let the driver process the scrub
    // the in-use ID set is visible in the Debug rendering of the handle: `msgmap: Mutex { data: (2, {..}) .. }`
    let dbg = format!("{:?}", ldap);
    let i = dbg.find("msgmap").expect("msgmap in Debug output");
    let set = &dbg[i..];
    let open = set.find('{').unwrap();
    let inner = &set[open..];
    let j = inner.find("(").unwrap();
    let k = inner[j..].find(')').unwrap();
    let tuple = &inner[j..j + k + 1];
    assert!(tuple.ends_with("{})"), "message IDs still reserved after every operation has completed or was finished: {}", tuple);
}
