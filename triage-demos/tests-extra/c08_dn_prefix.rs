// Triage demonstration for C08 (not part of any check): a matching rule whose name begins with "dn".
// RFC 4515: extensible = attr [dnattrs] [matchingrule] ":=" value / [dnattrs] matchingrule ":=" value, matchingrule = ":" oid,
// and an oid may be a descr such as dnQualifierMatch.  On the unrepaired tree `opt(tag(":dn"))` commits to the dnattrs flag
// and the filter is rejected; with the repair the flag is recognised only where a colon (resp. a rule) follows.
use ldap3::asn1::ASNTag;

fn enc(f: &str) -> Vec<u8> {
    let t = ldap3::parse_filter(f).unwrap();
    let mut b = bytes::BytesMut::new();
    lber::write::encode_into(&mut b, t.into_structure()).unwrap();
    b.to_vec()
}

#[test]
fn matching_rule_names_beginning_with_dn() {
    for (f, want) in [
        ("(cn:dnQualifierMatch:=x)", true), ("(cn:dn:dnQualifierMatch:=x)", true), ("(:dnQualifierMatch:=x)", true),
        ("(:dn:dnQualifierMatch:=x)", true), ("(cn:caseExactMatch:=x)", true), ("(cn:dn:=x)", true), ("(cn:dnx:=y)", true),
        ("(:dn:2.5.13.5:=x)", true), ("(:dn:=x)", true), ("(:dn)", false), ("(cn:dn)", false), ("(:dn:)", false),
        ("(cn:dn:caseExactMatch:=x)", true),
    ] {
        assert_eq!(ldap3::parse_filter(f).is_ok(), want, "{}", f);
    }
    assert_eq!(enc("(cn:dnQualifierMatch:=x)"), b"\xa9\x19\x81\x10dnQualifierMatch\x82\x02cn\x83\x01x".to_vec());
    assert_eq!(enc("(cn:dn:=x)"), b"\xa9\x0a\x82\x02cn\x83\x01x\x84\x01\xff".to_vec());
    assert_eq!(enc("(:dn:=x)"), b"\xa9\x07\x81\x02dn\x83\x01x".to_vec());
    assert_eq!(enc("(:dn:caseExactMatch:=x)"), b"\xa9\x16\x81\x0ecaseExactMatch\x83\x01x\x84\x01\xff".to_vec());
}
