#!/bin/bash
# usage: tools/eval_refactor.sh <worktree with _rf/patch_*.diff> [checks...]
# Applies each behaviour-preserving patch to the scratch worktree, runs the checks against it
# (LDAP3_REPO=<worktree>), prints any alarm (= a false alarm of the checker), restores the worktree.
WT=$1; shift
checks="$@"
[ -z "$checks" ] && checks="C01 C02 C03 C04 C05 C06 C07 C08 C09 C10 C11 C12 C13 C14 C15 C16 C17 C18 C19 C20"
cd $WT || exit 9
git checkout -q -- . 
for p in _rf/patch_*.diff; do
  [ -s "$p" ] || { echo "== $p: empty"; continue; }
  git apply "$p" || { echo "== $p: DOES NOT APPLY"; continue; }
  echo "== $p ($(git diff --stat -- src lber/src | tail -1))"
  for c in $checks; do
    out=$(LDAP3_REPO=$WT /verif/check $c 2>&1)
    echo "$out" | grep -E 'BUILD-ERROR|Traceback' | head -2
    n=$(echo "$out" | grep -c '^VIOLATION')
    if [ "$n" -gt 0 ]; then echo "   $c: $n alarm(s):"; echo "$out" | grep -B2 '^VIOLATION' | grep -vE '^VIOLATION|^--' | cut -c1-400; fi
  done
  git checkout -q -- .
done
