#!/bin/bash
# usage: tools/eval_refactor.sh <set under /verif/refactors, e.g. C05a> [patch numbers "1 3" | all] [checks...]
# Applies each behaviour-preserving patch of the set to a scratch worktree of /repo (/tmp/rf-eval, created on demand, removed
# with tools/eval_refactor.sh --clean), runs the checks against it (LDAP3_REPO), prints any alarm (= a false alarm of the checker).
if [ "$1" = "--clean" ]; then git -C /repo worktree remove --force ${RF_WT:-/tmp/rf-eval} 2>/dev/null; git -C /repo worktree prune; exit 0; fi
VROOT=$(cd "$(dirname "$0")/.." && pwd)
set=$1; shift
which=${1:-all}; shift
checks="$@"
[ -z "$checks" ] && checks="C01 C02 C03 C04 C05 C06 C07 C08 C09 C10 C11 C12 C13 C14 C15 C16 C17 C18 C19 C20"
WT=${RF_WT:-/tmp/rf-eval}
[ -d $WT ] || git -C /repo worktree add --detach -q $WT HEAD
cd $WT || exit 9
git checkout -q --detach $(git -C /repo rev-parse HEAD) 2>/dev/null
git checkout -q -- .
for p in "$VROOT"/refactors/$set/patch_*.diff; do
  k=$(basename $p .diff); k=${k#patch_}
  if [ "$which" != "all" ] && ! echo " $which " | grep -q " $k "; then continue; fi
  git apply "$p" || { echo "== $set/$k: DOES NOT APPLY"; continue; }
  echo "== $set/patch_$k ($(git diff --stat -- src lber/src | tail -1))"
  for c in $checks; do
    out=$(LDAP3_REPO=$WT "$VROOT/check" $c 2>&1)
    echo "$out" | grep -E 'BUILD-ERROR|Traceback' | head -2
    n=$(echo "$out" | grep -c '^VIOLATION')
    if [ "$n" -gt 0 ]; then echo "   $c: $n alarm(s):"; echo "$out" | grep -B2 '^VIOLATION' | grep -vE '^VIOLATION|^--' | cut -c1-${COLS:-400}; fi
  done
  git checkout -q -- .
done
