#!/usr/bin/env python3
"""usage: tools/resolve_jsonl.py <file...>  -- resolves a git merge conflict in a .jsonl file by keeping the lines of both sides (entries are independent; duplicates by name are dropped)."""
import json, sys
for p in sys.argv[1:]:
    out, seen = [], set()
    for l in open(p).read().split('\n'):
        if not l.strip() or l.startswith('<<<<<<<') or l.startswith('=======') or l.startswith('>>>>>>>'):
            continue
        n = json.loads(l)['name']
        if n in seen:
            continue
        seen.add(n)
        out.append(l)
    open(p, 'w').write('\n'.join(out) + '\n')
    print(p, len(out), 'entries')
