#!/bin/bash
# usage: tools/merge_branch.sh <branch>   -- merges a rule-maintenance branch into the current branch of /verif:
# evidence/*.json are regenerated files (local changes are discarded first, conflicts take "ours"), selftest/*.jsonl conflicts keep
# both sides (tools/resolve_jsonl.py), MANIFEST.json is regenerated afterwards.  Stops with a message on any other conflict.
set -u
cd "$(dirname "$0")/.."
b=$1
git rev-parse --verify -q "$b" >/dev/null || { echo "no such branch: $b"; exit 2; }
git checkout -q -- evidence MANIFEST.json 2>/dev/null
if [ -n "$(git status --porcelain | grep -v '^??')" ]; then echo "working tree not clean:"; git status --short | grep -v '^??' | head; exit 2; fi
out=$(git merge --no-edit "$b" 2>&1); rc=$?
echo "$out" | grep -E "CONFLICT|Merge made|Already up to date|error|fatal" | head
for f in $(git status --short | grep -E "^(UU|AA)" | awk '{print $2}'); do
  case $f in
    selftest/*.jsonl) python3 tools/resolve_jsonl.py "$f" && git add "$f";;
    MANIFEST.json|evidence/*.json) git checkout --ours "$f" && git add "$f";;
  esac
done
if git status --short | grep -qE "^(UU|AA|DU|UD)"; then echo "UNRESOLVED:"; git status --short | grep -E "^(UU|AA|DU|UD)"; exit 1; fi
if [ $rc -ne 0 ]; then git commit -qm "Merge branch '$b'" || exit 1; fi
python3 tools/gen_manifest.py >/dev/null 2>&1
git add MANIFEST.json; git commit -qm "manifest regenerated after merging $b" 2>/dev/null
echo "merged $b: $(git log --oneline -1 | cut -c1-60)"
