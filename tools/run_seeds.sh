#!/bin/bash
# usage: tools/run_seeds.sh [seed ids...]   -- every seeded defect against all 20 checks, on a scratch worktree of /repo (never /repo
# itself); prints one line per seed with the checks / rules that report it, and MISSED when none does.  Works from a vp run snapshot.
VROOT=$(cd "$(dirname "$0")/.." && pwd)
WT=${SEED_WT:-/tmp/seed-eval}
seeds="$@"
[ -z "$seeds" ] && seeds=$(ls "$VROOT/seeded" | grep '^C[0-9]')
[ -d $WT ] || git -C /repo worktree add --detach -q $WT HEAD
cd $WT || exit 9
git checkout -q --detach $(git -C /repo rev-parse HEAD) 2>/dev/null
git checkout -q -- .
for s in $seeds; do
  p="$VROOT/seeded/$s/patch.diff"
  git apply "$p" || { echo "$s: DOES NOT APPLY"; continue; }
  own=$(python3 -c "import json;print(json.load(open('$VROOT/seeded/$s/meta.json'))['property'])")
  line=""; ownhit=no
  for c in ${SEED_CHECKS:-C01 C02 C03 C04 C05 C06 C07 C08 C09 C10 C11 C12 C13 C14 C15 C16 C17 C18 C19 C20}; do
    out=$(LDAP3_REPO=$WT "$VROOT/check" $c 2>&1)
    echo "$out" | grep -E 'BUILD-ERROR|Traceback' | head -2
    n=$(echo "$out" | grep -c '^VIOLATION')
    if [ "$n" -gt 0 ]; then
      line="$line $c[$(echo "$out" | grep -oE 'rule=[^ ]+' | sed 's/rule=//' | sort -u | tr '\n' ',' | cut -c1-160)]"
      [ "$c" = "$own" ] && ownhit=yes
    fi
  done
  [ -z "$line" ] && line=" MISSED"
  echo "$s (property $own, own check reports: $ownhit):$line"
  git checkout -q -- .
done
git -C /repo worktree remove --force $WT; git -C /repo worktree prune
echo SEEDS-DONE
