#!/bin/bash
# usage: tools/mutant.sh <name> <check ids...> -- <sed-expr> <file> [<sed-expr> <file>...]
# Applies sed edits to a scratch copy of /repo (outside /repo and /verif), runs the checks on it, removes it.
set -u
name=$1; shift
ids=()
while [ "$1" != "--" ]; do ids+=("$1"); shift; done
shift
S=/root/scratch/mut-$name
rm -rf "$S"; mkdir -p "$S"
rsync -a --exclude target --exclude .git /repo/ "$S"/
while [ $# -ge 2 ]; do
  sed -i -E "$1" "$S/$2" || exit 9
  shift 2
done
( cd "$S" && diff -ru /repo/src src | grep -E '^[-+][^-+]' | head -20; diff -ru /repo/lber/src lber/src | grep -E '^[-+][^-+]' | head -10 )
for id in "${ids[@]}"; do
  LDAP3_REPO="$S" /verif/check "$id" 2>&1 | grep -v conda | tail -8
done
rm -rf "$S" /verif/.work/facts-*-$(echo -n "$S" | sha1sum | cut -c1-8)
