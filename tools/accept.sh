#!/bin/bash
# usage: tools/accept.sh <Cxx> [extra refactor sets...]   -- acceptance of one property's rule module, both ways:
#   1. silent on the unchanged tree            2. every seeded defect of the property reported by the property's own check
#   3. every self-test mutant naming the check is caught        4. silent on every behaviour-preserving patch of refactors/<Cxx>a,
#      refactors/<Cxx>c and the extra sets given (only this property's check is run on them)
# Scratch worktrees: /tmp/acc-<Cxx>-{seed,rf} (removed at the end).  Prints a summary line `ACCEPT <Cxx>: ...`.
VROOT=$(cd "$(dirname "$0")/.." && pwd)
P=$1; shift
EXTRA="$@"
cd "$VROOT"
bad=0
echo "== 1. unchanged tree"
out=$(./check $P 2>&1); echo "$out" | grep -E "^$P:|rule=" | cut -c1-200
echo "$out" | grep -q '^VIOLATION' && bad=$((bad+1))
echo "== 2. seeded defects (own check must report)"
seeds=$(for d in seeded/$P seeded/${P}b seeded/${P}d seeded/${P}e seeded/${P}f; do [ -f $d/meta.json ] && basename $d; done)
for d in seeded/C*; do [ -f $d/meta.json ] || continue; python3 - "$d" "$P" <<'PY' && seeds="$seeds $(basename $d)"
import json,sys
m=json.load(open(sys.argv[1]+'/meta.json'))
import re
own=m['property']; det=m.get('detected_by','')
sys.exit(0 if own!=sys.argv[2] and re.search(r'\b%s\b'%sys.argv[2], det.split('MISSED')[0]) else 1)
PY
done
seeds=$(echo $seeds | tr ' ' '\n' | sort -u | tr '\n' ' ')
sout=$(SEED_WT=/tmp/acc-$P-seed SEED_CHECKS="$P" tools/run_seeds.sh $seeds 2>&1)
echo "$sout" | grep -v SEEDS-DONE | cut -c1-220
nmiss=$(echo "$sout" | grep -c "MISSED")
bad=$((bad+nmiss))
echo "== 3. self-test mutants"
mout=$(./check selftest $(echo $P | tr 'C' 'c')- 2>&1)
echo "$mout" | grep -vE "CAUGHT by|SILENT$" | cut -c1-200
echo "$mout" | tail -1 | grep -q " 0 not as expected" || bad=$((bad+1))
echo "== 4. behaviour-preserving refactors (must stay silent)"
nfa=0
for s in ${P}a ${P}c $EXTRA; do
  [ -d refactors/$s ] || continue
  rout=$(RF_WT=/tmp/acc-$P-rf COLS=220 tools/eval_refactor.sh $s all $P 2>&1)
  echo "$rout" | awk '/^== /{hdr=$0; next} /alarm\(s\)/{print hdr; n=6} n>0{print; n--}' | cut -c1-220
  echo "$rout" | grep -E "DOES NOT APPLY|BUILD-ERROR|Traceback"
  n=$(echo "$rout" | grep -c "alarm(s)")
  nfa=$((nfa+n))
done
RF_WT=/tmp/acc-$P-rf tools/eval_refactor.sh --clean
echo "ACCEPT $P: unchanged+seeds+mutants problems=$bad  false-alarm patches=$nfa"
