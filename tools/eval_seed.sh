#!/bin/bash
# usage: tools/eval_seed.sh <seed dir name under /verif/seeded> [checks...]   (default: all checks)
# Applies the seeded change to /repo, runs the checks, and ALWAYS restores /repo.
d=/verif/seeded/$1
shift
cd /repo || exit 9
test -z "$(git status --porcelain)" || { echo "/repo is not clean"; exit 9; }
git apply "$d/patch.diff" || { echo "patch does not apply to /repo HEAD"; exit 9; }
trap 'git -C /repo checkout -q -- . ; git -C /repo clean -fdq -- src lber/src' EXIT
checks="$@"
[ -z "$checks" ] && checks="C01 C02 C03 C04 C05 C06 C07 C08 C09 C10 C11 C12 C13 C14 C15 C16 C17 C18 C19 C20"
for c in $checks; do
  out=$(/verif/check $c 2>&1)
  echo "$out" | grep -E 'BUILD-ERROR' | head -2
  n=$(echo "$out" | grep -c '^VIOLATION')
  if [ "$n" -gt 0 ]; then echo "$c: $n violation(s): $(echo "$out" | grep -oE 'rule=[^ ]+' | sort -u | tr '\n' ' ' | cut -c1-300)"; fi
done
