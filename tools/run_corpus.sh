#!/bin/bash
# usage: tools/run_corpus.sh [sets...]   -- every behaviour-preserving patch of the refactor corpus against all 20 checks; prints
# one line per patch and the alarms (false alarms of the checker).  Meant for `vp run` (works from a snapshot of /verif).
cd "$(dirname "$0")/.."
sets="$@"
[ -z "$sets" ] && sets=$(ls refactors)
for s in $sets; do COLS=200 tools/eval_refactor.sh $s all; done
echo CORPUS-DONE
