#!/bin/bash
# usage: tools/confirm_seed.sh C07   -- confirms a sub-agent's seeded change in its scratch worktree /tmp/wt-C07 and runs the checks on it
id=$1
WT=/tmp/wt-$id
cd $WT || exit 9
test -f _seed/patch.diff || { echo "no patch"; exit 9; }
demo=$(ls tests/ 2>/dev/null | grep -i seed | head -1)
echo "== demo: $demo"
# 1. clean library sources -> demo must pass
git checkout -q -- src lber/src
echo "-- unchanged code: demo"
if [ -n "$demo" ]; then cargo test --offline --test ${demo%.rs} 2>&1 | grep -E '^test result|panicked|error' | head -5; fi
# 2. apply patch -> build, pre-existing tests, demo must fail
git apply _seed/patch.diff || { echo "PATCH DOES NOT APPLY"; exit 9; }
echo "-- with the change: pre-existing tests"
cargo test --workspace --offline --lib 2>&1 | grep -E '^test result|error(\[|:)' | head -5
cargo test --workspace --offline --doc 2>&1 | grep -E '^test result|error(\[|:)' | head -3
echo "-- with the change: demo"
if [ -n "$demo" ]; then cargo test --offline --test ${demo%.rs} 2>&1 | grep -E '^test result|panicked' | head -5; fi
# 3. the checks
echo "-- checks on the changed tree"
mv tests /tmp/tests-$id.moved 2>/dev/null
for c in "${@:2}"; do LDAP3_REPO=$WT /verif/check $c 2>&1 | grep -E 'rule=|^C[0-9]+:|BUILD' | cut -c1-230 | head -8; done
mv /tmp/tests-$id.moved tests 2>/dev/null
