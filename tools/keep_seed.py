#!/usr/bin/env python3
"""usage: tools/keep_seed.py <id e.g. C03b> <property> "<change>" "<needs>" "<detected_by>"
Copies a confirmed seeded change from its scratch worktree /tmp/wt-<id>/_seed into /verif/seeded/<id>/ and writes meta.json."""
import json, os, shutil, sys
sid, prop, change, needs, det = sys.argv[1:6]
src = '/tmp/wt-%s/_seed' % sid
dst = '/verif/seeded/%s' % sid
os.makedirs(dst, exist_ok=True)
demos = []
for fn in os.listdir(src):
    if os.path.isdir(os.path.join(src, fn)):
        shutil.copytree(os.path.join(src, fn), os.path.join(dst, fn), dirs_exist_ok=True)
        continue
    shutil.copy(os.path.join(src, fn), os.path.join(dst, fn))
    if fn.endswith('.rs'):
        demos.append(fn)
meta = {'property': prop, 'change': change, 'needs_to_manifest': needs,
        'author': 'independent sub-agent given only the property text (and a one-line description of earlier seeds to avoid) and a scratch worktree',
        'confirmed': 'tools/confirm_seed.sh %s: demo passes on the unchanged code, fails with the change; cargo test --workspace --offline --lib/--doc: 38 unit + 7 doc tests pass with the change' % sid,
        'demonstration': sorted(demos),
        'checks': 'tools/eval_seed.sh %s (applies patch.diff to /repo, runs all 20 checks, restores /repo)' % sid,
        'detected_by': det}
json.dump(meta, open(os.path.join(dst, 'meta.json'), 'w'), indent=1)
print('kept', dst, sorted(os.listdir(dst)))
