#!/bin/bash
# usage: tools/confirm_twin.sh <seed ids...>  -- the behaviour-preserving twin (_seed/benign.diff) of a seed, in the sub-agent's scratch
# worktree /tmp/wt-<id>: the seed's demonstration and the repo's tests must pass with it, and all 20 checks must stay silent.
ALL="C01 C02 C03 C04 C05 C06 C07 C08 C09 C10 C11 C12 C13 C14 C15 C16 C17 C18 C19 C20"
for id in "$@"; do
  WT=/tmp/wt-$id
  cd $WT || { echo "$id: no worktree"; continue; }
  test -f _seed/benign.diff || { echo "######## $id twin: no benign.diff"; continue; }
  git checkout -q -- src lber/src
  git apply _seed/benign.diff || { echo "######## $id twin: DOES NOT APPLY"; continue; }
  echo "######## $id twin  files: $(git diff --stat -- src lber/src | tail -1)"
  demo=$(ls tests/ 2>/dev/null | grep -i seed | head -1)
  [ -n "$demo" ] && cargo test --offline --test ${demo%.rs} 2>&1 | grep -E '^test result|^error' | sed 's/^/   demo: /' | cut -c1-110
  cargo test --workspace --offline --lib 2>&1 | grep -E '^test result|^error(\[|:)' | sed 's/^/   suite: /' | cut -c1-110
  cargo test --workspace --offline --doc 2>&1 | grep -E '^test result: .* [1-9][0-9]* passed|FAILED|^error(\[|:)' | sed 's/^/   doc: /' | cut -c1-110
  mv tests /tmp/tests-$id.moved 2>/dev/null
  for c in $ALL; do LDAP3_REPO=$WT /verif/check $c 2>&1 | grep -E 'rule=|BUILD' | sed "s/^/   FALSE-ALARM $c /" | cut -c1-260; done
  mv /tmp/tests-$id.moved tests 2>/dev/null
  git checkout -q -- src lber/src
  git apply _seed/patch.diff
done
