#!/usr/bin/env python3
"""usage: tools/mk_agent.py seed|refactor <Cxx> <suffix>
Creates a scratch worktree of /repo (/tmp/wt-<Cxx><suffix> or /tmp/rf-<Cxx><suffix>), seeds its target dir from /repo/target so the
first build is quick, and prints the prompt for a fresh sub-agent (property text only; nothing from /verif's machinery)."""
import json, os, subprocess, sys

kind, pid, suf = sys.argv[1], sys.argv[2], sys.argv[3]
V = '/verif'
prop = None
for l in open(V + '/properties.jsonl'):
    p = json.loads(l)
    if p['id'] == pid:
        prop = p
assert prop
text = 'id: %s\ntitle: %s\nstatement: %s\nquantifier: %s\ncode anchors:\n%s' % (
    prop['id'], prop['title'], prop['statement'], prop['quantifier']['text'],
    json.dumps({k: v for k, v in prop['anchors'].items() if k in ('files', 'state', 'mechanism')}, indent=1))
if kind == 'seed':
    wt = '/tmp/wt-%s%s' % (pid, suf)
    tmpl = open(V + '/seeded/AGENT_PROMPT.tmpl').read()
    prompt = tmpl.replace('__WT__', wt).replace('__PROP__', text).replace('__ID__', pid + suf)
    prev = []
    for d in sorted(os.listdir(V + '/seeded')):
        if d.startswith(pid) and os.path.exists(V + '/seeded/' + d + '/meta.json'):
            prev.append(json.load(open(V + '/seeded/' + d + '/meta.json'))['change'])
    if prev:
        prompt += ('\n\nALREADY DONE BY OTHERS (do NOT repeat these; choose a different function, clause or mechanism of the property, '
                   'and a different kind of mistake):\n' + '\n'.join(' - ' + c for c in prev))
else:
    wt = '/tmp/rf-%s%s' % (pid, suf)
    tmpl = open(V + '/seeded/REFACTOR_AGENT_PROMPT.tmpl').read()
    prompt = tmpl.replace('/tmp/rf-@ID@', wt).replace('@PROP@', text).replace('@ID@', pid + suf)
if not os.path.isdir(wt):
    subprocess.check_call(['git', '-C', '/repo', 'worktree', 'add', '--detach', '-q', wt, 'HEAD'])
    if os.path.isdir('/repo/target'):
        subprocess.call(['cp', '-a', '/repo/target', wt + '/target'])
print(prompt)
