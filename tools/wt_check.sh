#!/bin/bash
# usage: tools/wt_check.sh C07 [checks...]  -- run checks against scratch worktree /tmp/wt-C07 (tests/ moved away so only library code is analysed)
id=$1; WT=/tmp/wt-$id
mv $WT/tests /tmp/tests-$id.moved 2>/dev/null
for c in "${@:2}"; do LDAP3_REPO=$WT /verif/check $c 2>&1 | grep -E 'rule=|^C[0-9]+:|BUILD|Traceback|Error' | cut -c1-260 | head -10; done
mv /tmp/tests-$id.moved $WT/tests 2>/dev/null
