#!/bin/bash
# usage: tools/confirm_round.sh <seed ids...>   -- confirm_seed.sh for each (all 20 checks), condensed to a few lines per seed
ALL="C01 C02 C03 C04 C05 C06 C07 C08 C09 C10 C11 C12 C13 C14 C15 C16 C17 C18 C19 C20"
for s in "$@"; do
  out=$("$(dirname "$0")"/confirm_seed.sh $s $ALL 2>&1)
  echo "######## $s  files: $(cd /tmp/wt-$s && git diff --stat -- src lber/src | tail -1)"
  echo "$out" | awk '/^-- unchanged code/{m="before"} /^-- with the change: pre/{m="suite"} /^-- with the change: demo/{m="after"} /^-- checks/{m="checks"} /^test result/{print "   " m ": " $0}' | cut -c1-120
  echo "$out" | grep -E 'rule=' | sed 's/^/   ALARM /' | cut -c1-230
  echo "$out" | grep -E 'BUILD|PATCH DOES NOT|no patch' | head -3
done
