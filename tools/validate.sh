#!/bin/bash
# validates MANIFEST.json and every evidence file against the schemas
cd "$(dirname "$0")/.."
python3-vt - <<'PY'
import json, jsonschema, glob
jsonschema.validate(json.load(open('MANIFEST.json')), json.load(open('/root/.vp/MANIFEST.schema.json')))
print('MANIFEST ok')
s = json.load(open('/root/.vp/EVIDENCE.schema.json'))
for f in sorted(glob.glob('evidence/C*.json')):
    jsonschema.validate(json.load(open(f)), s)
    print(f, 'ok')
PY
