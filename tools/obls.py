#!/usr/bin/env python3
"""usage: tools/obls.py <Cxx> [substring]  -- list the obligations of a check on /repo (or LDAP3_REPO) with verdicts"""
import sys, os, importlib
sys.path.insert(0, os.path.join(os.path.dirname(os.path.abspath(__file__)), '..', 'rules'))
import engine, facts as F
pid = sys.argv[1]; sub = sys.argv[2] if len(sys.argv) > 2 else ''
cfg = os.environ.get('CFG', 'default')
files, _ = engine.extract_facts(cfg)
f = F.Facts(files)
ctx = engine.Ctx(pid, f, cfg)
mod = importlib.import_module('props.' + pid)
mod.run(ctx)
for o in ctx.obls:
    if sub in o.rule or sub in o.instance:
        print('%s %-45s %s  @%s  %s' % ('ok  ' if o.ok else 'FAIL', o.rule, o.instance[:150], o.loc, (o.detail or '')[:110]))
