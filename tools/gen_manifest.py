#!/usr/bin/env python3
"""Regenerates /verif/MANIFEST.json from the property modules in rules/props."""
import importlib, json, os, sys
VERIF = os.path.dirname(os.path.dirname(os.path.abspath(__file__)))
sys.path.insert(0, os.path.join(VERIF, 'rules'))
props = [json.loads(l) for l in open(os.path.join(VERIF, 'properties.jsonl'))]
NA = {}
na_file = os.path.join(VERIF, 'tools', 'not_applicable.json')
if os.path.exists(na_file):
    NA = json.load(open(na_file))
checks, na = [], []
for p in props:
    pid = p['id']
    try:
        mod = importlib.import_module('props.' + pid)
    except ModuleNotFoundError:
        na.append({'property_id': pid, 'reason': NA.get(pid, 'check not implemented yet (work in progress; see DESIGN.md section 0)')})
        continue
    checks.append({
        'property_id': pid,
        'quick_cmd': './check %s' % pid,
        'thorough_cmd': './check %s --thorough' % pid,
        'evidence_file': 'evidence/%s.json' % pid,
        'replay_cmd_template': './check %s --replay {path}' % pid,
        'engine': 'ldap3-facts + rules',
        'level_claimed': {
            'category': 'other',
            'text': getattr(mod, 'LEVEL_TEXT', None) or ('Static decision of the structural necessary conditions of the property on the resolved, type-checked program (all call sites / arms / paths of the anchored mechanism, every run, from /repo\'s working tree). ' + mod.EXPLANATION),
            'design_ref': 'DESIGN.md section 6, ' + pid,
        },
        'level_note': 'Decides the listed structural clauses, not the runtime behaviour taken whole. Undecided: ' + '; '.join(getattr(mod, 'UNDECIDED', [])) + '. Trusted: rustc front end (nightly rustc_private), the fact extractor, ' + ', '.join(getattr(mod, 'TRUSTED', [])) + '.',
        'technique': getattr(mod, 'TECHNIQUE', 'static analysis: path-sensitive abstract interpretation of the typed HIR (term domain, no execution, no solver), exhaustive evaluation over finite partitions, data-origin / who-may-touch queries and a MIR call-graph panic cone, all over facts extracted by a rustc_private driver from /repo\'s working tree'),
    })
m = {
    'version': 1,
    'setup_cmd': './setup.sh',
    'hooks': {
        'guard': 'none',
        'enable': 'no hooks: static analysis reads /repo\'s unmodified sources through a rustc wrapper (RUSTC_WORKSPACE_WRAPPER) during cargo +nightly check',
        'baseline_off_cmd': 'cd /repo && cargo test --workspace --no-fail-fast --offline',
        'source_commits': [],
        'add_only': True,
    },
    'engines': [
        {'name': 'ldap3-facts', 'path': 'driver/', 'serves_properties': [c['property_id'] for c in checks],
         'kind_free_text': 'rustc_private driver: items, typed HIR with resolved callees, pre-optimisation MIR, as JSON facts'},
        {'name': 'rules', 'path': 'rules/', 'serves_properties': [c['property_id'] for c in checks],
         'kind_free_text': 'Python rule library (stdlib only): helper inlining and canonical control forms at fact load, path-sensitive abstract interpreter (absx) with library models, path-level queries (sem), driver-arm enumeration, data origin, who-may-touch, finite-partition evaluation, ASN.1 shape extraction, PEG extraction with language-level comparison, panic cone with discharge rules'},
    ],
    'checks': checks,
    'not_applicable': na,
    'notes': 'All checks are static: the only process run on the analysed code is cargo +nightly check (type checking, with the fact-extracting rustc wrapper); nothing of inejge/ldap3 is executed. Quick = default feature configuration, thorough = all four configurations that build offline. See DESIGN.md (sections 11 and 12 describe the checks as built and how they were evaluated against seeded defects and behaviour-preserving refactors).',
}
fix_file = os.path.join(VERIF, 'tools', 'fix_commits.json')
if os.path.exists(fix_file):
    m['notes'] += ' fix: commits in /repo: ' + ', '.join(json.load(open(fix_file)))
json.dump(m, open(os.path.join(VERIF, 'MANIFEST.json'), 'w'), indent=1)
print('manifest: %d checks, %d not applicable' % (len(checks), len(na)))
