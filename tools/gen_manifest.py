#!/usr/bin/env python3
"""Regenerates /verif/MANIFEST.json from the property modules in rules/props."""
import importlib, json, os, sys
VERIF = os.path.dirname(os.path.dirname(os.path.abspath(__file__)))
sys.path.insert(0, os.path.join(VERIF, 'rules'))
props = [json.loads(l) for l in open(os.path.join(VERIF, 'properties.jsonl'))]
NA = {}
na_file = os.path.join(VERIF, 'tools', 'not_applicable.json')
if os.path.exists(na_file):
    NA = json.load(open(na_file))
checks, na = [], []
for p in props:
    pid = p['id']
    try:
        mod = importlib.import_module('props.' + pid)
    except ModuleNotFoundError:
        na.append({'property_id': pid, 'reason': NA.get(pid, 'check not implemented yet (work in progress; see DESIGN.md section 0)')})
        continue
    shared = getattr(mod, 'SHARED', [])
    shared_txt = ''
    if shared:
        shared_txt = ' Also decided here, with the rule functions of the sibling property they belong to: ' + '; '.join(
            '%s = %s rules %s' % (label, other, ', '.join(x.rstrip('.') for x in prefixes)) for other, prefixes, label in shared) + '.'
    import engine
    wit = engine.WITNESS_USE.get(pid)
    thorough_txt = ' Thorough tier: the same rules in all four feature configurations that build offline (default, no-default-features, rustls, gssapi)'
    if wit:
        thorough_txt += ', the compile_fail witnesses %s of witness/ (each with a compiling twin)' % ', '.join(wit)
    thorough_txt += ', and a sensitivity run of this check against every self-test mutant and seeded defect of the property applied to a scratch copy of the current tree.'
    checks.append({
        'property_id': pid,
        'quick_cmd': './check %s' % pid,
        'thorough_cmd': './check %s --thorough' % pid,
        'evidence_file': 'evidence/%s.json' % pid,
        'replay_cmd_template': './check %s --replay {path}' % pid,
        'engine': 'ldap3-facts + rules',
        'level_claimed': {
            'category': 'other',
            'text': getattr(mod, 'LEVEL_TEXT', None) or ('Static decision of the structural necessary conditions of the property on the resolved, type-checked program (all call sites / arms / paths of the anchored mechanism, every run, from /repo\'s working tree). ' + mod.EXPLANATION + shared_txt + thorough_txt),
            'design_ref': 'DESIGN.md section 6, ' + pid,
        },
        'level_note': 'Decides the listed structural clauses, not the runtime behaviour taken whole. Undecided: ' + '; '.join(getattr(mod, 'UNDECIDED', [])) + '. Trusted: rustc front end (nightly rustc_private), the fact extractor, ' + ', '.join(getattr(mod, 'TRUSTED', [])) + '.',
        'technique': getattr(mod, 'TECHNIQUE', 'static analysis: path-sensitive abstract interpretation of the typed HIR (term domain, no execution, no solver), exhaustive evaluation over finite partitions, data-origin / who-may-touch queries and a MIR call-graph panic cone, all over facts extracted by a rustc_private driver from /repo\'s working tree'),
    })
m = {
    'version': 1,
    'setup_cmd': './setup.sh',
    'hooks': {
        'guard': 'none',
        'enable': 'no hooks: static analysis reads /repo\'s unmodified sources through a rustc wrapper (RUSTC_WORKSPACE_WRAPPER) during cargo +nightly check',
        'baseline_off_cmd': 'cd /repo && cargo test --workspace --no-fail-fast --offline',
        'source_commits': [],
        'add_only': True,
    },
    'engines': [
        {'name': 'ldap3-facts', 'path': 'driver/', 'serves_properties': [c['property_id'] for c in checks],
         'kind_free_text': 'rustc_private driver: items, typed HIR with resolved callees, pre-optimisation MIR, as JSON facts'},
        {'name': 'rules', 'path': 'rules/', 'serves_properties': [c['property_id'] for c in checks],
         'kind_free_text': 'Python rule library (stdlib only): helper inlining and canonical control forms at fact load, path-sensitive abstract interpreter (absx) with library models, path-level queries (sem), driver-arm enumeration, data origin, who-may-touch, finite-partition evaluation, ASN.1 shape extraction, PEG extraction with language-level comparison, panic cone with discharge rules'},
        {'name': 'fixtures', 'path': 'fixtures/', 'serves_properties': ['C01', 'C04', 'C08', 'C11', 'C18'],
         'kind_free_text': 'positive-control crate analysed by the same driver on every run: the queries behind zero-count rules (leak primitives, panic sources of every kind, recursion, who-may-touch) must match there'},
        {'name': 'witness', 'path': 'witness/', 'serves_properties': sorted(__import__('engine').WITNESS_USE),
         'kind_free_text': 'compile_fail,E0xxx doc-test witnesses with compiling twins (cargo +nightly test --doc, thorough tier): encapsulation facts the who-may-touch rules lean on, as the compiler enforces them'},
    ],
    'checks': checks,
    'not_applicable': na,
    'notes': 'All checks are static: the only process run on the analysed code is cargo +nightly check (type checking, with the fact-extracting rustc wrapper); nothing of inejge/ldap3 is executed. Quick = the default feature configuration, plus the configurations a module names in QUICK_CONFIGS because code it is anchored in exists only there (rustls for C17, gssapi for C06 and C11); thorough = all four configurations that build offline, the compile_fail witnesses, and sensitivity runs against the known property-breaking variants. See DESIGN.md (sections 11 to 19 describe the checks as built and how they were evaluated against seeded defects and behaviour-preserving refactors).',
}
fix_file = os.path.join(VERIF, 'tools', 'fix_commits.json')
if os.path.exists(fix_file):
    m['notes'] += ' fix: commits in /repo: ' + ', '.join(json.load(open(fix_file)))
json.dump(m, open(os.path.join(VERIF, 'MANIFEST.json'), 'w'), indent=1)
print('manifest: %d checks, %d not applicable' % (len(checks), len(na)))
