//! ldap3-facts: rustc_private fact extractor (engine E1 of /verif/DESIGN.md).
//!
//! Injected with RUSTC_WORKSPACE_WRAPPER into `cargo +nightly check` run on /repo. For every
//! workspace crate named in LDAP3_FACTS_CRATES it writes one JSON fact file into
//! LDAP3_FACTS_OUT with three layers: items, typed HIR of every body, pre-optimisation MIR.
//! It never executes analysed code.
#![feature(rustc_private)]
extern crate rustc_abi;
extern crate rustc_ast;
extern crate rustc_data_structures;
extern crate rustc_driver;
extern crate rustc_hir;
extern crate rustc_interface;
extern crate rustc_middle;
extern crate rustc_session;
extern crate rustc_span;

mod hir_dump;
mod json;
mod mir_dump;

use json::J;
use rustc_driver::Compilation;
use rustc_hir::def::DefKind;
use rustc_hir::def_id::{DefId, LocalDefId, LOCAL_CRATE};
use rustc_middle::ty::print::{with_no_trimmed_paths, with_no_visible_paths, with_resolve_crate_name};
use rustc_middle::ty::TyCtxt;
use rustc_span::Span;

pub struct Cx<'tcx> {
    pub tcx: TyCtxt<'tcx>,
    pub krate: String,
}

impl<'tcx> Cx<'tcx> {
    /// Fully qualified, untrimmed def path, always prefixed by the crate name.
    pub fn path(&self, did: DefId) -> String {
        with_resolve_crate_name!(with_no_visible_paths!(with_no_trimmed_paths!(self.tcx.def_path_str(did))))
    }

    pub fn ty_str<T: std::fmt::Display>(&self, t: T) -> String {
        with_resolve_crate_name!(with_no_visible_paths!(with_no_trimmed_paths!(format!("{}", t))))
    }

    pub fn short<T: std::fmt::Debug>(&self, t: T) -> String {
        with_resolve_crate_name!(with_no_visible_paths!(with_no_trimmed_paths!(format!("{:?}", t))))
    }

    /// [file, line, col, end_line, end_col] of the span *as written* plus macro provenance.
    pub fn span(&self, sp: Span) -> J {
        let sm = self.tcx.sess.source_map();
        let mut v = vec![];
        let (mac, site) = if sp.from_expansion() {
            let ed = sp.ctxt().outer_expn_data();
            let name = match ed.kind {
                rustc_span::ExpnKind::Macro(_, n) => format!("{}", n),
                rustc_span::ExpnKind::Desugaring(d) => format!("desugar:{:?}", d),
                rustc_span::ExpnKind::AstPass(p) => format!("astpass:{:?}", p),
                rustc_span::ExpnKind::Root => "root".to_string(),
            };
            (Some(name), sp.source_callsite())
        } else {
            (None, sp)
        };
        let lo = sm.lookup_char_pos(site.lo());
        let hi = sm.lookup_char_pos(site.hi());
        let fname = format!("{}", lo.file.name.prefer_local_unconditionally());
        v.push(J::s(fname));
        v.push(J::I(lo.line as i128));
        v.push(J::I(lo.col.0 as i128 + 1));
        v.push(J::I(hi.line as i128));
        v.push(J::I(hi.col.0 as i128 + 1));
        if let Some(m) = mac {
            v.push(J::s(m));
        }
        J::A(v)
    }

    pub fn snippet(&self, sp: Span) -> String {
        self.tcx
            .sess
            .source_map()
            .span_to_snippet(sp)
            .unwrap_or_default()
    }
}

fn vis_str(tcx: TyCtxt<'_>, did: DefId) -> String {
    match tcx.def_kind(did) {
        DefKind::Closure | DefKind::AnonConst | DefKind::InlineConst | DefKind::Impl { .. } => {
            "n/a".into()
        }
        _ => {
            let v = tcx.visibility(did);
            match v {
                rustc_middle::ty::Visibility::Public => "pub".into(),
                rustc_middle::ty::Visibility::Restricted(m) => {
                    if m == DefId::from(rustc_hir::def_id::CRATE_DEF_ID) {
                        "crate".into()
                    } else {
                        format!("in:{}", tcx.def_path_str(m))
                    }
                }
            }
        }
    }
}

fn dump_items<'tcx>(cx: &Cx<'tcx>) -> J {
    let tcx = cx.tcx;
    let mut out = vec![];
    for ldid in tcx.hir_crate_items(()).definitions() {
        let did: DefId = ldid.to_def_id();
        let kind = tcx.def_kind(did);
        let mut o: Vec<(&'static str, J)> = vec![
            ("path", J::s(cx.path(did))),
            ("kind", J::s(format!("{:?}", kind))),
            ("span", cx.span(tcx.def_span(did))),
        ];
        match kind {
            DefKind::Fn | DefKind::AssocFn => {
                o.push(("vis", J::s(vis_str(tcx, did))));
                let sig = tcx.fn_sig(did).instantiate_identity().skip_norm_wip();
                o.push(("sig", J::s(cx.ty_str(sig))));
                let inputs: Vec<J> = sig
                    .skip_binder()
                    .inputs()
                    .iter()
                    .map(|t| J::s(cx.ty_str(*t)))
                    .collect();
                o.push(("inputs", J::A(inputs)));
                o.push(("output", J::s(cx.ty_str(sig.skip_binder().output()))));
                o.push(("asyncness", J::B(tcx.asyncness(did).is_async())));
                let attrs = tcx.codegen_fn_attrs(did);
                o.push((
                    "track_caller",
                    J::B(attrs
                        .flags
                        .contains(rustc_middle::middle::codegen_fn_attrs::CodegenFnAttrFlags::TRACK_CALLER)),
                ));
                if let Some(parent) = tcx.opt_parent(did) {
                    if let DefKind::Impl { .. } = tcx.def_kind(parent) {
                        o.push(("impl_self", J::s(cx.ty_str(tcx.type_of(parent).instantiate_identity().skip_norm_wip()))));
                        if let Some(tr) = tcx.impl_opt_trait_ref(parent) {
                            o.push(("impl_trait", J::s(cx.ty_str(tr.instantiate_identity().skip_norm_wip()))));
                            o.push(("impl_trait_def", J::s(cx.path(tr.skip_binder().def_id))));
                        }
                    } else if let DefKind::Trait = tcx.def_kind(parent) {
                        o.push(("trait_decl", J::s(cx.path(parent))));
                    }
                }
            }
            DefKind::Struct | DefKind::Enum | DefKind::Union => {
                o.push(("vis", J::s(vis_str(tcx, did))));
                let adt = tcx.adt_def(did);
                let mut vars = vec![];
                let discrs: Vec<_> = if adt.is_enum() {
                    adt.discriminants(tcx).map(|(_, d)| d.val as i128).collect()
                } else {
                    vec![]
                };
                for (i, v) in adt.variants().iter().enumerate() {
                    let fields: Vec<J> = v
                        .fields
                        .iter()
                        .map(|f| {
                            J::O(vec![
                                ("name", J::s(f.name.to_string())),
                                ("ty", J::s(cx.ty_str(tcx.type_of(f.did).instantiate_identity().skip_norm_wip()))),
                                ("vis", J::s(vis_str(tcx, f.did))),
                            ])
                        })
                        .collect();
                    vars.push(J::O(vec![
                        ("name", J::s(v.name.to_string())),
                        ("path", J::s(cx.path(v.def_id))),
                        ("discr", if adt.is_enum() { J::I(discrs[i]) } else { J::Null }),
                        ("fields", J::A(fields)),
                    ]));
                }
                o.push(("variants", J::A(vars)));
            }
            DefKind::Const { .. } | DefKind::AssocConst { .. } | DefKind::Static { .. } => {
                o.push(("vis", J::s(vis_str(tcx, did))));
                o.push(("ty", J::s(cx.ty_str(tcx.type_of(did).instantiate_identity().skip_norm_wip()))));
            }
            DefKind::TyAlias => {
                o.push(("vis", J::s(vis_str(tcx, did))));
                o.push(("ty", J::s(cx.ty_str(tcx.type_of(did).instantiate_identity().skip_norm_wip()))));
            }
            DefKind::Impl { .. } => {
                o.push(("self_ty", J::s(cx.ty_str(tcx.type_of(did).instantiate_identity().skip_norm_wip()))));
                if let Some(tr) = tcx.impl_opt_trait_ref(did) {
                    o.push(("trait", J::s(cx.ty_str(tr.instantiate_identity().skip_norm_wip()))));
                    o.push(("trait_def", J::s(cx.path(tr.skip_binder().def_id))));
                }
                let items: Vec<J> = tcx
                    .associated_item_def_ids(did)
                    .iter()
                    .map(|d| J::s(cx.path(*d)))
                    .collect();
                o.push(("items", J::A(items)));
            }
            DefKind::Trait => {
                let items: Vec<J> = tcx
                    .associated_item_def_ids(did)
                    .iter()
                    .map(|d| J::s(cx.path(*d)))
                    .collect();
                o.push(("items", J::A(items)));
            }
            DefKind::Field => {
                o.push(("vis", J::s(vis_str(tcx, did))));
            }
            _ => {}
        }
        out.push(J::O(o));
    }
    J::A(out)
}

fn is_mir_owner(kind: DefKind) -> bool {
    matches!(kind, DefKind::Fn | DefKind::AssocFn | DefKind::Closure)
}

struct Cb;

impl rustc_driver::Callbacks for Cb {
    fn after_expansion<'tcx>(
        &mut self,
        _c: &rustc_interface::interface::Compiler,
        tcx: TyCtxt<'tcx>,
    ) -> Compilation {
        let name = tcx.crate_name(LOCAL_CRATE).to_string();
        let wanted = std::env::var("LDAP3_FACTS_CRATES").unwrap_or_default();
        if !wanted.split(',').any(|w| w == name) {
            return Compilation::Continue;
        }
        let outdir = match std::env::var("LDAP3_FACTS_OUT") {
            Ok(d) => d,
            Err(_) => return Compilation::Continue,
        };
        let nonce = std::env::var("LDAP3_FACTS_NONCE").unwrap_or_default();
        let cx = Cx { tcx, krate: name.clone() };

        let items = dump_items(&cx);

        let mut hir_bodies = vec![];
        let mut mir_bodies = vec![];
        let owners: Vec<LocalDefId> = tcx.hir_body_owners().collect();
        for ldid in owners.iter().copied() {
            let kind = tcx.def_kind(ldid);
            if !matches!(kind, DefKind::Closure | DefKind::AnonConst | DefKind::InlineConst) {
                hir_bodies.push(hir_dump::dump_owner(&cx, ldid));
            }
        }
        for ldid in owners.iter().copied() {
            let kind = tcx.def_kind(ldid);
            if is_mir_owner(kind) {
                mir_bodies.push(mir_dump::dump_mir(&cx, ldid));
            }
        }

        let top = J::O(vec![
            ("crate", J::s(name.clone())),
            ("nonce", J::s(nonce)),
            ("items", items),
            ("hir", J::A(hir_bodies)),
            ("mir", J::A(mir_bodies)),
        ]);
        let mut s = String::new();
        top.write(&mut s);
        let path = format!("{}/{}.facts.json", outdir, name);
        std::fs::write(&path, s).expect("write facts");
        Compilation::Continue
    }
}

fn main() {
    let mut args: Vec<String> = std::env::args().collect();
    // RUSTC_WORKSPACE_WRAPPER: argv[1] is the path of the real rustc
    if args.len() > 1 && (args[1].ends_with("rustc") || args[1].contains("/rustc")) {
        args.remove(1);
    }
    rustc_driver::run_compiler(&args, &mut Cb);
}
