//! MIR layer (mir_promoted: pre-optimisation, pre-coroutine-transform, overflow checks present).

use crate::json::J;
use crate::Cx;
use rustc_hir::def::DefKind;
use rustc_hir::def_id::{DefId, LocalDefId};
use rustc_middle::mir::visit::Visitor;
use rustc_middle::mir::{
    self, AggregateKind, AssertKind, Body, ConstOperand, Location, Operand, Rvalue, TerminatorKind,
};
use rustc_middle::ty::{self, Ty, TyCtxt};

struct FnRefs<'a, 'tcx> {
    cx: &'a Cx<'tcx>,
    owner: LocalDefId,
    out: Vec<J>,
}

fn resolve<'tcx>(
    tcx: TyCtxt<'tcx>,
    owner: LocalDefId,
    did: DefId,
    args: ty::GenericArgsRef<'tcx>,
) -> (Option<DefId>, bool) {
    if !matches!(tcx.def_kind(did), DefKind::Fn | DefKind::AssocFn) {
        return (None, false);
    }
    if args.len() != tcx.generics_of(did).count() {
        return (None, false);
    }
    let env = ty::TypingEnv::post_analysis(tcx, owner);
    match ty::Instance::try_resolve(tcx, env, did, args) {
        Ok(Some(inst)) => {
            let virt = matches!(inst.def, ty::InstanceKind::Virtual(..));
            (Some(inst.def_id()), virt)
        }
        _ => (None, false),
    }
}

fn fn_attrs<'tcx>(cx: &Cx<'tcx>, did: DefId) -> Vec<(&'static str, J)> {
    let tcx = cx.tcx;
    let mut v = vec![];
    if matches!(tcx.def_kind(did), DefKind::Fn | DefKind::AssocFn) {
        let attrs = tcx.codegen_fn_attrs(did);
        v.push((
            "track_caller",
            J::B(attrs
                .flags
                .contains(rustc_middle::middle::codegen_fn_attrs::CodegenFnAttrFlags::TRACK_CALLER)),
        ));
    }
    v.push(("local", J::B(did.is_local())));
    v
}

fn callee_info<'tcx>(cx: &Cx<'tcx>, owner: LocalDefId, fty: Ty<'tcx>) -> Vec<(&'static str, J)> {
    let tcx = cx.tcx;
    let mut v = vec![];
    match fty.kind() {
        ty::FnDef(did, args) => {
            v.push(("callee", J::s(cx.path(*did))));
            v.push(("targs", J::s(cx.ty_str(args.print_as_list()))));
            let (r, virt) = resolve(tcx, owner, *did, args);
            let eff = r.unwrap_or(*did);
            if let Some(r) = r {
                v.push(("inst", J::s(cx.path(r))));
            }
            if virt {
                v.push(("virtual", J::B(true)));
            }
            // a trait method that could not be resolved to an impl (generic context)
            if r.is_none() || virt {
                if let Some(tr) = tcx.trait_of_assoc(*did) {
                    v.push(("trait", J::s(cx.path(tr))));
                    v.push(("unresolved", J::B(true)));
                }
            } else if let Some(tr) = tcx.trait_of_assoc(*did) {
                v.push(("trait", J::s(cx.path(tr))));
            }
            v.extend(fn_attrs(cx, eff));
            // blanket `impl<T, U: From<T>> Into<U> for T`: name the From impl the call really enters
            if let Some(tr) = tcx.trait_of_assoc(*did) {
                if tcx.is_diagnostic_item(rustc_span::sym::Into, tr) && args.len() == 2 {
                    if let Some(from_tr) = tcx.get_diagnostic_item(rustc_span::sym::From) {
                        let from_fn = tcx.associated_item_def_ids(from_tr).iter().copied().next();
                        if let Some(from_fn) = from_fn {
                            let nargs = tcx.mk_args(&[args[1], args[0]]);
                            let (r2, _) = resolve(tcx, owner, from_fn, nargs);
                            if let Some(r2) = r2 {
                                v.push(("via_from", J::s(cx.path(r2))));
                            }
                        }
                    }
                }
            }
        }
        ty::FnPtr(..) => {
            v.push(("callee", J::s("<fnptr>")));
            v.push(("indirect", J::B(true)));
        }
        ty::Closure(did, _) | ty::Coroutine(did, _) => {
            v.push(("callee", J::s(cx.path(*did))));
        }
        _ => {
            v.push(("callee", J::s(format!("<{}>", cx.ty_str(fty)))));
            v.push(("indirect", J::B(true)));
        }
    }
    v
}

impl<'a, 'tcx> Visitor<'tcx> for FnRefs<'a, 'tcx> {
    fn visit_const_operand(&mut self, c: &ConstOperand<'tcx>, _loc: Location) {
        let t = c.const_.ty();
        if let ty::FnDef(..) = t.kind() {
            let mut v = callee_info(self.cx, self.owner, t);
            v.push(("sp", self.cx.span(c.span)));
            self.out.push(J::O(v));
        }
    }
    fn visit_rvalue(&mut self, rv: &Rvalue<'tcx>, loc: Location) {
        if let Rvalue::Aggregate(kind, _) = rv {
            match **kind {
                AggregateKind::Closure(did, _)
                | AggregateKind::Coroutine(did, _)
                | AggregateKind::CoroutineClosure(did, _) => {
                    self.out.push(J::O(vec![
                        ("callee", J::s(self.cx.path(did))),
                        ("closure", J::B(true)),
                        ("local", J::B(true)),
                    ]));
                }
                _ => {}
            }
        }
        self.super_rvalue(rv, loc);
    }
}

fn operand_is_const(op: &Operand<'_>) -> bool {
    matches!(op, Operand::Constant(_))
}

fn assert_kind<'tcx>(cx: &Cx<'tcx>, m: &AssertKind<Operand<'tcx>>) -> (String, bool, String) {
    match m {
        AssertKind::BoundsCheck { len, index } => (
            "BoundsCheck".into(),
            operand_is_const(len) && operand_is_const(index),
            format!("{} {}", cx.short(len), cx.short(index)),
        ),
        AssertKind::Overflow(op, a, b) => (
            format!("Overflow({:?})", op),
            operand_is_const(a) && operand_is_const(b),
            format!("{} {}", cx.short(a), cx.short(b)),
        ),
        AssertKind::OverflowNeg(a) => ("OverflowNeg".into(), operand_is_const(a), cx.short(a)),
        AssertKind::DivisionByZero(a) => ("DivisionByZero".into(), operand_is_const(a), cx.short(a)),
        AssertKind::RemainderByZero(a) => ("RemainderByZero".into(), operand_is_const(a), cx.short(a)),
        AssertKind::ResumedAfterReturn(_) => ("ResumedAfterReturn".into(), true, String::new()),
        AssertKind::ResumedAfterPanic(_) => ("ResumedAfterPanic".into(), true, String::new()),
        AssertKind::ResumedAfterDrop(_) => ("ResumedAfterDrop".into(), true, String::new()),
        AssertKind::MisalignedPointerDereference { .. } => ("MisalignedPointerDereference".into(), true, String::new()),
        AssertKind::NullPointerDereference => ("NullPointerDereference".into(), true, String::new()),
        AssertKind::InvalidEnumConstruction(_) => ("InvalidEnumConstruction".into(), true, String::new()),
    }
}

pub fn dump_mir<'tcx>(cx: &Cx<'tcx>, ldid: LocalDefId) -> J {
    let tcx = cx.tcx;
    let steal = tcx.mir_promoted(ldid);
    let body_ref = steal.0.borrow();
    let body: &Body<'tcx> = &body_ref;
    let mut blocks = vec![];
    for (bb, data) in body.basic_blocks.iter_enumerated() {
        let mut stmts = vec![];
        let mut refs = FnRefs { cx, owner: ldid, out: vec![] };
        for (i, st) in data.statements.iter().enumerate() {
            stmts.push(J::s(cx.short(st)));
            refs.visit_statement(st, Location { block: bb, statement_index: i });
        }
        let term = data.terminator();
        let mut t: Vec<(&'static str, J)> = vec![("sp", cx.span(term.source_info.span))];
        let succ: Vec<J> = term.successors().map(|b| J::I(b.as_u32() as i128)).collect();
        match &term.kind {
            TerminatorKind::Call { func, args, destination, target, fn_span, .. } => {
                t.push(("k", J::s("Call")));
                let fty = func.ty(body, tcx);
                t.extend(callee_info(cx, ldid, fty));
                t.push(("args", J::A(args.iter().map(|a| J::s(cx.short(&a.node))).collect())));
                let arg_tys: Vec<J> = args.iter().map(|a| J::s(cx.ty_str(a.node.ty(body, tcx)))).collect();
                t.push(("arg_tys", J::A(arg_tys)));
                t.push(("dest", J::s(cx.short(destination))));
                t.push(("target", match target { Some(b) => J::I(b.as_u32() as i128), None => J::Null }));
                t.push(("diverges", J::B(target.is_none())));
                t.push(("fn_sp", cx.span(*fn_span)));
                // fn items passed as arguments (edges for `.map(build_tag)`)
                for a in args.iter() {
                    refs.visit_operand(&a.node, Location { block: bb, statement_index: data.statements.len() });
                }
            }
            TerminatorKind::TailCall { func, args, fn_span } => {
                t.push(("k", J::s("TailCall")));
                let fty = func.ty(body, tcx);
                t.extend(callee_info(cx, ldid, fty));
                t.push(("args", J::A(args.iter().map(|a| J::s(cx.short(&a.node))).collect())));
                t.push(("fn_sp", cx.span(*fn_span)));
            }
            TerminatorKind::Assert { cond, expected, msg, target, .. } => {
                t.push(("k", J::s("Assert")));
                let (kind, mut all_const, operands) = assert_kind(cx, msg);
                if matches!(&**msg, AssertKind::DivisionByZero(_) | AssertKind::RemainderByZero(_)) {
                    // the message operand is the dividend; the assert is infeasible only when the *divisor* is a non-zero
                    // constant: `cond = Eq(divisor, const 0)` is the statement that defines the condition in this block
                    all_const = false;
                    if let Operand::Move(pl) | Operand::Copy(pl) = cond {
                        for st in data.statements.iter().rev() {
                            if let rustc_middle::mir::StatementKind::Assign(bx) = &st.kind {
                                let (lhs, rv) = &**bx;
                                if lhs == pl {
                                    if let rustc_middle::mir::Rvalue::BinaryOp(rustc_middle::mir::BinOp::Eq, ops) = rv {
                                        let (a, _b) = &**ops;
                                        all_const = operand_is_const(a) && !format!("{:?}", a).starts_with("const 0_");
                                    }
                                    break;
                                }
                            }
                        }
                    }
                }
                t.push(("assert", J::s(kind)));
                t.push(("all_const", J::B(all_const)));
                t.push(("operands", J::s(operands)));
                t.push(("cond", J::s(cx.short(cond))));
                t.push(("expected", J::B(*expected)));
                t.push(("target", J::I(target.as_u32() as i128)));
            }
            TerminatorKind::SwitchInt { discr, targets } => {
                t.push(("k", J::s("SwitchInt")));
                t.push(("discr", J::s(cx.short(discr))));
                t.push(("discr_ty", J::s(cx.ty_str(discr.ty(body, tcx)))));
                let vals: Vec<J> = targets
                    .iter()
                    .map(|(v, b)| J::A(vec![J::I(v as i128), J::I(b.as_u32() as i128)]))
                    .collect();
                t.push(("values", J::A(vals)));
                t.push(("otherwise", J::I(targets.otherwise().as_u32() as i128)));
            }
            TerminatorKind::Return => t.push(("k", J::s("Return"))),
            TerminatorKind::Goto { .. } => t.push(("k", J::s("Goto"))),
            TerminatorKind::Unreachable => t.push(("k", J::s("Unreachable"))),
            TerminatorKind::UnwindResume => t.push(("k", J::s("UnwindResume"))),
            TerminatorKind::UnwindTerminate(_) => t.push(("k", J::s("UnwindTerminate"))),
            TerminatorKind::Drop { place, .. } => {
                t.push(("k", J::s("Drop")));
                t.push(("place", J::s(cx.short(place))));
            }
            TerminatorKind::Yield { value, resume, .. } => {
                t.push(("k", J::s("Yield")));
                t.push(("value", J::s(cx.short(value))));
                t.push(("resume", J::I(resume.as_u32() as i128)));
            }
            TerminatorKind::FalseEdge { real_target, .. } => {
                t.push(("k", J::s("FalseEdge")));
                t.push(("real", J::I(real_target.as_u32() as i128)));
            }
            TerminatorKind::FalseUnwind { real_target, .. } => {
                t.push(("k", J::s("FalseUnwind")));
                t.push(("real", J::I(real_target.as_u32() as i128)));
            }
            TerminatorKind::CoroutineDrop => t.push(("k", J::s("CoroutineDrop"))),
            TerminatorKind::InlineAsm { .. } => t.push(("k", J::s("InlineAsm"))),
        }
        t.push(("succ", J::A(succ)));
        blocks.push(J::O(vec![
            ("bb", J::I(bb.as_u32() as i128)),
            ("cleanup", J::B(data.is_cleanup)),
            ("stmts", J::A(stmts)),
            ("refs", J::A(refs.out)),
            ("term", J::O(t)),
        ]));
    }
    // local decls with user-visible names (debug info) help diagnostics
    let mut locals = vec![];
    for vdi in body.var_debug_info.iter() {
        if let mir::VarDebugInfoContents::Place(p) = vdi.value {
            locals.push(J::A(vec![J::s(vdi.name.to_string()), J::s(cx.short(p))]));
        }
    }
    let local_tys: Vec<J> = body
        .local_decls
        .iter()
        .map(|d| J::s(cx.ty_str(d.ty)))
        .collect();
    let did = ldid.to_def_id();
    let kind = tcx.def_kind(did);
    let mut o = vec![
        ("path", J::s(cx.path(did))),
        ("kind", J::s(format!("{:?}", kind))),
        ("span", cx.span(tcx.def_span(did))),
        ("arg_count", J::I(body.arg_count as i128)),
        ("blocks", J::A(blocks)),
        ("locals", J::A(locals)),
        ("local_tys", J::A(local_tys)),
    ];
    if let DefKind::Closure = kind {
        o.push(("parent", J::s(cx.path(tcx.parent(did)))));
        o.push(("coroutine", J::B(tcx.is_coroutine(did))));
    }
    J::O(o)
}
