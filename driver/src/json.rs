//! Minimal JSON value + writer (no external crates are available offline for the driver).

pub enum J {
    Null,
    B(bool),
    I(i128),
    S(String),
    A(Vec<J>),
    O(Vec<(&'static str, J)>),
}

impl J {
    pub fn s<T: Into<String>>(t: T) -> J {
        J::S(t.into())
    }
    pub fn opt(o: Option<J>) -> J {
        o.unwrap_or(J::Null)
    }
    pub fn write(&self, out: &mut String) {
        match self {
            J::Null => out.push_str("null"),
            J::B(b) => out.push_str(if *b { "true" } else { "false" }),
            J::I(i) => out.push_str(&i.to_string()),
            J::S(s) => write_str(s, out),
            J::A(v) => {
                out.push('[');
                for (i, x) in v.iter().enumerate() {
                    if i > 0 {
                        out.push(',');
                    }
                    x.write(out);
                }
                out.push(']');
            }
            J::O(v) => {
                out.push('{');
                let mut first = true;
                for (k, x) in v.iter() {
                    if let J::Null = x {
                        continue;
                    }
                    if !first {
                        out.push(',');
                    }
                    first = false;
                    write_str(k, out);
                    out.push(':');
                    x.write(out);
                }
                out.push('}');
            }
        }
    }
}

fn write_str(s: &str, out: &mut String) {
    out.push('"');
    for c in s.chars() {
        match c {
            '"' => out.push_str("\\\""),
            '\\' => out.push_str("\\\\"),
            '\n' => out.push_str("\\n"),
            '\r' => out.push_str("\\r"),
            '\t' => out.push_str("\\t"),
            c if (c as u32) < 0x20 => out.push_str(&format!("\\u{:04x}", c as u32)),
            c => out.push(c),
        }
    }
    out.push('"');
}
