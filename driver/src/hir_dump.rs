//! Typed HIR layer: one expression tree per body owner, closures and async blocks inlined.

use crate::json::J;
use crate::Cx;
use rustc_hir as hir;
use rustc_hir::def::{DefKind, Res};
use rustc_hir::def_id::LocalDefId;
use rustc_hir::{ExprKind, PatKind, QPath, StmtKind};
use rustc_middle::ty::{self, TypeVisitableExt, TypeckResults};

fn hid(h: hir::HirId) -> String {
    format!("{}.{}", h.owner.def_id.local_def_index.as_u32(), h.local_id.as_u32())
}

pub fn dump_owner<'tcx>(cx: &Cx<'tcx>, ldid: LocalDefId) -> J {
    let tcx = cx.tcx;
    let body = tcx.hir_body_owned_by(ldid);
    let tr = tcx.typeck(ldid);
    let d = D { cx, tr };
    let params: Vec<J> = body.params.iter().map(|p| d.pat(p.pat)).collect();
    J::O(vec![
        ("path", J::s(cx.path(ldid.to_def_id()))),
        ("kind", J::s(format!("{:?}", tcx.def_kind(ldid)))),
        ("span", cx.span(tcx.def_span(ldid))),
        ("params", J::A(params)),
        ("body", d.expr(body.value)),
    ])
}

struct D<'a, 'tcx> {
    cx: &'a Cx<'tcx>,
    tr: &'tcx TypeckResults<'tcx>,
}

impl<'a, 'tcx> D<'a, 'tcx> {
    fn res(&self, res: Res) -> Vec<(&'static str, J)> {
        match res {
            Res::Local(h) => vec![("res", J::s("local")), ("bind", J::s(hid(h)))],
            Res::Def(kind, did) => {
                let mut v = vec![
                    ("res", J::s("def")),
                    ("defkind", J::s(format!("{:?}", kind))),
                    ("def", J::s(self.cx.path(did))),
                ];
                if let DefKind::Ctor(..) = kind {
                    // constructor -> its variant / struct
                    let parent = self.cx.tcx.parent(did);
                    v.push(("ctor_of", J::s(self.cx.path(parent))));
                }
                v
            }
            Res::SelfCtor(did) | Res::SelfTyAlias { alias_to: did, .. } => {
                vec![("res", J::s("selfty")), ("def", J::s(self.cx.path(did)))]
            }
            Res::SelfTyParam { .. } => vec![("res", J::s("selfparam"))],
            Res::PrimTy(p) => vec![("res", J::s("prim")), ("def", J::s(format!("{:?}", p)))],
            other => vec![("res", J::s(format!("{:?}", other)))],
        }
    }

    fn qpath(&self, q: &QPath<'tcx>, id: hir::HirId) -> Vec<(&'static str, J)> {
        let res = self.tr.qpath_res(q, id);
        let mut v = self.res(res);
        v.push(("text", J::s(self.cx.snippet(q.span()))));
        // name of the last segment
        let last = match q {
            QPath::Resolved(_, p) => p.segments.last().map(|s| s.ident.to_string()),
            QPath::TypeRelative(_, seg) => Some(seg.ident.to_string()),
        };
        if let Some(l) = last {
            v.push(("name", J::s(l)));
        }
        v
    }

    /// For a resolved callee def + generic args, try to resolve to the concrete impl item.
    fn resolve_inst(&self, did: rustc_hir::def_id::DefId, args: ty::GenericArgsRef<'tcx>) -> Option<String> {
        let tcx = self.cx.tcx;
        if !matches!(tcx.def_kind(did), DefKind::Fn | DefKind::AssocFn) {
            return None;
        }
        if args.has_non_region_infer() || args.len() != tcx.generics_of(did).count() {
            return None;
        }
        let owner = self.tr.hir_owner.def_id;
        let env = ty::TypingEnv::post_analysis(tcx, owner);
        match ty::Instance::try_resolve(tcx, env, did, args) {
            Ok(Some(inst)) => Some(self.cx.path(inst.def_id())),
            _ => None,
        }
    }

    fn lit(&self, l: &hir::Lit) -> Vec<(&'static str, J)> {
        use rustc_ast::LitKind;
        match &l.node {
            LitKind::Str(s, _) => vec![("lit", J::s("str")), ("v", J::s(s.to_string()))],
            LitKind::ByteStr(b, _) => vec![
                ("lit", J::s("bytes")),
                ("v", J::A(b.as_byte_str().iter().map(|x| J::I(*x as i128)).collect())),
            ],
            LitKind::CStr(b, _) => vec![
                ("lit", J::s("cstr")),
                ("v", J::A(b.as_byte_str().iter().map(|x| J::I(*x as i128)).collect())),
            ],
            LitKind::Byte(b) => vec![("lit", J::s("byte")), ("v", J::I(*b as i128))],
            LitKind::Char(c) => vec![("lit", J::s("char")), ("v", J::s(c.to_string()))],
            LitKind::Int(n, _) => vec![("lit", J::s("int")), ("v", J::I(n.get() as i128))],
            LitKind::Float(s, _) => vec![("lit", J::s("float")), ("v", J::s(s.to_string()))],
            LitKind::Bool(b) => vec![("lit", J::s("bool")), ("v", J::B(*b))],
            LitKind::Err(_) => vec![("lit", J::s("err"))],
        }
    }

    fn base(&self, k: &'static str, e: &hir::Expr<'tcx>) -> Vec<(&'static str, J)> {
        let ty = self.tr.expr_ty_opt(e);
        let mut v = vec![
            ("k", J::s(k)),
            ("id", J::s(hid(e.hir_id))),
            ("sp", self.cx.span(e.span)),
        ];
        if let Some(t) = ty {
            v.push(("ty", J::s(self.cx.ty_str(t))));
        }
        let adj = self.tr.expr_adjustments(e);
        if !adj.is_empty() {
            if let Some(last) = adj.last() {
                v.push(("adj_ty", J::s(self.cx.ty_str(last.target))));
            }
            // overloaded deref adjustments are calls (may matter for cone analysis)
            let n = adj
                .iter()
                .filter(|a| matches!(a.kind, ty::adjustment::Adjust::Deref(ty::adjustment::DerefAdjustKind::Overloaded(_))))
                .count();
            if n > 0 {
                v.push(("adj_overloaded_deref", J::I(n as i128)));
            }
        }
        v
    }

    fn exprs(&self, es: &[hir::Expr<'tcx>]) -> J {
        J::A(es.iter().map(|e| self.expr(e)).collect())
    }

    fn block(&self, b: &hir::Block<'tcx>) -> J {
        let mut stmts = vec![];
        for s in b.stmts {
            match s.kind {
                StmtKind::Let(l) => {
                    stmts.push(J::O(vec![
                        ("k", J::s("Let")),
                        ("sp", self.cx.span(s.span)),
                        ("pat", self.pat(l.pat)),
                        ("init", J::opt(l.init.map(|e| self.expr(e)))),
                        ("els", J::opt(l.els.map(|b| self.block(b)))),
                        ("src", J::s(format!("{:?}", l.source))),
                    ]));
                }
                StmtKind::Item(_) => {
                    stmts.push(J::O(vec![("k", J::s("Item")), ("sp", self.cx.span(s.span))]));
                }
                StmtKind::Expr(e) => {
                    stmts.push(J::O(vec![("k", J::s("Expr")), ("e", self.expr(e))]));
                }
                StmtKind::Semi(e) => {
                    stmts.push(J::O(vec![("k", J::s("Semi")), ("e", self.expr(e))]));
                }
            }
        }
        J::O(vec![
            ("k", J::s("Block")),
            ("sp", self.cx.span(b.span)),
            ("stmts", J::A(stmts)),
            ("expr", J::opt(b.expr.map(|e| self.expr(e)))),
        ])
    }

    pub fn expr(&self, e: &hir::Expr<'tcx>) -> J {
        let tcx = self.cx.tcx;
        match e.kind {
            ExprKind::Array(es) => {
                let mut v = self.base("Array", e);
                v.push(("elems", self.exprs(es)));
                J::O(v)
            }
            ExprKind::Call(f, args) => {
                let mut v = self.base("Call", e);
                v.push(("f", self.expr(f)));
                v.push(("args", self.exprs(args)));
                // resolved callee if `f` is a path to a fn
                if let ExprKind::Path(ref q) = f.kind {
                    if let Res::Def(_, did) = self.tr.qpath_res(q, f.hir_id) {
                        let args = self.tr.node_args(f.hir_id);
                        v.push(("callee", J::s(self.cx.path(did))));
                        if let Some(r) = self.resolve_inst(did, args) {
                            v.push(("inst", J::s(r)));
                        }
                        v.push(("targs", J::s(self.cx.ty_str(args.print_as_list()))));
                    }
                }
                J::O(v)
            }
            ExprKind::MethodCall(seg, recv, args, _) => {
                let mut v = self.base("MethodCall", e);
                v.push(("name", J::s(seg.ident.to_string())));
                v.push(("recv", self.expr(recv)));
                v.push(("args", self.exprs(args)));
                if let Some(did) = self.tr.type_dependent_def_id(e.hir_id) {
                    let args = self.tr.node_args(e.hir_id);
                    v.push(("callee", J::s(self.cx.path(did))));
                    if let Some(r) = self.resolve_inst(did, args) {
                        v.push(("inst", J::s(r)));
                    }
                    v.push(("targs", J::s(self.cx.ty_str(args.print_as_list()))));
                }
                J::O(v)
            }
            ExprKind::Use(x, _) => {
                let mut v = self.base("Use", e);
                v.push(("e", self.expr(x)));
                J::O(v)
            }
            ExprKind::Tup(es) => {
                let mut v = self.base("Tup", e);
                v.push(("elems", self.exprs(es)));
                J::O(v)
            }
            ExprKind::Binary(op, a, b) => {
                let mut v = self.base("Binary", e);
                v.push(("op", J::s(format!("{:?}", op.node))));
                v.push(("l", self.expr(a)));
                v.push(("r", self.expr(b)));
                if let Some(did) = self.tr.type_dependent_def_id(e.hir_id) {
                    v.push(("callee", J::s(self.cx.path(did))));
                }
                J::O(v)
            }
            ExprKind::Unary(op, a) => {
                let mut v = self.base("Unary", e);
                v.push(("op", J::s(format!("{:?}", op))));
                v.push(("e", self.expr(a)));
                if let Some(did) = self.tr.type_dependent_def_id(e.hir_id) {
                    v.push(("callee", J::s(self.cx.path(did))));
                }
                J::O(v)
            }
            ExprKind::Lit(l) => {
                let mut v = self.base("Lit", e);
                v.extend(self.lit(&l));
                J::O(v)
            }
            ExprKind::Cast(x, _t) => {
                let mut v = self.base("Cast", e);
                v.push(("e", self.expr(x)));
                J::O(v)
            }
            ExprKind::Type(x, _t) => {
                let mut v = self.base("TypeAscr", e);
                v.push(("e", self.expr(x)));
                J::O(v)
            }
            ExprKind::DropTemps(x) => {
                let mut v = self.base("DropTemps", e);
                v.push(("e", self.expr(x)));
                J::O(v)
            }
            ExprKind::Let(l) => {
                let mut v = self.base("LetExpr", e);
                v.push(("pat", self.pat(l.pat)));
                v.push(("init", self.expr(l.init)));
                J::O(v)
            }
            ExprKind::If(c, t, f) => {
                let mut v = self.base("If", e);
                v.push(("cond", self.expr(c)));
                v.push(("then", self.expr(t)));
                v.push(("els", J::opt(f.map(|x| self.expr(x)))));
                J::O(v)
            }
            ExprKind::Loop(b, label, src, _) => {
                let mut v = self.base("Loop", e);
                v.push(("src", J::s(format!("{:?}", src))));
                if let Some(l) = label {
                    v.push(("label", J::s(l.ident.to_string())));
                }
                v.push(("body", self.block(b)));
                J::O(v)
            }
            ExprKind::Match(s, arms, src) => {
                let mut v = self.base("Match", e);
                v.push(("src", J::s(format!("{:?}", src))));
                v.push(("scrut", self.expr(s)));
                let arms: Vec<J> = arms
                    .iter()
                    .map(|a| {
                        J::O(vec![
                            ("sp", self.cx.span(a.span)),
                            ("pat", self.pat(a.pat)),
                            ("guard", J::opt(a.guard.map(|g| self.expr(g)))),
                            ("body", self.expr(a.body)),
                        ])
                    })
                    .collect();
                v.push(("arms", J::A(arms)));
                J::O(v)
            }
            ExprKind::Closure(c) => {
                let mut v = self.base("Closure", e);
                v.push(("closure_kind", J::s(format!("{:?}", c.kind))));
                v.push(("capture", J::s(format!("{:?}", c.capture_clause))));
                v.push(("def", J::s(self.cx.path(c.def_id.to_def_id()))));
                let body = tcx.hir_body(c.body);
                let params: Vec<J> = body.params.iter().map(|p| self.pat(p.pat)).collect();
                v.push(("params", J::A(params)));
                v.push(("body", self.expr(body.value)));
                J::O(v)
            }
            ExprKind::Block(b, label) => {
                let mut v = self.base("BlockExpr", e);
                if let Some(l) = label {
                    v.push(("label", J::s(l.ident.to_string())));
                }
                v.push(("rules", J::s(format!("{:?}", b.rules))));
                v.push(("block", self.block(b)));
                J::O(v)
            }
            ExprKind::Assign(l, r, _) => {
                let mut v = self.base("Assign", e);
                v.push(("l", self.expr(l)));
                v.push(("r", self.expr(r)));
                J::O(v)
            }
            ExprKind::AssignOp(op, l, r) => {
                let mut v = self.base("AssignOp", e);
                v.push(("op", J::s(format!("{:?}", op.node))));
                v.push(("l", self.expr(l)));
                v.push(("r", self.expr(r)));
                if let Some(did) = self.tr.type_dependent_def_id(e.hir_id) {
                    v.push(("callee", J::s(self.cx.path(did))));
                }
                J::O(v)
            }
            ExprKind::Field(b, ident) => {
                let mut v = self.base("Field", e);
                v.push(("name", J::s(ident.to_string())));
                v.push(("e", self.expr(b)));
                J::O(v)
            }
            ExprKind::Index(b, i, _) => {
                let mut v = self.base("Index", e);
                v.push(("e", self.expr(b)));
                v.push(("idx", self.expr(i)));
                if let Some(did) = self.tr.type_dependent_def_id(e.hir_id) {
                    v.push(("callee", J::s(self.cx.path(did))));
                }
                J::O(v)
            }
            ExprKind::Path(ref q) => {
                let mut v = self.base("Path", e);
                v.extend(self.qpath(q, e.hir_id));
                if let Res::Def(_, did) = self.tr.qpath_res(q, e.hir_id) {
                    let args = self.tr.node_args(e.hir_id);
                    if let Some(r) = self.resolve_inst(did, args) {
                        v.push(("inst", J::s(r)));
                    }
                }
                J::O(v)
            }
            ExprKind::AddrOf(_, m, x) => {
                let mut v = self.base("AddrOf", e);
                v.push(("mut", J::B(m.is_mut())));
                v.push(("e", self.expr(x)));
                J::O(v)
            }
            ExprKind::Break(dest, x) => {
                let mut v = self.base("Break", e);
                if let Some(l) = dest.label {
                    v.push(("label", J::s(l.ident.to_string())));
                }
                if let Ok(t) = dest.target_id {
                    v.push(("target", J::s(hid(t))));
                }
                v.push(("e", J::opt(x.map(|x| self.expr(x)))));
                J::O(v)
            }
            ExprKind::Continue(dest) => {
                let mut v = self.base("Continue", e);
                if let Some(l) = dest.label {
                    v.push(("label", J::s(l.ident.to_string())));
                }
                if let Ok(t) = dest.target_id {
                    v.push(("target", J::s(hid(t))));
                }
                J::O(v)
            }
            ExprKind::Ret(x) => {
                let mut v = self.base("Ret", e);
                v.push(("e", J::opt(x.map(|x| self.expr(x)))));
                J::O(v)
            }
            ExprKind::Struct(q, fields, tail) => {
                let mut v = self.base("Struct", e);
                v.extend(self.qpath(q, e.hir_id));
                let fs: Vec<J> = fields
                    .iter()
                    .map(|f| {
                        J::O(vec![
                            ("name", J::s(f.ident.to_string())),
                            ("e", self.expr(f.expr)),
                        ])
                    })
                    .collect();
                v.push(("fields", J::A(fs)));
                match tail {
                    hir::StructTailExpr::Base(b) => v.push(("base", self.expr(b))),
                    hir::StructTailExpr::None => {}
                    _ => v.push(("base", J::O(vec![("k", J::s("DefaultFields"))]))),
                }
                J::O(v)
            }
            ExprKind::Repeat(x, _) => {
                let mut v = self.base("Repeat", e);
                v.push(("e", self.expr(x)));
                J::O(v)
            }
            ExprKind::Yield(x, src) => {
                let mut v = self.base("Yield", e);
                v.push(("src", J::s(format!("{:?}", src))));
                v.push(("e", self.expr(x)));
                J::O(v)
            }
            ExprKind::Become(x) => {
                let mut v = self.base("Become", e);
                v.push(("e", self.expr(x)));
                J::O(v)
            }
            ExprKind::ConstBlock(_) => J::O(self.base("ConstBlock", e)),
            _ => {
                let mut v = self.base("Other", e);
                v.push(("text", J::s(self.cx.snippet(e.span))));
                J::O(v)
            }
        }
    }

    fn pat_expr(&self, pe: &hir::PatExpr<'tcx>) -> J {
        match &pe.kind {
            hir::PatExprKind::Lit { lit, negated } => {
                let mut v = vec![("k", J::s("PLit")), ("neg", J::B(*negated))];
                v.extend(self.lit(lit));
                J::O(v)
            }
            hir::PatExprKind::Path(q) => {
                let mut v = vec![("k", J::s("PPath"))];
                v.extend(self.qpath(q, pe.hir_id));
                J::O(v)
            }
        }
    }

    pub fn pat(&self, p: &hir::Pat<'tcx>) -> J {
        let mut v: Vec<(&'static str, J)> = vec![
            ("id", J::s(hid(p.hir_id))),
            ("sp", self.cx.span(p.span)),
        ];
        if let Some(t) = self.tr.node_type_opt(p.hir_id) {
            v.push(("ty", J::s(self.cx.ty_str(t))));
        }
        match p.kind {
            PatKind::Wild => v.push(("k", J::s("Wild"))),
            PatKind::Missing => v.push(("k", J::s("Missing"))),
            PatKind::Binding(mode, id, ident, sub) => {
                v.push(("k", J::s("Bind")));
                v.push(("bind", J::s(hid(id))));
                v.push(("name", J::s(ident.to_string())));
                v.push(("mode", J::s(format!("{:?}", mode))));
                if let Some(s) = sub {
                    v.push(("sub", self.pat(s)));
                }
            }
            PatKind::Struct(ref q, fields, rest) => {
                v.push(("k", J::s("PStruct")));
                v.extend(self.qpath(q, p.hir_id));
                let fs: Vec<J> = fields
                    .iter()
                    .map(|f| {
                        J::O(vec![
                            ("name", J::s(f.ident.to_string())),
                            ("pat", self.pat(f.pat)),
                        ])
                    })
                    .collect();
                v.push(("fields", J::A(fs)));
                v.push(("rest", J::B(rest.is_some())));
            }
            PatKind::TupleStruct(ref q, pats, ddpos) => {
                v.push(("k", J::s("PTupleStruct")));
                v.extend(self.qpath(q, p.hir_id));
                v.push(("pats", J::A(pats.iter().map(|x| self.pat(x)).collect())));
                if let Some(pos) = ddpos.as_opt_usize() {
                    v.push(("ddpos", J::I(pos as i128)));
                }
            }
            PatKind::Or(pats) => {
                v.push(("k", J::s("POr")));
                v.push(("pats", J::A(pats.iter().map(|x| self.pat(x)).collect())));
            }
            PatKind::Tuple(pats, ddpos) => {
                v.push(("k", J::s("PTuple")));
                v.push(("pats", J::A(pats.iter().map(|x| self.pat(x)).collect())));
                if let Some(pos) = ddpos.as_opt_usize() {
                    v.push(("ddpos", J::I(pos as i128)));
                }
            }
            PatKind::Box(x) => {
                v.push(("k", J::s("PBox")));
                v.push(("pat", self.pat(x)));
            }
            PatKind::Deref(x) => {
                v.push(("k", J::s("PDeref")));
                v.push(("pat", self.pat(x)));
            }
            PatKind::Ref(x, ..) => {
                v.push(("k", J::s("PRef")));
                v.push(("pat", self.pat(x)));
            }
            PatKind::Expr(pe) => {
                v.push(("k", J::s("PExpr")));
                v.push(("e", self.pat_expr(pe)));
            }
            PatKind::Guard(x, g) => {
                v.push(("k", J::s("PGuard")));
                v.push(("pat", self.pat(x)));
                v.push(("guard", self.expr(g)));
            }
            PatKind::Range(lo, hi, end) => {
                v.push(("k", J::s("PRange")));
                v.push(("lo", J::opt(lo.map(|x| self.pat_expr(x)))));
                v.push(("hi", J::opt(hi.map(|x| self.pat_expr(x)))));
                v.push(("end", J::s(format!("{:?}", end))));
            }
            PatKind::Slice(a, m, b) => {
                v.push(("k", J::s("PSlice")));
                v.push(("before", J::A(a.iter().map(|x| self.pat(x)).collect())));
                v.push(("mid", J::opt(m.map(|x| self.pat(x)))));
                v.push(("after", J::A(b.iter().map(|x| self.pat(x)).collect())));
            }
            _ => {
                v.push(("k", J::s("POtherPat")));
                v.push(("text", J::s(self.cx.snippet(p.span))));
            }
        }
        J::O(v)
    }
}
