#!/bin/bash
# Builds the fact-extracting driver and pre-builds /repo's dependencies for the analysed
# feature configurations into /verif/.work (offline; nothing is fetched).
set -e
cd "$(dirname "$0")"
export CARGO_NET_OFFLINE=true
mkdir -p .work evidence
( cd driver && cargo build --offline 2>&1 | tail -3 )
test -x driver/target/debug/ldap3-facts
CFGS="${VERIF_SETUP_CONFIGS:-default nodefault rustls gssapi}"
for cfg in $CFGS; do
  python3 - "$cfg" <<'PY'
import sys, os
sys.path.insert(0, os.path.join(os.getcwd(), 'rules'))
import engine
cfg = sys.argv[1]
try:
    files, info = engine.extract_facts(cfg)
    print('setup: configuration %s ready (%s)' % (cfg, info))
except engine.BuildError as e:
    print('setup: configuration %s FAILED to build:\n%s' % (cfg, e))
    if cfg == 'default':
        sys.exit(1)
PY
done
python3 - <<'PY'
import sys, os
sys.path.insert(0, os.path.join(os.getcwd(), 'rules'))
import engine
try:
    engine.extract_fixture_facts()
    print('setup: positive-control crate analysed')
    r, info = engine.run_witnesses()
    print('setup: witness crate ready (%d witnesses, %s)' % (len(r), info))
except Exception as e:
    print('setup: witness crate FAILED (thorough tier only): %s' % str(e)[:500])
PY
echo "setup: done"
