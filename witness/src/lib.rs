//! E3 - compile-fail witnesses (type-level remainder of the static checks).
//!
//! Each `compile_fail,E0xxx` test shows that a program *outside the crate* which would break an encapsulation the rules lean on
//! does not type-check, with the exact error code; each is paired with a compiling twin (`no_run`: compiled, never executed) that
//! differs only by the offending line, so that a witness cannot pass merely because its path or setup is wrong.
//! Run by `./check <id> --thorough` through `cargo +nightly test --doc` (the stable toolchain ignores the error code).

/// C05/C01: message IDs are handed out by `Ldap::next_msgid` only, and only the crate can call it.
/// ```compile_fail,E0624
/// fn f(l: &mut ldap3::Ldap) { let _ = l.next_msgid(); }
/// ```
/// twin:
/// ```no_run
/// fn f(l: &mut ldap3::Ldap) { let _ = l.last_id(); }
/// ```
pub struct W01NextMsgidIsPrivate;

/// C05/C01/C12: the issue point `Ldap::op_call` (allocation, registration, timeout, scrub) cannot be entered from outside.
/// ```compile_fail,E0624
/// fn f(l: &mut ldap3::Ldap, t: ldap3::asn1::Tag) { let _ = l.op_call(todo!(), t); }
/// ```
/// twin:
/// ```no_run
/// fn f(l: &mut ldap3::Ldap) { let _ = l.is_closed(); }
/// ```
pub struct W02OpCallIsPrivate;

/// C05: the table of IDs in use is not reachable from outside the crate.
/// ```compile_fail,E0616
/// fn f(l: &mut ldap3::Ldap) { let _ = &l.msgmap; }
/// ```
/// twin:
/// ```no_run
/// fn f(l: &mut ldap3::Ldap) { let _ = &l.timeout; }
/// ```
pub struct W03MsgmapIsPrivate;

/// C04/C01: the request channel to the driver is not reachable from outside (nobody else can hold or forge reply senders).
/// ```compile_fail,E0616
/// fn f(l: &mut ldap3::Ldap) { let _ = &l.tx; }
/// ```
/// twin:
/// ```no_run
/// fn f(l: &mut ldap3::Ldap) { let _ = &l.controls; }
/// ```
pub struct W04RequestChannelIsPrivate;

/// C12/C13: the ID-scrub channel is not reachable from outside.
/// ```compile_fail,E0616
/// fn f(l: &mut ldap3::Ldap) { let _ = &l.id_scrub_tx; }
/// ```
/// twin:
/// ```no_run
/// fn f(l: &mut ldap3::Ldap) { let _ = &l.search_opts; }
/// ```
pub struct W05ScrubChannelIsPrivate;

/// C01/C13: the driver's routing maps are private to `conn.rs`.
/// ```compile_fail,E0616
/// fn f(c: &mut ldap3::LdapConnAsync) { let _ = &c.resultmap; }
/// ```
/// ```compile_fail,E0616
/// fn f(c: &mut ldap3::LdapConnAsync) { let _ = &c.searchmap; }
/// ```
/// twin:
/// ```no_run
/// fn f(c: ldap3::LdapConnAsync) { let _ = c.drive(); }
/// ```
pub struct W06RoutingMapsArePrivate;

/// C10: the state of a search stream can be read but not written from outside the crate.
/// ```compile_fail,E0616
/// fn f(s: &mut ldap3::SearchStream<'static, &'static str, Vec<&'static str>>) { s.state = ldap3::StreamState::Active; }
/// ```
/// twin:
/// ```no_run
/// fn f(s: &mut ldap3::SearchStream<'static, &'static str, Vec<&'static str>>) { let _ = s.state(); }
/// ```
pub struct W07StreamStateIsPrivate;

/// C10/C04: the item receiver of a stream cannot be taken or replaced from outside.
/// ```compile_fail,E0616
/// fn f(s: &mut ldap3::SearchStream<'static, &'static str, Vec<&'static str>>) { let _ = s.rx.take(); }
/// ```
/// twin:
/// ```no_run
/// fn f(s: &mut ldap3::SearchStream<'static, &'static str, Vec<&'static str>>) { let _ = s.res.take(); }
/// ```
pub struct W08StreamReceiverIsPrivate;

/// C10: the inner stepping functions (which skip the state guard of the public shims) are not callable from outside.
/// ```compile_fail,E0624
/// async fn f(s: &mut ldap3::SearchStream<'static, &'static str, Vec<&'static str>>) { let _ = s.next_inner().await; }
/// ```
/// twin:
/// ```no_run
/// async fn f(s: &mut ldap3::SearchStream<'static, &'static str, Vec<&'static str>>) { let _ = s.next().await; }
/// ```
pub struct W09InnerSteppingIsPrivate;

/// C14: the handle inside the synchronous connection is private: every synchronous operation goes through the wrappers.
/// ```compile_fail,E0616
/// fn f(c: &mut ldap3::LdapConn) { let _ = &c.ldap; }
/// ```
/// twin:
/// ```no_run
/// fn f(c: &mut ldap3::LdapConn) { let _ = c.is_closed(); }
/// ```
pub struct W10SyncHandleIsPrivate;
