//! Positive controls for the rules whose expected count on inejge/ldap3 is zero (or whose engine would pass vacuously if it went
//! blind): this crate is analysed by the same driver and the same queries on every run, and each construct below MUST be found.
//! Nothing here is ever executed.
#![allow(dead_code, unconditional_recursion, clippy::all)]

use std::mem::ManuallyDrop;

pub struct Holder {
    pub guarded: Vec<u32>,
    counter: u32,
}

// ---- leak primitives (C04 L1)
pub fn leak_forget(v: Vec<u8>) {
    std::mem::forget(v);
}
pub fn leak_manually_drop(v: Vec<u8>) -> ManuallyDrop<Vec<u8>> {
    ManuallyDrop::new(v)
}
pub fn leak_box(v: Vec<u8>) -> &'static mut Vec<u8> {
    Box::leak(Box::new(v))
}

// ---- panic sources, one of each kind (C11 H1, C08 P6, C18 U1)
pub fn entry(input: &[u8], n: u32, h: &dyn Shape) -> u32 {
    let a = src_diverging(n);
    let b = src_unwrap(input.first().copied());
    let c = src_index(input);
    let d = src_overflow(n);
    let e = src_div(n);
    let f = src_slice(input);
    let g = input.iter().map(|x| src_in_closure(*x)).sum::<u32>();
    let i = h.area();
    let j = src_expect(Err(()));
    a + b + c + d + e + f + g + i + j + recurse_unbounded(input) + recurse_bounded(input, 0) + unimpl(n)
}
fn src_diverging(n: u32) -> u32 {
    if n == 7 {
        panic!("fixture: diverging call");
    }
    n
}
fn unimpl(n: u32) -> u32 {
    if n == 9 {
        unimplemented!()
    }
    n
}
fn src_unwrap(o: Option<u8>) -> u32 {
    o.unwrap() as u32
}
fn src_expect(r: Result<u32, ()>) -> u32 {
    r.expect("fixture: expect")
}
fn src_index(v: &[u8]) -> u32 {
    v[3] as u32
}
fn src_overflow(n: u32) -> u32 {
    n + 1
}
fn src_div(n: u32) -> u32 {
    100 / n
}
// a division by a non-zero literal cannot trap and must not be reported
pub fn div_by_literal(n: u32) -> u32 {
    n / 8 + n % 3
}
fn src_slice(v: &[u8]) -> u32 {
    v[1..].len() as u32
}
fn src_in_closure(x: u8) -> u32 {
    [1u32, 2, 3][x as usize]
}
pub trait Shape {
    fn area(&self) -> u32;
}
pub struct Sq(pub u32);
impl Shape for Sq {
    fn area(&self) -> u32 {
        self.0 * self.0
    }
}
// a guarded subtraction that the discharge rule must accept, next to an unguarded one it must not
pub fn guarded_sub(len: u32) -> u32 {
    if len < 128 {
        return 0;
    }
    len - 128
}
pub fn unguarded_sub(len: u32) -> u32 {
    len - 128
}
// additions whose operands are bounded by construction (a masked value, a narrow source type, the length of a slice of bytes in
// memory) must be discharged; with an operand that is only known to be a usize, or the length of a slice of zero-sized elements
// (which has no such bound), they must not
pub fn bounded_add(x: u8, s: &[u8]) -> (usize, usize, usize) {
    let n = (x & 0x7f) as usize;
    (2 + n, 2 + s.len(), x as usize + 300)
}
pub fn unbounded_add(n: usize, units: &[()]) -> (usize, usize) {
    (n + 2, units.len() + 2)
}

// ---- recursion (C11 H2)
pub fn recurse_unbounded(v: &[u8]) -> u32 {
    if v.is_empty() {
        0
    } else {
        1 + recurse_unbounded(&v[1..])
    }
}
const MAX_DEPTH: usize = 16;
pub fn recurse_bounded(v: &[u8], depth: usize) -> u32 {
    if depth > MAX_DEPTH {
        return 0;
    }
    if v.is_empty() {
        0
    } else {
        1 + recurse_bounded(&v[1..], depth + 1)
    }
}

// ---- who-may-touch (F10): one owner, one intruder
impl Holder {
    pub fn owner_write(&mut self) {
        self.counter = 1;
        self.guarded.push(1);
    }
}
pub fn intruder_write(h: &mut Holder) {
    h.counter = 2;
    h.guarded.clear();
}
