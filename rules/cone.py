"""F1 / F1r: panic-source cone and recursion over the MIR call graph (DESIGN.md section 4)."""
import os, re, collections, copy
from facts import AnchorMissing

# External callees that may panic although std does not mark them #[track_caller], and callees marked
# #[track_caller] that were reviewed as not panicking for any argument the cone can pass.  Frozen, explicit.
# matched by suffix of the resolved callee path
MAY_PANIC_EXTRA = {
    'Buf>::advance': 'panics when cnt > remaining',
    'Buf::advance': 'panics when cnt > remaining',
    'BytesMut::split_to': 'panics when at > len',
    'BytesMut::split_off': 'panics when at > capacity',
    'BytesMut::reserve': 'panics on capacity overflow (and the process aborts when the allocation fails): the amount must be bounded',
    'BytesMut::with_capacity': 'panics on capacity overflow: the amount must be bounded',
    'BytesMut::resize': 'panics on capacity overflow: the amount must be bounded',
    'Runtime::block_on': 'panics inside a runtime',
    'tokio::task::spawn::spawn': 'panics outside a runtime',
}
NO_PANIC_REVIEWED = {
    # #[track_caller] only to capture a Location / improve messages; no argument-dependent panic
    'log::__private_api::loc': 'captures the caller Location for the log record',
    'core::convert::Into::into': 'blanket impl forwarding to From::from, which is followed as an edge (via_from)',
    'core::option::Option::<T>::unwrap_or_else': 'panics only if the closure does; the closure body is a node of the cone in its own right',
    'core::result::Result::<T, E>::unwrap_or_else': 'panics only if the closure does; the closure body is a node of the cone in its own right',
    'core::option::Option::<T>::map_or_else': 'panics only if a closure does; the closure bodies are nodes of the cone',
    'core::option::Option::<T>::get_or_insert_with': 'panics only if the closure does; the closure body is a node of the cone',
    'core::ops::try_trait::FromResidual::from_residual': 'the `?` operator: #[track_caller] only for error provenance; converts the error with From (thiserror-generated impls here)',
}
ASSERT_IGNORED = ('ResumedAfterReturn', 'ResumedAfterPanic', 'ResumedAfterDrop',
                  'MisalignedPointerDereference', 'NullPointerDereference', 'InvalidEnumConstruction')

USER_PANIC_MACROS = ('panic', 'panic_2021', 'panic_2015', 'assert', 'assert_eq', 'assert_ne', 'debug_assert', 'debug_assert_eq', 'debug_assert_ne',
                     'unimplemented', 'unreachable', 'todo', 'unreachable_2021')

class Source:
    def __init__(self, fn, kind, callee, label, loc, macro):
        self.fn, self.kind, self.callee, self.label, self.loc, self.macro = fn, kind, callee, label, loc, macro
        self.key_fn = fn          # the function the key names (the baseline ancestor for code moved into a new helper)
        self.discharged = None    # reason, when a discharge rule decides the source cannot fire
        self.relabel = None       # subst -> label, for a source inside a new helper: its text with the helper's parameters bound at a call site
    @property
    def key(self):
        return '%s | %s | %s | %s' % (self.key_fn, self.kind, self.callee, self.label)

class Graph:
    def __init__(self, facts, repo):
        self.facts = facts
        self.repo = repo
        self.mir = facts.mir
        self._src = {}
        self._names = {}
        self._bodies = {}
        # trait method -> local impl bodies
        self.trait_impls = collections.defaultdict(list)
        for it in facts.items_all:
            if it.get('kind') == 'AssocFn' and it.get('impl_trait_def'):
                name = it['path'].rsplit('::', 1)[-1]
                self.trait_impls[(it['impl_trait_def'], name)].append(it['path'])
        self.edges = {}
        self.ext = {}
        for path, m in self.mir.items():
            self.edges[path], self.ext[path] = self._scan(m)

    # -------------------------------------------------------------- source text
    def local_names(self, body_path):
        """Names of the local variables / parameters of the HIR owner of a MIR body (closures and coroutine
        bodies live inside their enclosing fn's HIR).  Used to alpha-normalise labels: a key must not change
        when a local is renamed."""
        if body_path in self._names:
            return self._names[body_path]
        owner = body_path
        hir_all = getattr(self.facts, 'hir_all', self.facts.hir)
        while owner not in self.facts.hir and owner not in hir_all and '::{' in owner:
            owner = owner.rsplit('::{', 1)[0]
        names = set()
        h = self.facts.hir.get(owner) or hir_all.get(owner)      # a new helper expanded into its callers is no body of `hir`, but its locals are still locals
        if h is not None:
            def pats(x):
                if isinstance(x, dict):
                    if x.get('k') == 'Bind' and x.get('name'):
                        names.add(x['name'])
                    for v in x.values():
                        pats(v)
                elif isinstance(x, list):
                    for v in x:
                        pats(v)
            pats(h['params'])
            pats(h['body'])
        names.discard('self')
        self._names[body_path] = names
        return names

    def label(self, body_path, sp, limit=90, subst=None):
        """Source text of the construct with every local variable name replaced by `_` (field names, method
        names, paths, macro names and literals are kept), whitespace removed.  `subst` (name -> literal text) binds
        parameters of a new helper to the literal arguments of one call site: the label is then the one the construct
        has with the helper expanded at that site."""
        t = self.snippet(sp, limit=400, squeeze=False)
        names = self.local_names(body_path)
        subst = subst or {}
        filled = []
        if names:
            # string literals are left alone
            parts = re.split(r'("(?:[^"\\]|\\.)*")', t)
            out = []
            for i, part in enumerate(parts):
                if i % 2 == 1:
                    out.append(part)
                else:
                    tt = part
                    def rep2(m, tt=tt):
                        w = m.group(0)
                        if w not in names:
                            return w
                        before = tt[:m.start()].rstrip()
                        after = tt[m.end():].lstrip()
                        if before.endswith('.') and not before.endswith('..'):
                            return w
                        if before.endswith('::') or after.startswith('::') or after.startswith('!'):
                            return w
                        if w in subst:
                            filled.append(subst[w])
                            return '\x00%d\x00' % (len(filled) - 1)
                        return '_'
                    part2 = re.sub(r'\b[A-Za-z_][A-Za-z0-9_]*\b', rep2, part)
                    out.append(re.sub(r"(?<![\w'.])(0[xX][0-9a-fA-F_]+|0[bB][01_]+|0[oO][0-7_]+|[0-9][0-9_]*)((?:[iu](?:8|16|32|64|128|size))?)\b", norm_int, part2))
            t = ''.join(out)
            t = re.sub('\x00(\\d+)\x00', lambda m: filled[int(m.group(1))], t)
        t = re.sub(r'\s+', '', t)
        return t[:limit]

    def snippet(self, sp, limit=90, squeeze=True):
        if not sp or sp[1] is None:
            return ''
        fn = sp[0]
        p = fn if os.path.isabs(fn) else os.path.join(self.repo, fn)
        if p not in self._src:
            try:
                with open(p, encoding='utf-8', errors='replace') as f:
                    self._src[p] = f.read().split('\n')
            except OSError:
                self._src[p] = None
        lines = self._src[p]
        if lines is None:
            return ''
        l1, c1, l2, c2 = sp[1], sp[2], sp[3], sp[4]
        if l1 == l2:
            t = lines[l1 - 1][c1 - 1:c2 - 1]
        else:
            t = lines[l1 - 1][c1 - 1:] + ' ' + ' '.join(lines[l1:l2 - 1]) + ' ' + lines[l2 - 1][:c2 - 1]
        if squeeze:
            t = re.sub(r'\s+', '', t)
        return t[:limit]

    # -------------------------------------------------------------- per-body scan
    def _targets(self, t):
        """local bodies a call terminator / fn reference may enter"""
        outs = []
        c = t.get('inst') or t.get('callee')
        if c in self.mir:
            outs.append(c)
        if (t.get('unresolved') or t.get('virtual')) and t.get('trait'):
            name = (t.get('callee') or '').rsplit('::', 1)[-1]
            outs.extend(self.trait_impls.get((t['trait'], name), []))
        return outs

    def _scan(self, m):
        edges = []   # (target, block index, span)
        ext = []     # (callee, term, block index)
        for b in m['blocks']:
            if b.get('cleanup'):
                continue
            t = b['term']
            for r in b.get('refs', []):
                for tg in self._targets(r):
                    edges.append((tg, b['bb'], t['sp']))
            if t['k'] in ('Call', 'TailCall'):
                tg = self._targets(t)
                if t.get('via_from') in self.mir:
                    tg.append(t['via_from'])
                for x in tg:
                    edges.append((x, b['bb'], t['sp']))
                c = t.get('inst') or t.get('callee')
                if c not in self.mir:
                    ext.append((c, t, b['bb']))
        return edges, ext

    # -------------------------------------------------------------- cone
    def cone(self, entries, regions=None):
        """BFS from entry body paths. regions: {body path: (file, l1, c1, l2, c2)} restricts what is
        considered inside that body to terminators whose span lies in the region.
        Returns (reached {path: parent}, order)."""
        regions = regions or {}
        parent = {}
        q = collections.deque()
        for e in entries:
            if e not in self.mir:
                raise AnchorMissing('cone entry ' + e)
            parent[e] = None
            q.append(e)
        while q:
            p = q.popleft()
            for tg, bb, sp in self.edges[p]:
                if p in regions and not in_region(sp, regions[p]):
                    continue
                if tg not in parent:
                    parent[tg] = p
                    q.append(tg)
        return parent

    def chain(self, parent, p):
        out = []
        while p is not None:
            out.append(p)
            p = parent[p]
        return list(reversed(out))

    def sources(self, parent, regions=None):
        regions = regions or {}
        out = []
        ext_seen = {}
        for p in parent:
            m = self.mir[p]
            reg = regions.get(p)
            for b in m['blocks']:
                if b.get('cleanup'):
                    continue
                t = b['term']
                sp = t['sp']
                if reg and not in_region(sp, reg):
                    continue
                macro = sp[5] if len(sp) > 5 else None
                where = '%s:%d' % (sp[0], sp[1])
                foreign = macro is not None and not macro.startswith('desugar') and macro.split('::')[-1] not in USER_PANIC_MACROS
                if t['k'] == 'Assert':
                    kind = t['assert']
                    if kind.split('(')[0] in ASSERT_IGNORED or t.get('all_const'):
                        continue
                    if kind in ('Overflow(Shl)', 'Overflow(Shr)') and shift_const_ok(t.get('operands', ''), m.get('local_tys', [])):
                        continue      # shift by a literal smaller than the operand width cannot overflow
                    src = Source(p, 'assert', kind, ('macro:' + macro) if foreign else self.label(p, sp), where, macro)
                    if not foreign:
                        src.relabel = lambda subst, p=p, sp=sp: self.label(p, sp, subst=subst)
                    src.discharged = guarded_arith(self.facts, p, sp, kind) or enumerate_index(self.facts, p, sp, kind) or own_loop_nonempty(self.facts, p, sp, kind) or \
                        bounded_operands(self.facts, p, sp, kind) or bounded_index(self.facts, p, sp, kind) or \
                        (consumed_prefix(self.facts, p, sp, 'sub') if kind == 'Overflow(Sub)' else None) or \
                        (guarded_range_index(self.facts, p, sp) if kind.split('(')[0] == 'BoundsCheck' else None)
                    out.append(src)
                elif t['k'] in ('Call', 'TailCall'):
                    c = t.get('inst') or t.get('callee')
                    if t.get('diverges'):
                        def div_label(subst=None, p=p, sp=sp, macro=macro):
                            if macro and macro.startswith('desugar'):
                                return self.label(p, sp, subst=subst)
                            return (macro or '') + ':' + self.label(p, sp, subst=subst)
                        src = Source(p, 'diverging-call', short(c), div_label(), where, macro)
                        src.relabel = div_label
                        out.append(src)
                        continue
                    if c in self.mir:
                        continue
                    cls = self.classify(c, t)
                    ext_seen[c] = cls
                    if cls[0] == 'may-panic':
                        def call_label(subst=None, p=p, sp=sp, t=t, c=c, macro=macro, foreign=foreign):
                            lab = self.label(p, t.get('fn_sp') or sp, subst=subst)
                            if foreign and len((t.get('fn_sp') or sp)) > 5:
                                lab = 'macro:' + macro      # code generated by a macro: keyed by the macro, not by its argument text
                            if '{' in lab:
                                lab = lab[:lab.index('{') + 1]      # a closure / async block argument: its text is not part of the key
                            if (c or '').startswith('tokio::'):
                                lab = 'tokio'      # runtime-context panics (no runtime / no time driver): the argument text is irrelevant to the key
                            return lab
                        src = Source(p, 'may-panic-call', short(c), call_label(), where, macro)
                        src.relabel = call_label
                        src.discharged = lock_poison(t) or (consumed_prefix(self.facts, p, t.get('fn_sp') or sp, 'advance') if (c or '').endswith('>::advance') else None) \
                            or (bounded_amount(self.facts, p, t.get('fn_sp') or sp) if (c or '').rsplit('::', 1)[-1] in ('reserve', 'with_capacity', 'resize', 'reserve_exact') else None) \
                            or (guarded_split(self.facts, p, t.get('fn_sp') or sp) if (c or '').rsplit('::', 1)[-1] in ('split_at', 'split_at_mut') else None) \
                            or (guarded_index(self.facts, p, t.get('fn_sp') or sp) if (c or '').endswith('core::ops::index::Index<I>>::index') else None) \
                            or (guarded_range_index(self.facts, p, t.get('fn_sp') or sp) if t.get('callee') == 'core::ops::index::Index::index' and 'Range' in str(t.get('targs') or '') else None)
                        out.append(src)
        res = []
        for src in out:
            # the key names the enclosing *function*: code may move between a function, its closures and its async block.  A source
            # inside a new helper is keyed as in the expanded program: once for every baseline function the cone enters the helper
            # from, with the label it has there (one site seen from several call sites with the same label is one source)
            seen = set()
            for top, subst in attributions(self, parent, regions, src.fn):
                lab = src.relabel(subst) if (subst and src.relabel) else src.label
                key_fn = re.sub(r'(::\{closure#\d+\})+$', '', top)
                if (key_fn, lab) in seen:
                    continue
                s2 = copy.copy(src) if seen else src
                seen.add((key_fn, lab))
                s2.key_fn, s2.label = key_fn, lab
                res.append(s2)
        return res, ext_seen

    def classify(self, c, t):
        for k, why in NO_PANIC_REVIEWED.items():
            if c == k or (t.get('callee') == k):
                return ('reviewed-safe', why)
        # bitwise and / or / xor / not on the primitive integer types (std's by-reference forwarding impls `<&u8 as BitAnd<u8>>` are
        # #[track_caller] wholesale, as are those of the arithmetic operators they share a macro with): no input makes them panic
        m = re.match(r"<&?(?:'\w+ )?(u8|u16|u32|u64|u128|usize|i8|i16|i32|i64|i128|isize|bool) as core::ops::bit::(BitAnd|BitOr|BitXor)<&?(?:'\w+ )?\1>>::(bitand|bitor|bitxor)$", c or '')
        if m or re.match(r"<&?(?:'\w+ )?(u8|u16|u32|u64|u128|usize|i8|i16|i32|i64|i128|isize|bool) as core::ops::bit::Not>::not$", c or ''):
            return ('reviewed-safe', 'bitwise operator on a primitive integer: cannot panic')
        for k, why in MAY_PANIC_EXTRA.items():
            if c and c.endswith(k):
                return ('may-panic', why)
        if t.get('track_caller'):
            return ('may-panic', '#[track_caller]')
        if t.get('indirect'):
            return ('indirect', 'call through a function pointer / opaque value')
        return ('assumed-no-panic', 'external, not #[track_caller], not in the may-panic table')

    # -------------------------------------------------------------- recursion (F1r)
    def sccs(self, nodes):
        """Tarjan over the sub-graph induced by `nodes`; returns list of SCCs that contain a cycle."""
        index = {}
        low = {}
        stack, onstack = [], set()
        res = []
        counter = [0]
        import sys
        sys.setrecursionlimit(10000)
        def adj(v):
            return {tg for tg, _, _ in self.edges[v] if tg in nodes}
        def strong(v):
            index[v] = low[v] = counter[0]; counter[0] += 1
            stack.append(v); onstack.add(v)
            for w in adj(v):
                if w not in index:
                    strong(w)
                    low[v] = min(low[v], low[w])
                elif w in onstack:
                    low[v] = min(low[v], index[w])
            if low[v] == index[v]:
                comp = []
                while True:
                    w = stack.pop(); onstack.discard(w); comp.append(w)
                    if w == v:
                        break
                if len(comp) > 1 or v in adj(v):
                    res.append(sorted(comp))
        for v in nodes:
            if v not in index:
                strong(v)
        return res


def norm_int(m):
    """An integer literal in canonical decimal spelling (0x20, 0b10_0000 and 32u8 are the same key)."""
    t = m.group(1).replace('_', '')
    try:
        return str(int(t, 0) if t[:2].lower() in ('0x', '0b', '0o') else int(t))
    except ValueError:
        return m.group(0)

def shift_const_ok(operands, local_tys):
    m = re.search(r'const (\d+)_[iu](\d+|size)\s*$', operands.strip())
    if not m:
        return False
    amount = int(m.group(1))
    width = 8
    l = re.match(r'(?:copy|move) _(\d+)\b', operands.strip())
    if l and int(l.group(1)) < len(local_tys):
        w = re.match(r'[iu](\d+)$', local_tys[int(l.group(1))])
        if w:
            width = int(w.group(1))
    return amount < width

def in_region(sp, reg):
    if sp[0] != reg[0]:
        return False
    a = (sp[1], sp[2])
    return (reg[1], reg[2]) <= a <= (reg[3], reg[4])

def short(c):
    if c is None:
        return '?'
    c = re.sub(r'::<[^<>]*(<[^<>]*>)*[^<>]*>', '', c)
    return c

def group_keys(sources):
    """key -> (count, first source); the reported key carries the multiplicity."""
    g = collections.OrderedDict()
    for s in sources:
        g.setdefault((s.key, bool(s.discharged)), []).append(s)
    out = []
    for (k, _d), lst in g.items():
        out.append(('%s x%d' % (k, len(lst)), lst))
    return out

def judge(ctx, rule, groups, triage, describe):
    """Turn grouped sources into obligations: decided by a discharge rule, reviewed infeasible, or a violation."""
    for key, lst in groups:
        s = lst[0]
        if s.discharged:
            ctx.ok(rule + '(decided)', key, s.loc, s.discharged)
            continue
        cls = triage.get(key)
        if cls is None:
            # fewer sites than the reviewed entry counts: sites of the reviewed set were merged or removed (two arms that panic with
            # the same message folded into one, several `expect`s routed through one helper).  Every remaining site carries the
            # reviewed (function, kind, callee, label); it is judged, and reported, under the reviewed key.  More sites than reviewed,
            # or another function / kind / callee / label, is a new source.
            reviewed = reviewed_superset(key, triage)
            if reviewed is not None:
                key, cls = reviewed, triage[reviewed]
                cls = (cls[0], cls[1] + ' (x%d of the reviewed sites remain)' % len(lst))
        if cls and cls[0] == 'infeasible':
            ctx.ok(rule + '(reviewed-infeasible)', key, s.loc, cls[1])
        else:
            ctx.fail(rule, key, s.loc, describe(s) + (('; triage: ' + cls[1]) if cls else ''))

def _split_key(key):
    m = re.match(r'(.*) x(\d+)$', key, re.S)
    return (m.group(1), int(m.group(2))) if m else (key, 1)

def reviewed_superset(key, triage):
    """The reviewed key with the same (function, kind, callee, label) and the smallest multiplicity above the observed one."""
    stem, n = _split_key(key)
    best = None
    for k in triage:
        st, m = _split_key(k)
        if st == stem and m > n and (best is None or m < best[0]):
            best = (m, k)
    return best[1] if best else None

def load_triage(path):
    t = {}
    if not os.path.exists(path):
        return t
    with open(path) as f:
        for line in f:
            line = line.rstrip('\n')
            if not line or line.startswith('#'):
                continue
            parts = line.split('\t')
            if len(parts) >= 3:
                t[parts[0]] = (parts[1], parts[2])
    return t


# ---------------------------------------------------------------------------------------
# Deciding panic sources instead of freezing a judgement about them.
#
# A source met in a cone is first offered to the *discharge rules* below; each decides, from the resolved program,
# that the source cannot fire.  Only a source no rule decides falls back to the reviewed triage table (keyed without
# line numbers and without local names).  A discharge rule re-reads the guard on every run, so removing the guard
# turns the source into a violation; and it does not care in which function the construct lives, so moving it into a
# helper does not.

import hirq as _hirq
from facts import walk as _walk

INT_MAX = {'u8': 255, 'u16': 65535, 'u32': 2**32 - 1, 'u64': 2**64 - 1, 'usize': 2**64 - 1,
           'i8': 127, 'i16': 32767, 'i32': 2**31 - 1, 'i64': 2**63 - 1, 'isize': 2**63 - 1}

def hir_owner(facts, body_path):
    owner = body_path
    while owner not in facts.hir_all and '::{' in owner:
        owner = owner.rsplit('::{', 1)[0]
    return facts.hir_all.get(owner)

def expr_eq(facts, a, b):
    a, b = _hirq.peel_refs(a), _hirq.peel_refs(b)
    ca, cb = _hirq.const_eval(facts, a), _hirq.const_eval(facts, b)
    if ca is not None or cb is not None:
        return ca is not None and ca == cb
    if a['k'] != b['k']:
        return False
    k = a['k']
    if k == 'Path':
        return (a.get('res') == 'local' and b.get('res') == 'local' and a['bind'] == b['bind']) or \
               (a.get('res') != 'local' and a.get('def') is not None and a.get('def') == b.get('def'))
    if k == 'Field':
        return a['name'] == b['name'] and expr_eq(facts, a['e'], b['e'])
    if k == 'MethodCall':
        return (a.get('callee') == b.get('callee') and a['name'] == b['name'] and a['name'] in ('len', 'input_len')
                and not a['args'] and not b['args'] and expr_eq(facts, a['recv'], b['recv']))
    if k == 'Cast':
        return expr_eq(facts, a['e'], b['e'])
    return False

def _cmp_facts(cond, truth, out, atoms=None):
    """Comparisons known to hold when `cond` evaluates to `truth`: (l, op, r) with op in Lt Le Gt Ge Eq Ne.  With `atoms`, the other
    boolean leaves whose value follows are collected too, as (expression, truth)."""
    if cond['k'] == 'Binary':
        op = cond['op']
        if op == 'And' and truth:
            _cmp_facts(cond['l'], True, out, atoms); _cmp_facts(cond['r'], True, out, atoms)
        elif op == 'Or' and not truth:
            _cmp_facts(cond['l'], False, out, atoms); _cmp_facts(cond['r'], False, out, atoms)
        elif op in ('Lt', 'Le', 'Gt', 'Ge', 'Eq', 'Ne'):
            neg = {'Lt': 'Ge', 'Le': 'Gt', 'Gt': 'Le', 'Ge': 'Lt', 'Eq': 'Ne', 'Ne': 'Eq'}
            out.append((cond['l'], op if truth else neg[op], cond['r']))
    elif cond['k'] == 'Unary' and cond.get('op') == 'Not':
        _cmp_facts(cond['e'], not truth, out, atoms)
    elif atoms is not None and cond['k'] in ('MethodCall', 'Call'):
        atoms.append((cond, truth))

def known_comparisons(B, node, atoms=None):
    """Comparisons that hold whenever `node` is evaluated: enclosing if-branches and earlier early-exit guards
    (`if c { return / break / continue / panic }` without else) in the enclosing blocks.  With `atoms`: also the boolean calls
    (`x.is_empty()`) whose value is fixed there, as (call node, truth)."""
    out = []
    ctx = B.context(node)
    chain = [a for a, _r in ctx] + [node]
    for i, (anc, role) in enumerate(ctx):
        child = chain[i + 1]
        if anc['k'] == 'If' and role in ('then', 'els'):
            _cmp_facts(anc['cond'], role == 'then', out, atoms)
        elif anc['k'] == 'Binary' and anc.get('op') in ('And', 'Or') and role == 'r':
            # short circuit: the right operand of `&&` is evaluated only when the left one holds, that of `||` only when it does not
            _cmp_facts(anc['l'], anc['op'] == 'And', out, atoms)
        elif anc['k'] == 'Block':
            for s in anc['stmts']:
                e = s.get('e') if s['k'] in ('Expr', 'Semi') else s.get('init')
                if e is child or (s['k'] == 'Let' and s.get('init') is child):
                    break
                if e is not None and any(x is child for x, _ in _walk(e)):
                    break
                if s['k'] in ('Expr', 'Semi') and e['k'] == 'If' and e.get('els') is None and _hirq.diverges(e['then']):
                    _cmp_facts(e['cond'], False, out, atoms)
    return out

def _mutated(B, e):
    b = _hirq.root_local(_hirq.peel_refs(e)) if e['k'] != 'Lit' else None
    return b is not None and bool(B.assigns.get(b))

def _stored_only_here(B, l, n):
    """`x += c` / `x -= c` (the node n) on a local x - a `mut` parameter, a `let mut` - whose only store in the whole body is this
    very statement, which stands outside every loop and closure and is therefore executed at most once per call, with x never
    borrowed mutably: when it is evaluated x still holds the value every earlier guard tested, so a comparison that holds at the
    operation (known_comparisons: enclosing branches and earlier early exits, all evaluated before it) speaks about the operand."""
    l = _hirq.peel_refs(l)
    if n['k'] != 'AssignOp' or l['k'] != 'Path' or l.get('res') != 'local':
        return False
    b = l['bind']
    if [id(x) for x in B.assigns.get(b, [])] != [id(n)]:
        return False
    if any(a['k'] in ('Loop', 'While', 'For', 'Closure') for a, _role in B.context(n)):
        return False
    for x in B.nodes:
        if x['k'] == 'AddrOf' and x.get('mut') and _hirq.root_local(_hirq.peel_refs(x['e'])) == b:
            return False
        if str(x.get('adj_ty') or '').startswith('&mut') and x['k'] in ('Path', 'Field', 'Index') and _hirq.root_local(x) == b:
            return False
    return True

def guarded_arith(facts, body_path, src_sp, kind):
    """D2: an Overflow(Sub)/Overflow(Add) assert on `a - b` / `a + c` is discharged when a comparison that holds
    at the operation excludes the overflow.  Returns a reason string or None."""
    rec = hir_owner(facts, body_path)
    if rec is None or kind not in ('Overflow(Sub)', 'Overflow(Add)'):
        return None
    B = _hirq.Body(facts, rec)
    cands = [n for n in B.nodes if n['k'] in ('Binary', 'AssignOp') and n.get('sp') and list(n['sp'][:5]) == list(src_sp[:5])]
    if len(cands) != 1:
        return None
    n = cands[0]
    op = n['op'].replace('Assign', '')
    if op not in ('Add', 'Sub'):
        return None
    l, r = n['l'], n['r']
    if _mutated(B, r) or (_mutated(B, l) and not _stored_only_here(B, l, n)):
        return None
    facts_here = known_comparisons(B, n)
    def holds(a, rel, b):
        """a rel b follows from one known comparison (structurally, or through constants)."""
        for x, o, y in facts_here:
            flip = {'Lt': 'Gt', 'Le': 'Ge', 'Gt': 'Lt', 'Ge': 'Le', 'Eq': 'Eq', 'Ne': 'Ne'}
            for (p, oo, q) in ((x, o, y), (y, flip[o], x)):
                if not expr_eq(facts, p, a):
                    continue
                cq, cb = _hirq.const_eval(facts, q), _hirq.const_eval(facts, b)
                if expr_eq(facts, q, b):
                    if rel == 'Ge' and oo in ('Ge', 'Gt', 'Eq'): return True
                    if rel == 'Le' and oo in ('Le', 'Lt', 'Eq'): return True
                    if rel == 'Ne' and oo in ('Ne', 'Lt', 'Gt'): return True
                if isinstance(cq, int) and isinstance(cb, int):
                    if rel == 'Ge' and ((oo == 'Ge' and cq >= cb) or (oo == 'Gt' and cq + 1 >= cb) or (oo == 'Eq' and cq >= cb)): return True
                    if rel == 'Le' and ((oo == 'Le' and cq <= cb) or (oo == 'Lt' and cq - 1 <= cb) or (oo == 'Eq' and cq <= cb)): return True
        return False
    if op == 'Sub' and kind == 'Overflow(Sub)':
        if holds(l, 'Ge', r):
            return 'guarded: a comparison that holds at the subtraction gives minuend >= subtrahend'
    if op == 'Add' and kind == 'Overflow(Add)':
        c = _hirq.const_eval(facts, r)
        ty = _hirq.strip_refs((n['l'] if n['k'] == 'AssignOp' else n).get('ty') or '')      # (`x += c` itself has type (): computed in x's type)
        mx = INT_MAX.get(ty)
        if isinstance(c, int) and mx is not None and c >= 0:
            bound = {'k': 'Lit', 'v': mx - c}
            if holds(l, 'Le', bound):
                return 'guarded: a comparison that holds at the addition bounds the operand by %s::MAX - %d' % (ty, c)
            if c == 1 and holds(l, 'Ne', {'k': 'Lit', 'v': mx}):
                return 'guarded: the operand is known to differ from %s::MAX' % ty
    return None

UNSIGNED = ('u8', 'u16', 'u32', 'u64', 'usize')
ISIZE_MAX = 2 ** 63 - 1
# in-memory sequences of elements that occupy at least one byte: their length is at most isize::MAX (the language's bound on the
# size of an allocation); a sequence of zero-sized elements has no such bound and is not listed
_SIZED_ELEM = r"(?:[iu](?:8|16|32|64|128|size)|bool|char|f32|f64)"
_BYTE_SEQ = re.compile(r"^(?:\[" + _SIZED_ELEM + r"(?:; \d+)?\]|alloc::vec::Vec<" + _SIZED_ELEM + r"(?:, [^<>]*)?>|str|alloc::string::String|"
                       r"bytes::bytes_mut::BytesMut|bytes::bytes::Bytes)$")

def upper_bound(facts, B, e, depth=0):
    """An upper bound, by construction, of a non-negative integer expression: the smallest of what its type allows and what its
    form allows - a constant; `x & m` with a constant m >= 0 (at most m, whatever x is); `x % m` / `x >> k` of an unsigned x; a
    cast of an unsigned value (its bound carries over, capped by the target type); `s.len()` of an in-memory sequence of non-zero-
    sized elements (at most isize::MAX); a sum of bounded operands; an immutable `let` is its initialiser.  None when the
    expression's type is not an unsigned integer (nothing is claimed about signed arithmetic)."""
    e = _hirq.peel_refs(e)
    ty = _hirq.strip_refs(e.get('ty') or '')
    if ty not in UNSIGNED or depth > 12:
        return None
    cap = INT_MAX[ty]
    v = _hirq.const_eval(facts, e)
    if isinstance(v, int) and not isinstance(v, bool):
        return v if 0 <= v <= cap else None
    if e['k'] == 'Path' and e.get('res') == 'local':
        # a binding that is not `mut` (so nothing can change it, not even through a reference) is its initialiser
        d = B.defs.get(e['bind'])
        if d and d['kind'] == 'let' and not d['proj'] and d['src'] is not None and (d['pat'].get('mode') or '').endswith(', Not)') \
                and _hirq.strip_refs(d['src'].get('ty') or '') == ty:
            return upper_bound(facts, B, d['src'], depth + 1)
        return cap
    k = e['k']
    sub = lambda x: upper_bound(facts, B, x, depth + 1)
    # the payload of `c.to_digit(r)` with a constant radix r - reached through `?`, ok_or(..), ok_or_else(..), unwrap(), expect(..),
    # which hand the Some / Ok payload on unchanged - is a digit of that radix: std answers Some(d) only with d < r
    src = e
    while True:
        if src['k'] == 'Try':
            src = _hirq.peel_refs(src['e'])
        elif src['k'] == 'MethodCall' and src.get('name') in ('ok_or', 'ok_or_else', 'unwrap', 'expect') \
                and (src.get('callee') or '').startswith(('core::option::Option::<T>::', 'core::result::Result::<T, E>::')):
            src = _hirq.peel_refs(src['recv'])
        else:
            break
    if src is not e and src['k'] == 'MethodCall' and (src.get('callee') or '') == 'core::char::methods::<impl char>::to_digit' and len(src['args']) == 1:
        r_ = _hirq.const_eval(facts, src['args'][0])
        if isinstance(r_, int) and not isinstance(r_, bool) and 2 <= r_ <= 36:
            return min(cap, r_ - 1)
    if k == 'Cast':
        inner = sub(e['e'])          # None for a signed source: a negative value would become a large one
        return cap if inner is None else min(cap, inner)
    if k == 'Binary':
        op = e['op']
        cl, cr = _hirq.const_eval(facts, e['l']), _hirq.const_eval(facts, e['r'])
        if op == 'BitAnd':
            ms = [c for c in (cl, cr) if isinstance(c, int) and not isinstance(c, bool) and c >= 0]
            bs = [b for b in (sub(e['l']), sub(e['r'])) if b is not None]
            return min([cap] + ms + bs)
        if op == 'Rem' and isinstance(cr, int) and cr > 0:
            return min(cap, cr - 1)
        if op == 'Shr' and isinstance(cr, int) and 0 <= cr < 64:
            l = sub(e['l'])
            return cap if l is None else min(cap, l >> cr)
        if op == 'Add':
            l, r2 = sub(e['l']), sub(e['r'])
            return cap if l is None or r2 is None else min(cap, l + r2)
        if op == 'Mul':
            l, r2 = sub(e['l']), sub(e['r'])
            return cap if l is None or r2 is None else min(cap, l * r2)
    if k == 'MethodCall' and e.get('name') == 'len' and not e['args'] and _BYTE_SEQ.match(_hirq.strip_refs(e['recv'].get('ty') or '')):
        return min(cap, ISIZE_MAX)
    return cap

def bounded_operands(facts, body_path, src_sp, kind):
    """D7: an Overflow(Add) / Overflow(Mul) assert on an unsigned `a + b` / `a * b` is discharged when the operands are bounded by
    construction (see upper_bound) and the sum / product of the bounds is at most the type's maximum: `2 + (x & 127) as usize`, `2 + slice.len()`,
    `hdr as usize + n as usize` with u8 / u16 sources.  Nothing is read off a guard here - an operand that is merely *tested* to
    be small is D2's business - so there is no guard whose removal could go unnoticed."""
    rec = hir_owner(facts, body_path)
    if rec is None or kind not in ('Overflow(Add)', 'Overflow(Mul)'):
        return None
    B = _hirq.Body(facts, rec)
    cands = [n for n in B.nodes if n['k'] == 'Binary' and n.get('sp') and list(n['sp'][:5]) == list(src_sp[:5])]
    if len(cands) != 1 or cands[0]['op'] != kind[len('Overflow('):-1]:
        return None
    n = cands[0]
    ty = _hirq.strip_refs(n.get('ty') or '')
    if ty not in UNSIGNED:
        return None
    l, r = upper_bound(facts, B, n['l']), upper_bound(facts, B, n['r'])
    if l is not None and r is not None and (l + r if n['op'] == 'Add' else l * r) <= INT_MAX[ty]:
        return 'operands bounded by construction: at most %d %s %d, within %s' % (l, '+' if n['op'] == 'Add' else '*', r, ty)
    return None

def bounded_index(facts, body_path, src_sp, kind):
    """D8: a BoundsCheck assert on `a[i]` where `a` is an array whose length N is part of its type (`[T; N]`, a constant table)
    is discharged when the index is bounded by construction below N (see upper_bound): a u8 shifted right by k has at most
    2^(8-k) values (`TABLE[(octet >> 5) as usize]` with N = 8), `x & m` is at most m, `x % N` is below N.  As in D7 nothing is read
    off a guard: the bound is a property of the index expression's form and the length a property of the array's type, both
    re-read on every run - a table that loses a row, or a shift that becomes smaller, turns the source into a violation."""
    rec = hir_owner(facts, body_path)
    if rec is None or kind.split('(')[0] != 'BoundsCheck':
        return None
    B = _hirq.Body(facts, rec)
    cands = [n for n in B.nodes if n['k'] == 'Index' and n.get('sp') and
             (list(n['sp'][:5]) == list(src_sp[:5]) or (n['sp'][0] == src_sp[0] and n['sp'][3:5] == src_sp[3:5]))]
    if len(cands) != 1:
        return None
    ix = cands[0]
    m = re.match(r'^\[.+; (\d+)\]$', _hirq.strip_refs(ix['e'].get('ty') or ''))
    if not m:
        return None
    n = int(m.group(1))
    ub = upper_bound(facts, B, ix['idx'])
    if ub is not None and ub < n:
        return 'index bounded by construction: at most %d, the array has %d elements by its type' % (ub, n)
    return None

def enumerate_index(facts, body_path, src_sp, kind):
    """D3: `i + 1` where i is the index component of an `Iterator::enumerate()` item (or `n + 1` inside a closure over
    one) cannot overflow: the index is smaller than the length of an in-memory sequence, hence < usize::MAX."""
    rec = hir_owner(facts, body_path)
    if rec is None or kind != 'Overflow(Add)':
        return None
    B = _hirq.Body(facts, rec)
    cands = [n for n in B.nodes if n['k'] == 'Binary' and n.get('sp') and list(n['sp'][:5]) == list(src_sp[:5])]
    if len(cands) != 1 or cands[0]['op'] != 'Add' or _hirq.const_eval(facts, cands[0]['r']) != 1:
        return None
    b = _hirq.local_of(cands[0]['l'])
    d = B.defs.get(b)
    if d is None or B.assigns.get(b) or d['proj'][:1] != (('tup', 0),):
        return None
    def is_enum(e):
        e = _hirq.peel_refs(e)
        while e['k'] == 'MethodCall' and e['name'] in ('iter', 'into_iter', 'by_ref'):
            e = e['recv']
        return e['k'] == 'MethodCall' and (e.get('callee') or '') == 'core::iter::traits::iterator::Iterator::enumerate'
    if d['kind'] == 'for' and is_enum(d['src']):
        return 'the operand is an enumerate() index'
    if d['kind'] == 'cparam':
        # closure parameter of an adaptor applied to an enumerate() chain
        for n, ctx in _walk(B.root):
            if n['k'] == 'MethodCall' and any(a is d['node'] for a in n['args']):
                e = n['recv']
                while e['k'] == 'MethodCall':
                    if (e.get('callee') or '') == 'core::iter::traits::iterator::Iterator::enumerate':
                        return 'the operand is an enumerate() index'
                    e = e['recv']
    return None

def own_loop_nonempty(facts, body_path, src_sp, kind):
    """D3b: `x.len() - 1` in the body of a `for` loop that iterates x itself by reference (`&x`, `x.iter()`, either under
    `.enumerate()`) cannot underflow: the body runs once per element of x, so x has at least one element whenever it runs, and x
    cannot change while the loop's shared borrow of it is alive (x is a local that is never assigned, or the vector / array
    itself).  Re-read on every run: a loop over something else, or the subtraction moved out of the loop, is not discharged."""
    rec = hir_owner(facts, body_path)
    if rec is None or kind != 'Overflow(Sub)':
        return None
    B = _hirq.Body(facts, rec)
    cands = [n for n in B.nodes if n['k'] == 'Binary' and n.get('sp') and list(n['sp'][:5]) == list(src_sp[:5])]
    if len(cands) != 1 or cands[0]['op'] != 'Sub' or _hirq.const_eval(facts, cands[0]['r']) != 1:
        return None
    l = _hirq.peel_refs(cands[0]['l'])
    if not (l['k'] == 'MethodCall' and l['name'] == 'len' and not l['args']
            and (l.get('callee') or '').startswith(('alloc::vec::Vec::<T, A>::len', 'core::slice::<impl [T]>::len'))):
        return None
    x = _hirq.peel_refs(l['recv'])
    if x['k'] != 'Path' or x.get('res') != 'local':
        return None
    b = x['bind']
    owned = (x.get('ty') or '').startswith(('alloc::vec::Vec<', '['))
    if B.assigns.get(b) and not owned:
        return None
    for anc, role in reversed(B.context(cands[0])):
        if anc['k'] == 'Closure':
            return None         # a closure made in the loop may be called after the loop has ended
        if anc['k'] != 'For' or role != 'body':
            continue
        it = anc['iter']
        if it['k'] == 'MethodCall' and (it.get('callee') or '') == 'core::iter::traits::iterator::Iterator::enumerate' and not it['args']:
            it = it['recv']
        src = None
        if it['k'] == 'AddrOf' and not it.get('mut') and it['e']['k'] == 'Path':
            src = it['e']
        elif it['k'] == 'MethodCall' and (it.get('callee') or '') == 'core::slice::<impl [T]>::iter' and not it['args']:
            src = _hirq.peel_refs(it['recv'])
        if src is not None and src['k'] == 'Path' and src.get('res') == 'local' and src['bind'] == b:
            return 'the subtraction stands in the body of a loop over the elements of the very sequence whose length it reads: at least one element'
    return None

def consumed_prefix(facts, body_path, sp, what):
    """D4: `buf.len() - rest.len()` (and `buf.advance(that)`) where `rest` is the remainder a parser returned for `buf` (or for a
    slice of it): the remainder is a suffix of the input, so the difference neither underflows nor exceeds the buffer."""
    rec = hir_owner(facts, body_path)
    if rec is None:
        return None
    B = _hirq.Body(facts, rec)
    if what == 'advance':
        cands = [n for n in B.nodes if n['k'] == 'MethodCall' and n['name'] == 'advance' and n.get('sp') and
                 (list(n['sp'][:5]) == list(sp[:5]) or (n['sp'][0] == sp[0] and n['sp'][3:5] == sp[3:5]))]
        if len(cands) != 1 or len(cands[0]['args']) != 1:
            return None
        e = _hirq.resolve_expr(B, cands[0]['args'][0])
        target = cands[0]['recv']
    else:
        cands = [n for n in B.nodes if n['k'] == 'Binary' and n.get('sp') and list(n['sp'][:5]) == list(sp[:5])]
        if len(cands) != 1:
            return None
        e, target = cands[0], None
    if e['k'] != 'Binary':
        o = B.origin(e)         # a local that received the difference through a tuple / match arm
        if o[0][0] == 'expr' and o[0][1] == 'Binary' and not o[1] and B.by_id.get(o[0][2]) is not None:
            e = B.by_id[o[0][2]]
    if e['k'] != 'Binary' or e['op'] != 'Sub':
        return None
    def len_of(x):
        x = _hirq.peel_refs(_hirq.resolve_expr(B, x))
        if x['k'] == 'MethodCall' and x['name'] == 'len' and not x['args']:
            return x['recv']
        o = B.origin(x)        # a local that received `y.len()` through a tuple / match arm
        if o[0][0] == 'call' and not o[1] and o[0][1].rsplit('::', 1)[-1] == 'len':
            n = B.by_id.get(o[0][2])
            if n is not None and n['k'] == 'MethodCall' and not n['args']:
                return n['recv']
        return None
    a, b = len_of(e['l']), len_of(e['r'])
    if a is None or b is None:
        return None
    if target is not None and _hirq.strip_casts(B.origin(target))[0] != _hirq.strip_casts(B.origin(a))[0]:
        return None
    oa = B.origin(a)
    ob = B.origin(b)
    if ob[0][0] != 'call':
        return None
    call = B.by_id.get(ob[0][2])
    if call is None:
        return None
    from facts import call_args as _call_args
    feeds = any(B.origin(x)[0] == oa[0] for x in _call_args(call))
    # the remainder is the first component of the parser's Ok payload
    proj_ok = any(pr[0] == 'tup' and pr[1] == 0 for pr in ob[1]) and any(pr[0] in ('variant', 'try') for pr in ob[1])
    if feeds and proj_ok and ('parse' in ob[0][1]):
        return 'the subtrahend is the length of the remainder returned by %s for the same buffer (a suffix of it)' % ob[0][1].rsplit('::', 1)[-1]
    return None

def bounded_amount(facts, body_path, sp):
    """D5: an allocation request (`reserve(n)`, `with_capacity(n)`, `resize(n, _)`) whose amount is a literal / named constant, or
    is capped by one (`n.min(K)`, `min(n, K)`, `cmp::min(K, n)`): neither a capacity overflow nor an allocation sized by the peer."""
    rec = hir_owner(facts, body_path)
    if rec is None:
        return None
    B = _hirq.Body(facts, rec)
    cands = [n for n in B.nodes if n['k'] in ('MethodCall', 'Call') and n.get('sp') and
             (list(n['sp'][:5]) == list(sp[:5]) or (n['sp'][0] == sp[0] and n['sp'][3:5] == sp[3:5]))
             and (n.get('name') or (n.get('f') or {}).get('def', '').rsplit('::', 1)[-1]) in ('reserve', 'with_capacity', 'resize', 'reserve_exact')]
    if len(cands) != 1 or not cands[0]['args']:
        return None
    def const(x):
        x = _hirq.peel_refs(_hirq.resolve_expr(B, x))
        v = _hirq.const_eval(facts, x)
        return isinstance(v, int) and not isinstance(v, bool) and 0 <= v <= (1 << 31)
    def capped(x, depth=0):
        x = _hirq.peel_refs(_hirq.resolve_expr(B, x))
        if const(x):
            return True
        if depth > 4:
            return False
        if x['k'] == 'MethodCall' and x['name'] == 'min' and len(x['args']) == 1:
            return capped(x['recv'], depth + 1) or capped(x['args'][0], depth + 1)
        if x['k'] == 'Call' and (x['f'].get('def') or '').rsplit('::', 1)[-1] == 'min' and len(x['args']) == 2:
            return capped(x['args'][0], depth + 1) or capped(x['args'][1], depth + 1)
        if x['k'] == 'Cast':
            return capped(x['e'], depth + 1)
        return False
    if capped(cands[0]['args'][0]):
        return 'the amount is a constant or capped by one'
    return None

def lock_poison(term):
    """D1: expect/unwrap on a LockResult panics only if another thread panicked while holding the lock."""
    c = term.get('inst') or term.get('callee') or ''
    if c.rsplit('::', 1)[-1] in ('expect', 'unwrap') and c.startswith('core::result::Result::<T, E>::'):
        tys = term.get('arg_tys') or ['']
        if 'PoisonError<' in tys[0]:
            return 'lock poisoning needs a prior panic of another holder while the lock is held; the critical sections of this lock are analysed for panic sources on their own (C05 N1 / this cone)'
    return None

def attributions(G, parent, regions, fn, stack=()):
    """A source inside a helper that does not exist on the baseline tree belongs, as in the expanded program, to every baseline
    function through which the cone enters the helper (through any number of new helpers), so a key does not change when code
    moves into a new helper.  Returns [(body path the key names, {parameter name of the helper: literal text})]: a parameter
    that receives a literal (directly, through an immutable `let`, through a named constant or through a parameter of an
    enclosing new helper that is itself bound to a literal) at the call site is bound to it, so that `expect(what)` inside
    `helper(.., what: &str)` is `expect("matched dn")` seen from `helper(.., "matched dn")`."""
    facts = G.facts
    new = getattr(facts, 'new_fns', set())
    base = fn
    while base not in facts.hir_all and '::{' in base:
        base = base.rsplit('::{', 1)[0]
    if base not in new or len(stack) > 8:
        return [(fn, {})]
    rec = facts.hir_all.get(base)
    pnames = {}
    if rec is not None:
        H = G._bodies.get(base)
        if H is None:
            H = G._bodies[base] = _hirq.Body(facts, rec)
        bound = collections.Counter(d['name'] for d in H.defs.values())
        for i, pat in enumerate(rec['params']):
            bs = list(_hirq.pat_bindings(pat))
            # a parameter bound whole, never assigned, whose name no other binding of the helper shadows (labels are text)
            if len(bs) == 1 and not bs[0][2] and not H.assigns.get(bs[0][0]) and bound[bs[0][1]] == 1:
                pnames[i] = bs[0][1]
    res = []
    inside = lambda p: p == base or p.startswith(base + '::{')
    for caller in parent:
        if inside(caller) or caller in stack:
            continue
        for tg, _bb, sp in G.edges[caller]:
            if tg != base or (caller in regions and not in_region(sp, regions[caller])):
                continue
            for top, outer in attributions(G, parent, regions, caller, stack + (base,)):
                res.append((top, _bind_literals(G, caller, sp, base, pnames, outer)))
    # reached in no other way than the ones above (an entry of the cone, a trait object): keyed by itself
    return res or [(fn, {})]

def _bind_literals(G, caller, sp, callee, pnames, outer):
    facts = G.facts
    rec = hir_owner(facts, caller)
    if rec is None or not pnames:
        return {}
    B = G._bodies.get(rec['path'])
    if B is None:
        B = G._bodies[rec['path']] = _hirq.Body(facts, rec)
    from facts import callee_of as _callee_of, call_args as _call_args
    sites = [n for n in B.nodes if n['k'] in ('Call', 'MethodCall') and _callee_of(n) == callee and n.get('sp') and
             (list(n['sp'][:5]) == list(sp[:5]) or (n['sp'][0] == sp[0] and n['sp'][3:5] == sp[3:5]))]
    if len(sites) != 1:
        return {}
    args = _call_args(sites[0])
    subst = {}
    for i, name in pnames.items():
        if i >= len(args):
            continue
        a = _hirq.peel_refs(_hirq.resolve_expr(B, args[i]))
        b = _hirq.local_of(a)
        d = B.defs.get(b) if b is not None else None
        if d is not None:
            if d['kind'] == 'param' and not d['proj'] and not B.assigns.get(b) and d['name'] in outer:
                subst[name] = outer[d['name']]
            continue
        v = a.get('v') if a['k'] == 'Lit' else _hirq.const_eval(facts, a)
        if isinstance(v, bool):
            subst[name] = 'true' if v else 'false'
        elif isinstance(v, int):
            subst[name] = str(v)
        elif isinstance(v, str):
            subst[name] = '"%s"' % v
    return subst


# ---------------------------------------------------------------------------------------
# cross-engine agreement: every panicking construct that clippy's restriction lints see lexically inside a body of the cone must
# have been found as a panic source by the MIR engine at the same place (thorough tier; a disagreement is an engine fault)

def clippy_agreement(ctx, rule, G, parent, regions, srcs, sites):
    regions = regions or {}
    by_file = collections.defaultdict(list)
    for s in srcs:
        fn, ln = s.loc.rsplit(':', 1)
        by_file[fn].append(int(ln))
    spans = []
    for p in parent:
        sp = G.mir[p]['span']
        h = G.facts.hir.get(p) or getattr(G.facts, 'hir_all', {}).get(p)
        if h is not None and h['body'].get('sp'):
            sp = h['body']['sp']          # the whole body (the MIR record carries the header span only)
        reg = regions.get(p)
        spans.append((sp[0], reg[1] if reg else sp[1], reg[3] if reg else sp[3], p))
    inside = 0
    missing = []
    for fn, l1, l2, lint in sites:
        owners = [p for f2, a, b, p in spans if f2 == fn and a <= l1 <= b]
        if not owners:
            continue
        inside += 1
        if not any(l1 <= ln <= l2 for ln in by_file.get(fn, [])):
            missing.append('%s:%d %s' % (fn, l1, lint))
    ctx.add(rule, 'clippy restriction lints vs MIR panic sources', '', not missing,
            'constructs that clippy reports inside the cone\'s bodies but the MIR engine did not list as panic sources (engine fault): %s' % missing[:6], nontrivial=False)
    return inside


def _mut_borrowed_between(B, x, a, b):
    """Between the evaluation of node a and node b (pre-order), is the local at the root of x borrowed mutably (receiver of a
    `&mut self` method such as pop / clear / truncate, or `&mut x` passed on)?  Then a fact about x established at a need not
    hold at b."""
    root = _hirq.root_local(_hirq.peel_refs(x))
    lo, hi = B.order.get(id(a)), B.order.get(id(b))
    if root is None or lo is None or hi is None or lo > hi:
        return True
    for n in B.nodes[lo:hi + 1]:
        if n['k'] == 'AddrOf' and n.get('mut') and _hirq.root_local(_hirq.peel_refs(n['e'])) == root:
            return True
        if str(n.get('adj_ty') or '').startswith('&mut') and n['k'] in ('Path', 'Field', 'Index') and _hirq.root_local(n) == root:
            return True
    return False

def guarded_index(facts, body_path, sp):
    """D7: `x[k]` with a literal k on a vector / slice panics when k >= x.len(); discharged when a comparison that holds at the
    indexing (an enclosing branch, an earlier early exit, or the left operand of the `&&` it stands in) gives x.len() > k, with x
    not reassigned in the body."""
    rec = hir_owner(facts, body_path)
    if rec is None:
        return None
    B = _hirq.Body(facts, rec)
    cands = [n for n in B.nodes if n['k'] == 'Index' and n.get('sp') and
             (list(n['sp'][:5]) == list(sp[:5]) or (n['sp'][0] == sp[0] and n['sp'][3:5] == sp[3:5]))]
    if len(cands) != 1:
        return None
    ix = cands[0]
    x = ix['e']
    k = _hirq.const_eval(facts, ix['idx'])
    if not isinstance(k, int) or isinstance(k, bool) or k < 0 or _mutated(B, x):
        return None
    flip = {'Lt': 'Gt', 'Le': 'Ge', 'Gt': 'Lt', 'Ge': 'Le', 'Eq': 'Eq', 'Ne': 'Ne'}
    def is_len_of_x(e):
        e = _hirq.peel_refs(e)
        return e['k'] == 'MethodCall' and e['name'] == 'len' and not e['args'] and expr_eq(facts, e['recv'], x)
    atoms = []
    for a, o, b in known_comparisons(B, ix, atoms):
        for (p, oo, q) in ((a, o, b), (b, flip[o], a)):
            if not is_len_of_x(p):
                continue
            m = _hirq.const_eval(facts, q)
            if not isinstance(m, int) or isinstance(m, bool):
                continue
            if ((oo == 'Eq' and m > k) or (oo == 'Gt' and m >= k) or (oo == 'Ge' and m > k) or (oo == 'Ne' and m == 0 and k == 0)) \
                    and not _mut_borrowed_between(B, x, p, ix):
                return 'guarded: a comparison that holds at the indexing gives len > %d' % k
    if k == 0:
        for c, truth in atoms:
            if not truth and c['k'] == 'MethodCall' and c['name'] == 'is_empty' and not c['args'] and expr_eq(facts, c['recv'], x) \
                    and not _mut_borrowed_between(B, x, c, ix):
                return 'guarded: `is_empty()` of the same vector is false at the indexing (the branch not taken by `if x.is_empty()`)'
    return None

def guarded_split(facts, body_path, sp):
    """D6: `x.split_at(n)` panics when n > x.len(); discharged when a comparison that holds at the call gives n <= x.len()
    (typically the early return of `if x.len() < n { return .. }`), with neither operand reassigned in between."""
    rec = hir_owner(facts, body_path)
    if rec is None:
        return None
    B = _hirq.Body(facts, rec)
    cands = [n for n in B.nodes if n['k'] == 'MethodCall' and n.get('name') in ('split_at', 'split_at_mut') and n.get('sp') and
             (list(n['sp'][:5]) == list(sp[:5]) or (n['sp'][0] == sp[0] and n['sp'][3:5] == sp[3:5]))]
    if len(cands) != 1 or len(cands[0]['args']) != 1:
        return None
    call = cands[0]
    x, n = call['recv'], call['args'][0]
    if _mutated(B, x) or _mutated(B, n):
        return None
    flip = {'Lt': 'Gt', 'Le': 'Ge', 'Gt': 'Lt', 'Ge': 'Le', 'Eq': 'Eq', 'Ne': 'Ne'}
    def is_len_of_x(e):
        e = _hirq.peel_refs(e)
        return e['k'] == 'MethodCall' and e['name'] in ('len', 'input_len') and not e['args'] and expr_eq(facts, e['recv'], x)
    for a, o, b in known_comparisons(B, call):
        for (p, oo, q) in ((a, o, b), (b, flip[o], a)):
            if is_len_of_x(p) and expr_eq(facts, q, n) and oo in ('Ge', 'Gt', 'Eq'):
                return 'guarded: a comparison that holds at the call gives len >= the split position'
    # the split position is a count of elements of x itself: `x.iter().<adaptors>.count()` where every adaptor yields at most as
    # many elements as its source (a subsequence or an element-wise image of it), so the count cannot exceed x.len()
    SHRINKING = ('take_while', 'filter', 'skip_while', 'take', 'skip', 'map', 'filter_map', 'map_while', 'step_by', 'inspect', 'enumerate',
                 'copied', 'cloned', 'peekable', 'fuse', 'rev')
    e = _hirq.resolve_expr(B, n)
    if e['k'] == 'MethodCall' and e['name'] == 'count' and not e['args'] and (e.get('callee') or '') == 'core::iter::traits::iterator::Iterator::count':
        e = _hirq.peel_refs(e['recv'])
        while e['k'] == 'MethodCall' and e['name'] in SHRINKING and (e.get('callee') or '').startswith('core::iter::traits::iterator::Iterator::'):
            e = _hirq.peel_refs(e['recv'])
        if e['k'] == 'MethodCall' and e['name'] in ('iter', 'into_iter') and not e['args'] and expr_eq(facts, e['recv'], x):
            return 'the split position counts elements of the split slice itself (iter() through adaptors that never lengthen the sequence): it is <= len'
    return None


def guarded_range_index(facts, body_path, sp):
    """D9: `x[a..]`, `x[..b]`, `x[a..b]` with literal bounds on a slice panics exactly when a bound exceeds x.len() (or a > b), `x[k]`
    with a literal k exactly when k >= x.len().  Discharged when, on every path of the enclosing closure / function body that the abstract interpreter enumerates up to the
    indexing, the path condition at that point gives len(x) >= the largest bound - for the very slice value x that is indexed
    (same term; a slice behind a shared reference does not change):
      * `x.get(r)` was found to be Some for a range r with a literal bound >= it (std: get(range) answers Some exactly when the
        range lies within the slice, so `a <= b <= len`), or `x.get(k)` Some for an index k >= bound - 1 (Some exactly when k < len);
      * x itself is the sub-slice a `get(a..b)` / `get(..b)` answered: it has exactly b - a elements;
      * comparisons of x.len() with literals (absx.length_facts).
    However the guard is spelled (`get(..2).ok_or(e)?`, `let Some(h) = x.get(..2) else { return }`, a `match`, `if x.len() < 2 {
    return }`), it ends up as one of these facts on the paths that go on.  A path the interpreter cannot enumerate, an index
    that is never reached, a bound that is not a literal: not discharged."""
    import absx
    rec = hir_owner(facts, body_path)
    if rec is None:
        return None
    B = _hirq.Body(facts, rec)
    cands = [n for n in B.nodes if n['k'] == 'Index' and n.get('sp') and
             (list(n['sp'][:5]) == list(sp[:5]) or (n['sp'][0] == sp[0] and n['sp'][3:5] == sp[3:5]))]
    if len(cands) != 1:
        return None
    ix = cands[0]
    idx = _hirq.peel_refs(ix['idx'])
    k0 = _hirq.const_eval(facts, idx)
    if isinstance(k0, int) and not isinstance(k0, bool) and k0 >= 0:
        need = k0 + 1             # `x[k]` panics exactly when k >= x.len()
    elif idx['k'] != 'Struct' or (idx.get('def') or '').rsplit('::', 1)[-1] not in ('Range', 'RangeFrom', 'RangeTo', 'RangeFull'):
        return None
    else:
        bounds = {}
        for fl in idx['fields']:
            v = _hirq.const_eval(facts, fl['e'])
            if not isinstance(v, int) or isinstance(v, bool) or v < 0:
                return None
            bounds[fl['name']] = v
        if 'start' in bounds and 'end' in bounds and bounds['start'] > bounds['end']:
            return None
        need = max(list(bounds.values()) + [0])
        if need == 0:
            return '`x[..]` / `x[0..]` / `x[..0]`: within every slice'
    if not any(n.get('k') == 'MethodCall' and n.get('name') in ('get', 'len', 'is_empty') for n in B.nodes):
        return None               # (no length test of any kind in the body: nothing to read, the interpretation is not even tried)
    seen = []
    class Probe(absx.Interp):
        def ev_Index(self, e, st):
            if e is ix:
                res, _abn = self.seq([e['e']], st)
                for (a,), s_ in res:
                    seen.append((a, s_.pc))
            return absx.Interp.ev_Index(self, e, st)
    encl = [a for a, _r in B.context(ix) if a['k'] == 'Closure']
    I = Probe(facts, B, combinators=True)
    try:
        if encl:
            cl = encl[-1]
            I.apply_closure(('closure', cl['def']), [('param', 'arg#%d' % i) for i in range(len(cl['params']))], absx.St({}), cl)
        else:
            I.run()
    except absx.TooManyPaths:
        return None
    if not seen:
        return None
    def lit_int(t):
        return t is not None and t[0] == 'lit' and isinstance(t[1], int) and not isinstance(t[1], bool)
    def have(x, pc):
        fl = absx.length_facts(pc, x)
        h = fl[0] if fl is not None else 0
        if x[0] == 'variant' and x[2] == 'Some' and x[3] == 0 and x[1][0] == 'call' and x[1][1] == 'core::slice::<impl [T]>::get' and len(x[1][2]) == 2:
            # x is the sub-slice `y.get(a..b)` / `y.get(..b)` answered: it has exactly b - a elements
            rv = absx.range_value(x[1][2][1])
            if rv is not None and rv[0] in ('Range', 'RangeTo') and lit_int(rv[2]) and (rv[1] is None or lit_int(rv[1])):
                h = max(h, rv[2][1] - (rv[1][1] if rv[1] is not None else 0))
        for a, t in pc:
            if not (t and a[0] == 'is' and a[2] == 'Some' and a[1][0] == 'call' and a[1][1] == 'core::slice::<impl [T]>::get' and len(a[1][2]) == 2 and a[1][2][0] == x):
                continue
            k = a[1][2][1]
            rv = absx.range_value(k)
            if rv is not None and rv[0] in ('Range', 'RangeFrom', 'RangeTo'):
                for bnd in rv[1:]:
                    if bnd is not None and bnd[0] == 'lit' and isinstance(bnd[1], int) and not isinstance(bnd[1], bool):
                        h = max(h, bnd[1])
            elif k[0] == 'lit' and isinstance(k[1], int) and not isinstance(k[1], bool):
                h = max(h, k[1] + 1)
        return h
    for x, pc in seen:
        if absx.leaves(x, lambda z: z[0] in ('unk', 'unbound')) or have(x, pc) < need:
            return None
    return 'guarded: on each of the %d enumerated paths to the indexing the path condition gives len >= %d (a `get` of the same slice that was Some / a length comparison)' % (len(seen), need)
