"""F1 / F1r: panic-source cone and recursion over the MIR call graph (DESIGN.md section 4)."""
import os, re, collections
from facts import AnchorMissing

# External callees that may panic although std does not mark them #[track_caller], and callees marked
# #[track_caller] that were reviewed as not panicking for any argument the cone can pass.  Frozen, explicit.
# matched by suffix of the resolved callee path
MAY_PANIC_EXTRA = {
    'Buf>::advance': 'panics when cnt > remaining',
    'Buf::advance': 'panics when cnt > remaining',
    'BytesMut::split_to': 'panics when at > len',
    'BytesMut::split_off': 'panics when at > capacity',
    'Runtime::block_on': 'panics inside a runtime',
    'tokio::task::spawn::spawn': 'panics outside a runtime',
}
NO_PANIC_REVIEWED = {
    # #[track_caller] only to capture a Location / improve messages; no argument-dependent panic
    'log::__private_api::loc': 'captures the caller Location for the log record',
    'core::convert::Into::into': 'blanket impl forwarding to From::from, which is followed as an edge (via_from)',
    'core::ops::try_trait::FromResidual::from_residual': 'the `?` operator: #[track_caller] only for error provenance; converts the error with From (thiserror-generated impls here)',
}
ASSERT_IGNORED = ('ResumedAfterReturn', 'ResumedAfterPanic', 'ResumedAfterDrop',
                  'MisalignedPointerDereference', 'NullPointerDereference', 'InvalidEnumConstruction')

class Source:
    def __init__(self, fn, kind, callee, label, loc, macro):
        self.fn, self.kind, self.callee, self.label, self.loc, self.macro = fn, kind, callee, label, loc, macro
    @property
    def key(self):
        return '%s | %s | %s | %s' % (self.fn, self.kind, self.callee, self.label)

class Graph:
    def __init__(self, facts, repo):
        self.facts = facts
        self.repo = repo
        self.mir = facts.mir
        self._src = {}
        self._names = {}
        # trait method -> local impl bodies
        self.trait_impls = collections.defaultdict(list)
        for it in facts.items_all:
            if it.get('kind') == 'AssocFn' and it.get('impl_trait_def'):
                name = it['path'].rsplit('::', 1)[-1]
                self.trait_impls[(it['impl_trait_def'], name)].append(it['path'])
        self.edges = {}
        self.ext = {}
        for path, m in self.mir.items():
            self.edges[path], self.ext[path] = self._scan(m)

    # -------------------------------------------------------------- source text
    def local_names(self, body_path):
        """Names of the local variables / parameters of the HIR owner of a MIR body (closures and coroutine
        bodies live inside their enclosing fn's HIR).  Used to alpha-normalise labels: a key must not change
        when a local is renamed."""
        if body_path in self._names:
            return self._names[body_path]
        owner = body_path
        while owner not in self.facts.hir and '::{' in owner:
            owner = owner.rsplit('::{', 1)[0]
        names = set()
        h = self.facts.hir.get(owner)
        if h is not None:
            def pats(x):
                if isinstance(x, dict):
                    if x.get('k') == 'Bind' and x.get('name'):
                        names.add(x['name'])
                    for v in x.values():
                        pats(v)
                elif isinstance(x, list):
                    for v in x:
                        pats(v)
            pats(h['params'])
            pats(h['body'])
        names.discard('self')
        self._names[body_path] = names
        return names

    def label(self, body_path, sp, limit=90):
        """Source text of the construct with every local variable name replaced by `_` (field names, method
        names, paths, macro names and literals are kept), whitespace removed."""
        t = self.snippet(sp, limit=400, squeeze=False)
        names = self.local_names(body_path)
        if names:
            # string literals are left alone
            parts = re.split(r'("(?:[^"\\]|\\.)*")', t)
            out = []
            for i, part in enumerate(parts):
                if i % 2 == 1:
                    out.append(part)
                else:
                    tt = part
                    def rep2(m, tt=tt):
                        w = m.group(0)
                        if w not in names:
                            return w
                        before = tt[:m.start()].rstrip()
                        after = tt[m.end():].lstrip()
                        if before.endswith('.') and not before.endswith('..'):
                            return w
                        if before.endswith('::') or after.startswith('::') or after.startswith('!'):
                            return w
                        return '_'
                    out.append(re.sub(r'\b[A-Za-z_][A-Za-z0-9_]*\b', rep2, part))
            t = ''.join(out)
        t = re.sub(r'\s+', '', t)
        return t[:limit]

    def snippet(self, sp, limit=90, squeeze=True):
        if not sp or sp[1] is None:
            return ''
        fn = sp[0]
        p = fn if os.path.isabs(fn) else os.path.join(self.repo, fn)
        if p not in self._src:
            try:
                with open(p, encoding='utf-8', errors='replace') as f:
                    self._src[p] = f.read().split('\n')
            except OSError:
                self._src[p] = None
        lines = self._src[p]
        if lines is None:
            return ''
        l1, c1, l2, c2 = sp[1], sp[2], sp[3], sp[4]
        if l1 == l2:
            t = lines[l1 - 1][c1 - 1:c2 - 1]
        else:
            t = lines[l1 - 1][c1 - 1:] + ' ' + ' '.join(lines[l1:l2 - 1]) + ' ' + lines[l2 - 1][:c2 - 1]
        if squeeze:
            t = re.sub(r'\s+', '', t)
        return t[:limit]

    # -------------------------------------------------------------- per-body scan
    def _targets(self, t):
        """local bodies a call terminator / fn reference may enter"""
        outs = []
        c = t.get('inst') or t.get('callee')
        if c in self.mir:
            outs.append(c)
        if (t.get('unresolved') or t.get('virtual')) and t.get('trait'):
            name = (t.get('callee') or '').rsplit('::', 1)[-1]
            outs.extend(self.trait_impls.get((t['trait'], name), []))
        return outs

    def _scan(self, m):
        edges = []   # (target, block index, span)
        ext = []     # (callee, term, block index)
        for b in m['blocks']:
            if b.get('cleanup'):
                continue
            t = b['term']
            for r in b.get('refs', []):
                for tg in self._targets(r):
                    edges.append((tg, b['bb'], t['sp']))
            if t['k'] in ('Call', 'TailCall'):
                tg = self._targets(t)
                if t.get('via_from') in self.mir:
                    tg.append(t['via_from'])
                for x in tg:
                    edges.append((x, b['bb'], t['sp']))
                c = t.get('inst') or t.get('callee')
                if c not in self.mir:
                    ext.append((c, t, b['bb']))
        return edges, ext

    # -------------------------------------------------------------- cone
    def cone(self, entries, regions=None):
        """BFS from entry body paths. regions: {body path: (file, l1, c1, l2, c2)} restricts what is
        considered inside that body to terminators whose span lies in the region.
        Returns (reached {path: parent}, order)."""
        regions = regions or {}
        parent = {}
        q = collections.deque()
        for e in entries:
            if e not in self.mir:
                raise AnchorMissing('cone entry ' + e)
            parent[e] = None
            q.append(e)
        while q:
            p = q.popleft()
            for tg, bb, sp in self.edges[p]:
                if p in regions and not in_region(sp, regions[p]):
                    continue
                if tg not in parent:
                    parent[tg] = p
                    q.append(tg)
        return parent

    def chain(self, parent, p):
        out = []
        while p is not None:
            out.append(p)
            p = parent[p]
        return list(reversed(out))

    def sources(self, parent, regions=None):
        regions = regions or {}
        out = []
        ext_seen = {}
        for p in parent:
            m = self.mir[p]
            reg = regions.get(p)
            for b in m['blocks']:
                if b.get('cleanup'):
                    continue
                t = b['term']
                sp = t['sp']
                if reg and not in_region(sp, reg):
                    continue
                macro = sp[5] if len(sp) > 5 else None
                where = '%s:%d' % (sp[0], sp[1])
                if t['k'] == 'Assert':
                    kind = t['assert']
                    if kind.split('(')[0] in ASSERT_IGNORED or t.get('all_const'):
                        continue
                    if kind in ('Overflow(Shl)', 'Overflow(Shr)') and shift_const_ok(t.get('operands', ''), m.get('local_tys', [])):
                        continue      # shift by a literal smaller than the operand width cannot overflow
                    out.append(Source(p, 'assert', kind, self.label(p, sp), where, macro))
                elif t['k'] in ('Call', 'TailCall'):
                    c = t.get('inst') or t.get('callee')
                    if t.get('diverges'):
                        lab = (macro or '') + ':' + self.label(p, sp)
                        if macro and macro.startswith('desugar'):
                            lab = self.label(p, sp)
                        out.append(Source(p, 'diverging-call', short(c), lab, where, macro))
                        continue
                    if c in self.mir:
                        continue
                    cls = self.classify(c, t)
                    ext_seen[c] = cls
                    if cls[0] == 'may-panic':
                        lab = self.label(p, t.get('fn_sp') or sp)
                        if '{' in lab:
                            lab = lab[:lab.index('{') + 1]      # a closure / async block argument: its text is not part of the key
                        out.append(Source(p, 'may-panic-call', short(c), lab, where, macro))
        return out, ext_seen

    def classify(self, c, t):
        for k, why in NO_PANIC_REVIEWED.items():
            if c == k or (t.get('callee') == k):
                return ('reviewed-safe', why)
        for k, why in MAY_PANIC_EXTRA.items():
            if c and c.endswith(k):
                return ('may-panic', why)
        if t.get('track_caller'):
            return ('may-panic', '#[track_caller]')
        if t.get('indirect'):
            return ('indirect', 'call through a function pointer / opaque value')
        return ('assumed-no-panic', 'external, not #[track_caller], not in the may-panic table')

    # -------------------------------------------------------------- recursion (F1r)
    def sccs(self, nodes):
        """Tarjan over the sub-graph induced by `nodes`; returns list of SCCs that contain a cycle."""
        index = {}
        low = {}
        stack, onstack = [], set()
        res = []
        counter = [0]
        import sys
        sys.setrecursionlimit(10000)
        def adj(v):
            return {tg for tg, _, _ in self.edges[v] if tg in nodes}
        def strong(v):
            index[v] = low[v] = counter[0]; counter[0] += 1
            stack.append(v); onstack.add(v)
            for w in adj(v):
                if w not in index:
                    strong(w)
                    low[v] = min(low[v], low[w])
                elif w in onstack:
                    low[v] = min(low[v], index[w])
            if low[v] == index[v]:
                comp = []
                while True:
                    w = stack.pop(); onstack.discard(w); comp.append(w)
                    if w == v:
                        break
                if len(comp) > 1 or v in adj(v):
                    res.append(sorted(comp))
        for v in nodes:
            if v not in index:
                strong(v)
        return res


def shift_const_ok(operands, local_tys):
    m = re.search(r'const (\d+)_[iu](\d+|size)\s*$', operands.strip())
    if not m:
        return False
    amount = int(m.group(1))
    width = 8
    l = re.match(r'(?:copy|move) _(\d+)\b', operands.strip())
    if l and int(l.group(1)) < len(local_tys):
        w = re.match(r'[iu](\d+)$', local_tys[int(l.group(1))])
        if w:
            width = int(w.group(1))
    return amount < width

def in_region(sp, reg):
    if sp[0] != reg[0]:
        return False
    a = (sp[1], sp[2])
    return (reg[1], reg[2]) <= a <= (reg[3], reg[4])

def short(c):
    if c is None:
        return '?'
    c = re.sub(r'::<[^<>]*(<[^<>]*>)*[^<>]*>', '', c)
    return c

def group_keys(sources):
    """key -> (count, first source); the reported key carries the multiplicity."""
    g = collections.OrderedDict()
    for s in sources:
        g.setdefault(s.key, []).append(s)
    out = []
    for k, lst in g.items():
        out.append(('%s x%d' % (k, len(lst)), lst))
    return out

def load_triage(path):
    t = {}
    if not os.path.exists(path):
        return t
    with open(path) as f:
        for line in f:
            line = line.rstrip('\n')
            if not line or line.startswith('#'):
                continue
            parts = line.split('\t')
            if len(parts) >= 3:
                t[parts[0]] = (parts[1], parts[2])
    return t
