"""The text a `core::fmt::Arguments` value stands for - what `write!` / `writeln!` / `format!` / `format_args!` write - computed from
the typed HIR of the macro's expansion, when every formatted argument is a literal.

How the expansion looks (rustc's format_args lowering, read from the facts; the encoding is documented at `core::fmt::Arguments`):

    Arguments::from_str("text")                                  no placeholder: the text itself
    Arguments::new(&TEMPLATE, &[Argument::new_<trait>(&x), ..])  TEMPLATE: a byte string, the concatenation of
        n (1..=0x7f), n octets            a literal piece of n octets (UTF-8)
        0x80, n (u16 LE), n octets        a longer literal piece
        0b11pw_iPWF, [flags u32 LE if F], [width u16 LE if W], [precision u16 LE if P], [arg index u16 LE if i]
                                          a placeholder; w / p: the width / precision field is the index of a `from_usize` argument
                                          that holds it; without i the argument after the previous placeholder's; without F / W / P the
                                          defaults (fill ' ', alignment unset, no flags, no width, no precision)
        0                                 the end
    flags (`FormattingOptions::flags`): bits 0..20 the fill character, 21 `+`, 22 `-`, 23 `#`, 24 `0`, 25 / 26 `x?` / `X?`,
        27 width is set, 28 precision is set, 29..30 alignment (0 `<`, 1 `>`, 2 `^`, 3 unset).
    `fmt::write` walks the template in order, writes the pieces and calls each argument's trait method with its options.

What the trait methods write, for the argument types modelled here (library/core/src/fmt/{mod,num}.rs):
    integers    Display: the decimal digits of |v|, non-negative iff v >= 0, no prefix.  LowerHex / UpperHex / Octal / Binary: the digits of v
                taken as the unsigned integer of its type's width (two's complement), lower / upper case a-f, "non-negative", prefix
                0x / 0x / 0o / 0b.  Debug: LowerHex with flag `x?`, UpperHex with `X?`, else Display.  All end in
                `Formatter::pad_integral(nonneg, prefix, digits)`:  sign = '-' if negative, '+' if flag `+`, else none; the prefix only with flag `#`;
                n = len(digits) + len(sign) + len(prefix);  n >= width (an unset width is 0): sign prefix digits;  else with flag `0`: sign prefix, width - n
                zeros, digits (fill and alignment are ignored);  else width - n fill characters placed by the alignment (unset = right: all before;
                left: all after; centre: floor half before), around sign prefix digits.  The precision is not looked at.
    str, char, bool     Display (of a bool: "true" / "false"; of a char: the one-character string): `Formatter::pad(s)`: s cut to its first
                `precision` characters if a precision is set; if it then has fewer characters than the width, width - count fill characters placed by the
                alignment (unset = left).  The flags + # 0 are not looked at.
Anything else - another trait (`e`, `p`, Debug of text), another type, an argument or a width that is not a literal, a template that does not parse -
is Unreadable: the caller must treat the write as one it has no model of (fail closed).

(While this model was written it was compared once with what std prints: 82 format strings - every flag, fill, alignment, width / precision given
literally, by position and by name, explicit argument indices, all the traits above - as the fact extractor presents their templates, over every u8 and
i8 value and samples of i32 / u64 / usize / str / char / bool: no difference.  That comparison is not part of any check.)"""

ARG_NEW = "core::fmt::rt::Argument::<'_>::new_"
ARG_COUNT = "core::fmt::rt::Argument::<'_>::from_usize"
ARGS_NEW = "core::fmt::Arguments::<'a>::new"
ARGS_STR = "core::fmt::Arguments::<'a>::from_str"
FORMAT = 'alloc::fmt::format'
TRAITS = {'display': 'Display', 'debug': 'Debug', 'lower_hex': 'LowerHex', 'upper_hex': 'UpperHex', 'octal': 'Octal', 'binary': 'Binary',
          'lower_exp': 'LowerExp', 'upper_exp': 'UpperExp', 'pointer': 'Pointer'}

F_PLUS, F_MINUS, F_ALT, F_ZERO, F_DBG_LX, F_DBG_UX, F_WIDTH, F_PREC = (1 << k for k in range(21, 29))
A_LEFT, A_RIGHT, A_CENTER, A_UNSET = range(4)
DEFAULT_FLAGS = 0x20 | (A_UNSET << 29)           # FormattingOptions::new(): fill ' ', alignment unset, nothing else

INT_BITS = {'u8': 8, 'u16': 16, 'u32': 32, 'u64': 64, 'u128': 128, 'i8': 8, 'i16': 16, 'i32': 32, 'i64': 64, 'i128': 128, 'usize': None, 'isize': None}
RADIX = {'LowerHex': (16, '0123456789abcdef', '0x'), 'UpperHex': (16, '0123456789ABCDEF', '0x'), 'Octal': (8, '01234567', '0o'), 'Binary': (2, '01', '0b')}


class Unreadable(Exception):
    pass


def parse_template(tpl):
    """the parts of a template: ('text', bytes) | ('arg', flags, width, precision, index or None, width is an argument index?, precision is one?)"""
    parts, i, n = [], 0, len(tpl)
    def take(k):
        nonlocal i
        if i + k > n:
            raise Unreadable('the template ends inside a part')
        b = tpl[i:i + k]; i += k
        return b
    while True:
        h = take(1)[0]
        if h == 0:
            if i != n:
                raise Unreadable('octets after the end of the template')
            return parts
        if h < 0x80:
            parts.append(('text', bytes(take(h))))
        elif h == 0x80:
            parts.append(('text', bytes(take(int.from_bytes(take(2), 'little')))))
        elif h >= 0xc0:
            flags = int.from_bytes(take(4), 'little') if h & 1 else DEFAULT_FLAGS
            width = int.from_bytes(take(2), 'little') if h & 2 else 0
            prec = int.from_bytes(take(2), 'little') if h & 4 else 0
            index = int.from_bytes(take(2), 'little') if h & 8 else None
            if (h & 16 and not h & 2) or (h & 32 and not h & 4) or flags >> 31 or (flags & 0x1fffff) > 0x10ffff or 0xd800 <= (flags & 0x1fffff) <= 0xdfff:
                raise Unreadable('a placeholder that the encoding does not allow')
            # a width / precision field comes with its 'is set' flag (`pad` reads the flag, `pad_integral` the field); the flag alone is a
            # width / precision of 0 (rustc_ast_lowering: "only encode if nonzero; zero is the default")
            if (h & 2 and not flags & F_WIDTH) or (h & 4 and not flags & F_PREC):
                raise Unreadable('width / precision field and flag disagree')
            parts.append(('arg', flags, width, prec, index, bool(h & 16), bool(h & 32)))
        else:
            raise Unreadable('template octet 0x%02x' % h)


def pad(text, n_chars, width, flags, default_align):
    """`Formatter::padding` + `PostPadding::write`: width - n_chars fill characters around text, placed by the alignment"""
    if n_chars >= width:
        return text
    fill = chr(flags & 0x1fffff).encode('utf-8')
    align = (flags >> 29) & 3
    if align == A_UNSET:
        align = default_align
    k = width - n_chars
    left = {A_LEFT: 0, A_RIGHT: k, A_CENTER: k // 2}[align]
    return fill * left + text + fill * (k - left)


def int_type(ty):
    ty = (ty or '').strip()
    while ty.startswith('&'):
        ty = ty[1:].lstrip()
        if ty.startswith('mut '):
            ty = ty[4:].lstrip()
    return ty


def format_value(trait, ty, v, flags, width, prec):
    """the octets `<ty as trait>::fmt(&v, f)` writes, f with the given options (see the module comment)"""
    ty = int_type(ty)
    if ty in INT_BITS and isinstance(v, int) and not isinstance(v, bool):
        if trait == 'Debug':
            trait = 'LowerHex' if flags & F_DBG_LX else 'UpperHex' if flags & F_DBG_UX else 'Display'
        bits = INT_BITS[ty]
        signed = ty.startswith('i')
        if bits is not None and not (-(1 << (bits - 1)) <= v < (1 << (bits - 1)) if signed else 0 <= v < (1 << bits)):
            raise Unreadable('%d is not a value of %s' % (v, ty))
        if v < 0 and not signed:
            raise Unreadable('%d is not a value of %s' % (v, ty))
        if trait == 'Display':
            nonneg, prefix, digits = v >= 0, '', str(abs(v))
        elif trait in RADIX:
            base, tab, prefix = RADIX[trait]
            if v < 0:
                if bits is None:
                    raise Unreadable('a negative isize in a radix: its width is the target\'s')
                v += 1 << bits
            nonneg, digits = True, ''
            while True:
                digits = tab[v % base] + digits
                v //= base
                if v == 0:
                    break
        else:
            raise Unreadable('%s of an integer' % trait)
        # Formatter::pad_integral
        sign = '' if nonneg and not flags & F_PLUS else '+' if nonneg else '-'
        head = (sign + (prefix if flags & F_ALT else '')).encode()
        n = len(head) + len(digits)
        if n >= width:
            return head + digits.encode()
        if flags & F_ZERO:
            return head + b'0' * (width - n) + digits.encode()
        return pad(head + digits.encode(), n, width, flags, A_RIGHT)
    if trait == 'Display' and ((ty == 'bool' and isinstance(v, bool)) or (ty == 'char' and isinstance(v, str) and len(v) == 1)
                               or (ty in ('str', 'alloc::string::String') and isinstance(v, str))):
        s = ('true' if v else 'false') if ty == 'bool' else v
        # Formatter::pad (for a char without width and precision `write_char`: the same octets)
        if flags & F_PREC:
            s = s[:prec]
        return pad(s.encode('utf-8'), len(s), width if flags & F_WIDTH else 0, flags, A_LEFT)
    raise Unreadable('%s of %s' % (trait, ty or 'an unknown type'))


def render(tpl, args):
    """the octets `fmt::write` writes for the template and the argument list ([('fmtarg', trait or 'count', type, value term)])"""
    out, nxt = b'', 0
    def arg(k, want_count):
        if not 0 <= k < len(args) or args[k][0] != 'fmtarg' or (args[k][1] == 'count') != want_count:
            raise Unreadable('argument %d' % k)
        v = args[k][3]
        if not (isinstance(v, tuple) and len(v) == 2 and v[0] == 'lit'):
            raise Unreadable('argument %d is not a literal' % k)
        return args[k][1], args[k][2], v[1]
    def count(k):
        v = arg(k, True)[2]
        if not (isinstance(v, int) and not isinstance(v, bool) and 0 <= v <= 0xffff):      # from_usize panics above u16::MAX
            raise Unreadable('a width / precision that is not a literal in 0..=65535')
        return v
    for p in parse_template(bytes(tpl)):
        if p[0] == 'text':
            out += p[1]
            continue
        _k, flags, width, prec, index, wi, pi = p
        if index is not None:
            nxt = index
        if wi:
            width = count(width)
        if pi:
            prec = count(prec)
        trait, ty, v = arg(nxt, False)
        out += format_value(trait, ty, v, flags, width, prec)
        nxt += 1
    return out


def text_of(t):
    """the octets an Arguments term stands for (as evaluated under `summary`), or None"""
    return t[1] if isinstance(t, tuple) and len(t) == 2 and t[0] == 'fmtargs' and isinstance(t[1], bytes) else None


def summary(I, cal, args, node, st):
    """absx summary (opt-in: list it in an interpreter's summaries).  Pure rewrites, each the definition of the std function:
      Argument::new_<trait>(&x)      ('fmtarg', trait, type of x, x)      from_usize(&n)   ('fmtarg', 'count', 'usize', n)
      Arguments::from_str(s)         ('fmtargs', the octets of s)
      Arguments::new(tpl, args)      ('fmtargs', octets) when the template and every argument are read (else left opaque: no model)
      alloc::fmt::format(a)          the String holding those octets ("takes an Arguments struct and returns the resulting formatted string")
      core::hint::must_use(x)        x   (the identity; `format!` wraps its result in it)"""
    import absx
    val = lambda v: [absx.Out('val', v, st)]
    if cal.startswith(ARG_NEW) and len(args) == 1 and cal[len(ARG_NEW):] in TRAITS:
        targs = (node.get('targs') or '').strip('[]').split(',', 1)          # "['_, u8]": the lifetime, then the argument's type
        ty = targs[1].strip() if len(targs) == 2 else ''
        return val(('fmtarg', TRAITS[cal[len(ARG_NEW):]], ty, args[0]))
    if cal == ARG_COUNT and len(args) == 1:
        return val(('fmtarg', 'count', 'usize', args[0]))
    if cal == ARGS_STR and len(args) == 1 and args[0][0] == 'lit' and isinstance(args[0][1], str):
        return val(('fmtargs', args[0][1].encode('utf-8')))
    if cal == ARGS_NEW and len(args) == 2 and args[0][0] == 'lit' and isinstance(args[0][1], bytes) and args[1][0] == 'array':
        try:
            return val(('fmtargs', render(args[0][1], list(args[1][1]))))
        except Unreadable:
            return None
    if cal == FORMAT and len(args) == 1 and text_of(args[0]) is not None:
        return val(('lit', text_of(args[0]).decode('utf-8')))
    if cal == 'core::hint::must_use' and len(args) == 1:
        return val(args[0])
    return None
