"""Query helpers over the typed HIR facts: binding definitions, data origin (F4), control
context and ordering (F5), constant evaluation, select!-arm discovery, who-may-touch (F10)."""
from facts import walk, children, is_node, callee_of, call_args, loc, macro_of, AnchorMissing

# ---------------------------------------------------------------------------------------
# patterns

def pat_bindings(p, proj=()):
    """Yield (bind_id, name, proj, patnode) for every binding of pattern p; proj is the
    projection path from the matched value to the binding."""
    if p is None:
        return
    k = p.get('k')
    if k == 'Bind':
        yield p['bind'], p['name'], proj, p
        if 'sub' in p:
            yield from pat_bindings(p['sub'], proj)
    elif k == 'PTuple':
        for i, x in enumerate(p['pats']):
            yield from pat_bindings(x, proj + (('tup', i),))
    elif k == 'PTupleStruct':
        d = variant_name(p)
        struct = 'Struct' in (p.get('defkind') or '')
        for i, x in enumerate(p['pats']):
            yield from pat_bindings(x, proj + ((('tup', i),) if struct else (('variant', d, i),)))
    elif k == 'PStruct':
        d = variant_name(p)
        for f in p['fields']:
            yield from pat_bindings(f['pat'], proj + (('vfield', d, f['name']),))
    elif k in ('PRef', 'PBox', 'PDeref', 'PGuard'):
        yield from pat_bindings(p['pat'], proj)
    elif k == 'POr':
        for x in p['pats']:
            yield from pat_bindings(x, proj)
    elif k == 'PSlice':
        for i, x in enumerate(p['before']):
            yield from pat_bindings(x, proj + (('idx', i),))
        if p.get('mid'):
            yield from pat_bindings(p['mid'], proj + (('rest',),))
        for i, x in enumerate(p['after']):
            yield from pat_bindings(x, proj + (('ridx', i),))

def variant_name(p):
    """Last path segment(s) of a struct/tuple-struct pattern or constructor: `Some`, `LdapOp::Search`."""
    return short_def(adt_path(p))

def adt_path(p):
    """The def-path a struct / tuple-struct pattern or struct expression names.  `Self { .. }` resolves to the impl it is written in
    (res 'selfty'), not to an item: there it is the struct the node's own type names - `Self` with braces is a struct (an enum's
    variants are `Self::V { .. }`, which resolve to the variant) -, so that `Self { a, .. }` and `Name { a, .. }` are the same."""
    if p.get('res') == 'selfty' and p.get('k') in ('PStruct', 'Struct') and p.get('ty'):
        t = strip_refs(str(p['ty'])).split('<', 1)[0]
        if t and not t.startswith('<'):
            return t
    return p.get('ctor_of') or p.get('def') or p.get('text') or '?'

def short_def(d):
    segs = d.split('::')
    if segs[-1] in ('Some', 'None', 'Ok', 'Err'):
        return segs[-1]
    return '::'.join(segs[-2:]) if len(segs) >= 2 else d

def pat_variant(p):
    """For patterns that test a variant: its short name (through refs), else None."""
    k = p.get('k')
    if k in ('PTupleStruct', 'PStruct'):
        return variant_name(p)
    if k == 'PExpr' and p['e'].get('k') == 'PPath':
        return short_def(p['e'].get('ctor_of') or p['e'].get('def') or p['e'].get('text', '?'))
    if k in ('PRef', 'PBox', 'PDeref'):
        return pat_variant(p['pat'])
    return None

def pat_lits(p):
    """Set of literal values a pattern tests (Or-patterns flattened); None if not purely literal."""
    k = p.get('k')
    if k == 'PExpr' and p['e'].get('k') == 'PLit':
        v = p['e'].get('v')
        if isinstance(v, list):
            v = bytes(v)
        return {v}
    if k == 'POr':
        s = set()
        for x in p['pats']:
            r = pat_lits(x)
            if r is None:
                return None
            s |= r
        return s
    if k == 'PRange':
        lo, hi = p.get('lo'), p.get('hi')
        if lo and hi and lo.get('k') == 'PLit' and hi.get('k') == 'PLit' and isinstance(lo.get('v'), int):
            end = hi['v'] + (1 if 'Included' in p.get('end', '') else 0)
            return set(range(lo['v'], end))
    return None

# ---------------------------------------------------------------------------------------
# Body index: binding definitions, parents, pre-order numbering

class Body:
    def __init__(self, facts, rec):
        self.facts = facts
        self.rec = rec
        self.path = rec['path']
        self.root = rec['body']
        self.defs = {}      # bind id -> dict(kind, proj, src, node, name, pat)
        self.assigns = {}   # bind id -> [Assign/AssignOp nodes whose lhs root is that local]
        self.order = {}     # node id(obj) -> preorder index
        self.ctx = {}       # id(node) -> ctx tuple
        self.nodes = []
        self.by_id = {}
        for i, p in enumerate(rec['params']):
            for b, name, proj, pn in pat_bindings(p):
                self.defs[b] = dict(kind='param', idx=i, proj=proj, src=None, node=None, name=name, pat=pn)
        self._index(self.root)

    def _index(self, root):
        for n, ctx in walk(root):
            self.order[id(n)] = len(self.nodes)
            self.nodes.append(n)
            self.ctx[id(n)] = ctx
            if n.get('id') is not None and n['k'] not in ('Block',):
                self.by_id.setdefault(n['id'], n)
            k = n['k']
            if k == 'Block':
                for s in n['stmts']:
                    if s['k'] == 'Let':
                        for b, name, proj, pn in pat_bindings(s['pat']):
                            self.defs[b] = dict(kind='let', proj=proj, src=s.get('init'), node=s, name=name, pat=pn)
            elif k == 'Match':
                for ai, a in enumerate(n['arms']):
                    for b, name, proj, pn in pat_bindings(a['pat']):
                        self.defs[b] = dict(kind='arm', proj=proj, src=n['scrut'], node=n, arm=ai, name=name, pat=pn)
            elif k == 'LetExpr':
                for b, name, proj, pn in pat_bindings(n['pat']):
                    self.defs[b] = dict(kind='letexpr', proj=proj, src=n['init'], node=n, name=name, pat=pn)
            elif k == 'For':
                for b, name, proj, pn in pat_bindings(n['pat']):
                    self.defs[b] = dict(kind='for', proj=proj, src=n['iter'], node=n, name=name, pat=pn)
            elif k == 'Closure':
                for i, p in enumerate(n['params']):
                    for b, name, proj, pn in pat_bindings(p):
                        self.defs[b] = dict(kind='cparam', idx=i, proj=proj, src=None, node=n, name=name, pat=pn)
            elif k in ('Assign', 'AssignOp'):
                r = root_local(n['l'])
                if r is not None:
                    self.assigns.setdefault(r, []).append(n)

    def context(self, n):
        return self.ctx[id(n)]

    def before(self, a, b):
        return self.order[id(a)] < self.order[id(b)]

    def param_bind(self, name):
        for b, d in self.defs.items():
            if d['kind'] == 'param' and d['name'] == name:
                return b
        raise AnchorMissing('parameter %s of %s' % (name, self.path))

    # ------------------------------------------------------------------ F4 origins
    def origin(self, e, depth=0):
        """Data origin of expression e as (root, path).  root is one of
             ('param', name) ('cparam', closure def, idx) ('lit', v) ('const', def) ('call', callee, nodeid)
             ('for', origin-of-iter) ('tuple', (origins...)) ('struct', def, {field: origin}) ('phi', (origins...))
             ('mut', bind, name) ('expr', kind, id)
           and path a tuple of projections ('field', name) ('tup', i) ('variant', V, i) ('vfield', V, f)
           ('try',) ('await',) ('cast', ty) ('index',)."""
        if depth > 60:
            return (('expr', 'deep', e.get('id')), ())
        k = e['k']
        if k == 'Path':
            if e.get('res') == 'local':
                return self.origin_of_bind(e['bind'], depth + 1)
            d = e.get('inst') or e.get('def')
            return (('const', e.get('ctor_of') or d), ())
        if k == 'Field':
            r, p = self.origin(e['e'], depth + 1)
            name = e['name']
            if name.isdigit():
                return project((r, p), ('tup', int(name)))
            return project((r, p), ('field', name))
        if k in ('AddrOf',):
            return self.origin(e['e'], depth + 1)
        if k == 'Unary' and e.get('op') == 'Deref':
            return self.origin(e['e'], depth + 1)
        if k == 'Cast':
            r, p = self.origin(e['e'], depth + 1)
            return (r, p + (('cast', e.get('ty')),))
        if k == 'Lit':
            v = e.get('v')
            if isinstance(v, list):
                v = bytes(v)
            return (('lit', v), ())
        if k == 'Tup':
            return (('tuple', tuple(self.origin(x, depth + 1) for x in e['elems'])), ())
        if k == 'Try':
            r, p = self.origin(e['e'], depth + 1)
            return (r, p + (('try',),))
        if k == 'Await':
            r, p = self.origin(e['e'], depth + 1)
            return (r, p + (('await',),))
        if k == 'Block':
            if e.get('expr') is not None:
                return self.origin(e['expr'], depth + 1)
            return (('lit', ()), ())
        if k in ('MethodCall', 'Call'):
            cal = callee_of(e) or ''
            if is_transparent(cal):
                args = call_args(e)
                if args:
                    return self.origin(args[0], depth + 1)
            if e['k'] == 'Call' and e['f'].get('k') == 'Path' and e['f'].get('defkind', '').startswith('Ctor'):
                v = short_def(e['f'].get('ctor_of') or e['f'].get('def'))
                return (('ctor', v, tuple(self.origin(x, depth + 1) for x in e['args'])), ())
            return (('call', cal, e.get('id')), ())
        if k == 'Struct':
            return (('struct', e.get('def'), e.get('id')), ())
        if k == 'If':
            brs = [e['then']] + ([e['els']] if e.get('els') is not None else [])
            alts = [self.origin(b, depth + 1) for b in brs if not diverges(b)]
            if len(alts) == 1:
                return alts[0]
            return (('phi', tuple(alts)), ())
        if k == 'Match':
            alts = [self.origin(a['body'], depth + 1) for a in e['arms'] if not diverges(a['body'])]
            if len(alts) == 1:
                return alts[0]
            return (('phi', tuple(alts)), ())
        if k == 'Index':
            r, p = self.origin(e['e'], depth + 1)
            return (r, p + (('index',),))
        return (('expr', k, e.get('id')), ())

    def roots(self, o, depth=0, seen=None, stop=()):
        """Leaf roots an origin depends on: follows tuples, constructors, phis, call arguments,
        struct literals and every assignment of a mutable local."""
        seen = seen if seen is not None else set()
        r, p = o
        out = set()
        if depth > 40:
            return {('deep',)}
        if r in stop:
            return {r}
        k = r[0]
        if k in ('tuple', 'phi'):
            for x in r[1]:
                out |= self.roots(x, depth + 1, seen, stop)
        elif k == 'ctor':
            for x in r[2]:
                out |= self.roots(x, depth + 1, seen, stop)
        elif k == 'for':
            out |= self.roots(r[1], depth + 1, seen, stop)
        elif k == 'call':
            n = self.by_id.get(r[2])
            if n is None or (r[2] in seen):
                out.add(r)
            else:
                seen.add(r[2])
                args = call_args(n)
                if not args:
                    out.add(r)
                for a in args:
                    out |= self.roots(self.origin(a), depth + 1, seen, stop)
        elif k == 'struct':
            n = self.by_id.get(r[2])
            if n is None:
                out.add(r)
            else:
                for f in n['fields']:
                    out |= self.roots(self.origin(f['e']), depth + 1, seen, stop)
                if not n['fields']:
                    out.add(r)
        elif k == 'mut':
            b = r[1]
            if b in seen:
                return out
            seen.add(b)
            d = self.defs.get(b)
            if d and d.get('src') is not None:
                o2 = self.origin(d['src'])
                for pr in d['proj']:
                    o2 = project(o2, pr)
                out |= self.roots(o2, depth + 1, seen, stop)
            for a in self.assigns.get(b, []):
                if a['k'] == 'Assign':
                    out |= self.roots(self.origin(a['r']), depth + 1, seen, stop)
                else:
                    out |= self.roots(self.origin(a['r']), depth + 1, seen, stop)
        else:
            out.add(r)
        return out

    def origin_of_bind(self, b, depth=0):
        d = self.defs.get(b)
        if d is None:
            return (('unknown-bind', b), ())
        if b in self.assigns and any(root_is_whole(a['l']) for a in self.assigns[b]):
            return (('mut', b, d['name']), ())
        kind = d['kind']
        if kind == 'param':
            o = (('param', d['name']), ())
        elif kind == 'cparam':
            o = (('cparam', d['node'].get('def'), d['idx']), ())
        elif kind == 'for':
            o = (('for', self.origin(d['src'], depth + 1)), ())
        elif d['src'] is None:
            return (('uninit', b, d['name']), ())
        else:
            o = self.origin(d['src'], depth + 1)
        for pr in d['proj']:
            o = project(o, pr)
        return o


def project(o, pr):
    """Apply a projection to an origin, simplifying through tuple / ctor literals."""
    r, p = o
    if not p:
        if r[0] == 'tuple' and pr[0] == 'tup' and pr[1] < len(r[1]):
            return r[1][pr[1]]
        if r[0] == 'ctor' and pr[0] == 'variant' and pr[1] == r[1] and pr[2] < len(r[2]):
            return r[2][pr[2]]
        if r[0] == 'phi':
            return (('phi', tuple(project(x, pr) for x in r[1])), ())
    return (r, p + (pr,))

TRANSPARENT_SUFFIX = (
    '::clone', '::to_owned', '::to_vec', '::as_bytes', '::as_ref', '::as_mut', '::as_str', '::as_slice',
    '::into', '::borrow', '::borrow_mut', '::deref', '::deref_mut', '::to_string', '::into_bytes',
    '::into_iter', '::iter', '::as_deref', '::cloned', '::copied',
)
TRANSPARENT_CALLS = ('core::convert::From::from', 'core::convert::Into::into')

def is_transparent(cal):
    base = cal.split('<')[0] if False else cal
    if any(base.endswith(s) for s in TRANSPARENT_SUFFIX):
        return True
    if cal in TRANSPARENT_CALLS:
        return True
    import re as _re
    if _re.match(r'^<[iu](8|16|32|64|128|size) as core::convert::From<([iu](8|16|32|64|128|size)|bool|char)>>::from$', cal) or \
            _re.match(r'^core::convert::num::<impl core::convert::From<[iu]\w+> for [iu]\w+>::from$', cal):
        return True         # lossless integer widening: the value is unchanged
    # Vec::from / String::from resolved to their impls
    if cal.endswith('>::from') and ('alloc::vec::Vec' in cal.split(' as ')[0] or 'alloc::string::String' in cal.split(' as ')[0]) and 'ldap3' not in cal and 'lber' not in cal:
        return True
    return False

def root_local(e):
    """The local binding at the root of a place expression (through fields/derefs/index), or None."""
    while True:
        k = e['k']
        if k == 'Path':
            return e['bind'] if e.get('res') == 'local' else None
        if k in ('Field', 'Index', 'AddrOf'):
            e = e['e']
        elif k == 'Unary' and e.get('op') == 'Deref':
            e = e['e']
        elif k == 'MethodCall' and is_transparent(callee_of(e) or ''):
            e = e['recv']
        else:
            return None

def root_is_whole(e):
    return e['k'] == 'Path' or (e['k'] == 'Unary' and e.get('op') == 'Deref' and e['e']['k'] == 'Path')

def fmt_origin(o):
    r, p = o
    def fr(r):
        if r[0] == 'param':
            return r[1]
        if r[0] == 'lit':
            return repr(r[1])
        if r[0] == 'call':
            return 'call(%s)' % r[1].split('::')[-1]
        if r[0] == 'tuple':
            return '(' + ', '.join(fmt_origin(x) for x in r[1]) + ')'
        if r[0] == 'ctor':
            return r[1] + '(' + ', '.join(fmt_origin(x) for x in r[2]) + ')'
        if r[0] == 'phi':
            return 'phi(' + ' | '.join(fmt_origin(x) for x in r[1]) + ')'
        if r[0] == 'for':
            return 'elem-of(' + fmt_origin(r[1]) + ')'
        if r[0] == 'const':
            return str(r[1])
        return ':'.join(str(x) for x in r)
    s = fr(r)
    for pr in p:
        if pr[0] == 'field':
            s += '.' + pr[1]
        elif pr[0] == 'tup':
            s += '.%d' % pr[1]
        elif pr[0] == 'variant':
            s += '.%s#%d' % (pr[1], pr[2])
        elif pr[0] == 'vfield':
            s += '.%s#%s' % (pr[1], pr[2])
        elif pr[0] == 'cast':
            s += ' as _'
        else:
            s += '.' + pr[0]
    return s

def strip_casts(o):
    r, p = o
    return (r, tuple(x for x in p if x[0] != 'cast'))

# ---------------------------------------------------------------------------------------
# control context (F5)

def conditions(ctx):
    """The chain of enclosing control constructs from the body root down to the node:
       ('if', cond_node, branch 'then'|'els'), ('arm', match_node, arm_index), ('loop', node),
       ('for', node), ('while', node), ('closure', node)."""
    out = []
    for anc, role in ctx:
        k = anc['k']
        if k == 'If':
            if role in ('then', 'els'):
                out.append(('if', anc, role))
        elif k == 'Match':
            if isinstance(role, tuple) and role[0] == 'arms' and role[-1] in ('body', 'guard'):
                out.append(('arm', anc, role[1]))
        elif k == 'Loop':
            out.append(('loop', anc))
        elif k == 'For' and role == 'body':
            out.append(('for', anc))
        elif k == 'While' and role == 'body':
            out.append(('while', anc))
        elif k == 'Closure':
            out.append(('closure', anc))
    return out

def cond_key(c):
    if c[0] == 'if':
        return ('if', id(c[1]), c[2])
    if c[0] == 'arm':
        return ('arm', id(c[1]), c[2])
    return (c[0], id(c[1]))

def accompanies(body, a, b):
    """True when b is executed whenever a is: b's control context is a prefix of a's (b is not
    nested in a condition/loop/closure that a is not in)."""
    ca = [cond_key(c) for c in conditions(body.context(a))]
    cb = [cond_key(c) for c in conditions(body.context(b))]
    return cb == ca[:len(cb)]

def exclusive(body, a, b):
    """a and b are on mutually exclusive branches of the same if / match."""
    ca = conditions(body.context(a))
    cb = conditions(body.context(b))
    for x, y in zip(ca, cb):
        if x[0] == y[0] and x[1] is y[1]:
            if x[0] in ('if', 'arm') and x[2] != y[2]:
                return True
            continue
        break
    return False

def enclosing(ctx, kind):
    for anc, role in reversed(ctx):
        if anc['k'] == kind:
            return anc
    return None

def diverges(n):
    """Syntactic divergence of an expression: return / break / continue / panic-like call / block ending so."""
    k = n['k']
    if k in ('Ret', 'Break', 'Continue'):
        return True
    if n.get('ty') == '!':
        return True
    if k == 'Block':
        for s in n['stmts']:
            if s['k'] in ('Expr', 'Semi') and diverges(s['e']):
                return True
        return n.get('expr') is not None and diverges(n['expr'])
    if k == 'If':
        return n.get('els') is not None and diverges(n['then']) and diverges(n['els'])
    if k == 'Match':
        return all(diverges(a['body']) for a in n['arms'])
    return False

# ---------------------------------------------------------------------------------------
# select! arms

def select_arms(root):
    """Arms of tokio::select!: the match over `__tokio_select_util::Out`; returns list of
    dict(index, bind, name, ty, body, pat)."""
    out = []
    for n, ctx in walk(root):
        if n['k'] == 'Match':
            arms = []
            for a in n['arms']:
                p = a['pat']
                d = p.get('def', '') if p.get('k') == 'PTupleStruct' else ''
                if '__tokio_select_util::Out::_' in d and len(p['pats']) == 1:
                    inner = p['pats'][0]
                    bs = list(pat_bindings(inner))
                    arms.append(dict(index=int(d.rsplit('_', 1)[1]), pat=inner, bindings=bs,
                                     ty=inner.get('ty'), body=a['body'], match=n))
            if arms:
                out.extend(arms)
    return out

def select_preconditions(root):
    """The `, if <cond>` preconditions of the branches of a tokio::select!, in branch order.  The macro normalises a branch
    without one to `if true` and emits, per branch, `if !<cond> { disabled |= 1 << n }` before polling; returns the list of
    <cond> expression nodes (a literal `true` for a branch that is always enabled)."""
    out = []
    for n, ctx in walk(root):
        if n['k'] == 'If' and n.get('els') is None and n['cond']['k'] == 'Unary' and n['cond'].get('op') == 'Not':
            sp = n.get('sp') or []
            if len(sp) > 5 and 'select' in str(sp[5]) and any(x['k'] == 'AssignOp' and str(x.get('op')).startswith('BitOr') for x, _ in walk(n['then'])):
                out.append(n['cond']['e'])
    return out

# ---------------------------------------------------------------------------------------
# constant evaluation (integers / strings) through consts, enum casts and simple arithmetic

def const_eval(facts, e, depth=0):
    if depth > 20 or e is None:
        return None
    k = e['k']
    if k == 'Lit':
        v = e.get('v')
        if isinstance(v, list):
            return bytes(v)
        return v
    if k == 'Path' and e.get('res') == 'def':
        dk = e.get('defkind', '')
        d = e.get('def')
        if dk.startswith('Const') or dk.startswith('AssocConst'):
            if d in facts.hir:
                return const_eval(facts, facts.hir[d]['body'], depth + 1)
            if d.endswith('i32::MAX'):
                return 2147483647
            import re as _re
            m = _re.search(r'(?:<impl |::|^)([iu](?:8|16|32|64|size))>?::(MAX|MIN|BITS)$', d)
            if m:
                bits = {'8': 8, '16': 16, '32': 32, '64': 64, 'size': 64}[m.group(1)[1:]]
                signed = m.group(1)[0] == 'i'
                if m.group(2) == 'BITS':
                    return bits         # the width of the type in bits (usize / isize: the analysed target is 64-bit, as in INT_RANGE)
                if m.group(2) == 'MAX':
                    return (1 << (bits - 1)) - 1 if signed else (1 << bits) - 1
                return -(1 << (bits - 1)) if signed else 0
            return KNOWN_CONSTS.get(d)
        if dk.startswith('Ctor'):
            # unit-like enum variant used as a value: discriminant
            var = e.get('ctor_of')
            return enum_discr(facts, var)
        return None
    if k == 'Call' and not e.get('args') and callee_of(e) == 'core::mem::size_of':
        # size_of::<uN / iN>() is N / 8 by the language definition of the primitive integer types (usize / isize: the 64-bit
        # targets the checks are built for, as INT_RANGE assumes everywhere); any other type argument is not evaluated
        import re as _re
        m = _re.fullmatch(r'\[([iu])(8|16|32|64|128|size)\]', e.get('targs') or '')
        return {'8': 1, '16': 2, '32': 4, '64': 8, '128': 16, 'size': 8}[m.group(2)] if m else None
    if k == 'Cast':
        return const_eval(facts, e['e'], depth + 1)
    if k == 'Unary' and e.get('op') == 'Neg':
        v = const_eval(facts, e['e'], depth + 1)
        return -v if isinstance(v, int) else None
    if k == 'Binary':
        a, b = const_eval(facts, e['l'], depth + 1), const_eval(facts, e['r'], depth + 1)
        if isinstance(a, int) and isinstance(b, int) and not isinstance(a, bool):
            op = e['op']
            try:
                return {'Add': a + b, 'Sub': a - b, 'Mul': a * b, 'Shl': a << b, 'Shr': a >> b,
                        'BitOr': a | b, 'BitAnd': a & b}.get(op)
            except Exception:
                return None
        return None
    if k == 'Block' and not e['stmts'] and e.get('expr') is not None:
        return const_eval(facts, e['expr'], depth + 1)
    if k == 'AddrOf':
        return const_eval(facts, e['e'], depth + 1)
    return None

KNOWN_CONSTS = {
    'std::i32::MAX': 2147483647, 'core::i32::MAX': 2147483647,
    'std::primitive::i32::MAX': 2147483647, 'i32::MAX': 2147483647,
}

def enum_discr(facts, variant_path):
    if variant_path is None:
        return None
    for it in facts.items.values():
        for v in it.get('variants', []) if it.get('kind') == 'Enum' else []:
            if v['path'] == variant_path:
                return v['discr']
    return None

# ---------------------------------------------------------------------------------------
# who-may-touch (F10)

def field_accesses(facts, field_pred):
    """All Field nodes in the workspace satisfying field_pred(node); returns (body_path, node, ctx)."""
    out = []
    for path, h in facts.hir.items():
        for n, ctx in walk(h['body']):
            if n['k'] == 'Field' and field_pred(n):
                out.append((path, n, ctx))
    return out

def all_calls(facts, callee_pred):
    out = []
    for path, h in facts.hir.items():
        for n, ctx in walk(h['body']):
            if n['k'] in ('Call', 'MethodCall'):
                c = callee_of(n)
                if c and callee_pred(c):
                    out.append((path, n, ctx))
    return out

def recv_ty(n):
    """Type of the receiver of a method call (after auto-ref, before)."""
    return n['recv'].get('ty', '')

def strip_refs(t):
    t = t.strip()
    while t.startswith('&'):
        t = t[1:].strip()
        if t.startswith('mut '):
            t = t[4:].strip()
        if t.startswith("'"):
            t = t.split(' ', 1)[1] if ' ' in t else t
    return t

# ---------------------------------------------------------------------------------------
# following immutable single-definition lets back to the defining expression

def resolve_expr(body, e, depth=0):
    """Follow `let x = <e>` chains (bindings without later whole assignments, whole-pattern lets)
    and transparent wrappers back to the defining expression node."""
    while depth < 40:
        depth += 1
        e = peel_refs(e)
        if e['k'] == 'Path' and e.get('res') == 'local':
            d = body.defs.get(e['bind'])
            if d and d['kind'] == 'let' and not d['proj'] and d['src'] is not None \
                    and not any(root_is_whole(a['l']) for a in body.assigns.get(e['bind'], [])):
                e = d['src']
                continue
        return e
    return e

def peel_refs(e):
    while True:
        if e['k'] == 'AddrOf':
            e = e['e']
        elif e['k'] == 'Unary' and e.get('op') == 'Deref':
            e = e['e']
        else:
            return e

def local_of(e):
    """bind id if e is (a reference to / deref of) a plain local, else None."""
    e = peel_refs(e)
    if e['k'] == 'Path' and e.get('res') == 'local':
        return e['bind']
    return None

def is_lit(e, v):
    return e['k'] == 'Lit' and e.get('v') == v and not isinstance(e.get('v'), bool) or (e['k'] == 'Lit' and isinstance(v, bool) and e.get('v') is v)

def loop_exits(body, loop):
    """Break nodes that leave `loop`, and Ret nodes inside it."""
    brs, rets = [], []
    body_node = loop['body']
    for n, ctx in walk(body_node):
        if n['k'] == 'Break':
            if n.get('target') == loop.get('id'):
                brs.append(n)
        elif n['k'] == 'Ret':
            if not any(a['k'] == 'Closure' for a, _ in ctx):
                rets.append(n)
    return brs, rets
