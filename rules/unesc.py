"""Exhaustive abstract evaluation of the hex unescaper `Unescaper::feed` (shared by C08 and C09).

The unescaper is a finite function: (state, byte) -> state with state in {Error, WantFirst, WantSecond(0..15), Value(_)}.
It is evaluated on literal arguments for every pair (no code is run: the typed HIR is interpreted by absx over literals)
and compared with the reference automaton of RFC 4515 value unescaping."""
import absx, hirq

FEED = 'ldap3::filter::Unescaper::feed'
HEX = {c: int(chr(c), 16) for c in b'0123456789abcdefABCDEF'}

def char_summary(I, cal, args, node, st):
    tables = {'nom::character::is_alphanumeric': lambda c: chr(c).isalnum() and c < 128, 'nom::character::is_alphabetic': lambda c: chr(c).isalpha() and c < 128,
              'nom::character::is_hex_digit': lambda c: c in HEX, 'nom::character::is_digit': lambda c: chr(c) in '0123456789'}
    if cal in tables and args and args[0][0] == 'lit':
        return [absx.Out('val', ('lit', bool(tables[cal](args[0][1]))), st)]
    return None

def state_term(s):
    if s[0] in ('Error', 'WantFirst'):
        return ('ctor', 'Unescaper::' + s[0], ())
    return ('ctor', 'Unescaper::' + s[0], (('lit', s[1]),))

def ref_feed(s, c):
    if s[0] == 'Error':
        return ('Error',)
    if s[0] == 'WantFirst':
        return ('WantSecond', HEX[c]) if c in HEX else ('Error',)
    if s[0] == 'WantSecond':
        return ('Value', s[1] * 16 + HEX[c]) if c in HEX else ('Error',)
    return ('WantFirst',) if c == 0x5c else ('Value', c)

def from_term(t):
    if t[0] != 'ctor' or not t[1].startswith('Unescaper::'):
        return None
    name = t[1].split('::')[-1]
    if name in ('Error', 'WantFirst'):
        return (name,)
    if t[2] and t[2][0][0] == 'lit' and isinstance(t[2][0][1], int) and 0 <= t[2][0][1] <= 255:
        return (name, t[2][0][1])
    return None

def all_states():
    return [('Error',), ('WantFirst',)] + [('WantSecond', p) for p in range(16)] + [('Value', 0), ('Value', 65)]

def feed_table(facts):
    """{(state, byte): set of resulting states, or None where an evaluation did not end in a value} for all 5120 pairs, evaluated once
    per fact set (the interpretation of `feed` on literal arguments does not depend on who asks)."""
    tab = getattr(facts, '_unesc_feed_table', None)
    if tab is not None:
        return tab
    B = hirq.Body(facts, facts.body(FEED))
    I = absx.Interp(facts, B, summaries=[char_summary])
    binds = {d['name']: b for b, d in B.defs.items() if d['kind'] == 'param'}
    tab = {}
    for s in all_states():
        for c in range(256):
            env = {binds['self']: state_term(s), binds['c']: ('lit', c)}
            outs = I.run(env=env)
            vals = [o for o in outs if o.kind in ('val', 'ret')]
            tab[(s, c)] = ({from_term(o.val) for o in vals}, len(vals) == len(outs))
    try:
        facts._unesc_feed_table = tab
    except Exception:
        pass
    return tab

def check_feed(facts):
    """Returns (number of (state, byte) pairs evaluated, list of wrong ones)."""
    wrong = []
    tab = feed_table(facts)
    for (s, c), (got, _total) in tab.items():
        exp = ref_feed(s, c)
        if got != {exp}:
            wrong.append((s, c, sorted(map(str, got)), exp))
    return len(tab), wrong

def feed_summary(facts):
    """`feed` on a literal (state, byte) pair answers what its own exhaustive evaluation (feed_table) found, where that is one state on
    every path; any other call is left to the interpreter (inlined).  Saves re-interpreting `feed` at each of its call sites."""
    tab = feed_table(facts)
    def summary(I, cal, args, node, st):
        if cal != FEED or len(args) != 2 or args[1][0] != 'lit':
            return None
        s = from_term(args[0])
        r = tab.get((s, args[1][1])) if s is not None else None
        if r is None or not r[1] or len(r[0]) != 1 or None in r[0]:
            return None
        return [absx.Out('val', state_term(next(iter(r[0]))), st)]
    return summary
