"""Exhaustive abstract evaluation of the hex unescaper `Unescaper::feed` (shared by C08 and C09).

The unescaper is a finite function: (state, byte) -> state with state in {Error, WantFirst, WantSecond(0..15), Value(_)}.
It is evaluated on literal arguments for every pair (no code is run: the typed HIR is interpreted by absx over literals)
and compared with the reference automaton of RFC 4515 value unescaping."""
import absx, hirq

FEED = 'ldap3::filter::Unescaper::feed'
HEX = {c: int(chr(c), 16) for c in b'0123456789abcdefABCDEF'}

def char_summary(I, cal, args, node, st):
    tables = {'nom::character::is_alphanumeric': lambda c: chr(c).isalnum() and c < 128, 'nom::character::is_alphabetic': lambda c: chr(c).isalpha() and c < 128,
              'nom::character::is_hex_digit': lambda c: c in HEX, 'nom::character::is_digit': lambda c: chr(c) in '0123456789'}
    if cal in tables and args and args[0][0] == 'lit':
        return [absx.Out('val', ('lit', bool(tables[cal](args[0][1]))), st)]
    return None

def state_term(s):
    if s[0] in ('Error', 'WantFirst'):
        return ('ctor', 'Unescaper::' + s[0], ())
    return ('ctor', 'Unescaper::' + s[0], (('lit', s[1]),))

def ref_feed(s, c):
    if s[0] == 'Error':
        return ('Error',)
    if s[0] == 'WantFirst':
        return ('WantSecond', HEX[c]) if c in HEX else ('Error',)
    if s[0] == 'WantSecond':
        return ('Value', s[1] * 16 + HEX[c]) if c in HEX else ('Error',)
    return ('WantFirst',) if c == 0x5c else ('Value', c)

def from_term(t):
    if t[0] != 'ctor' or not t[1].startswith('Unescaper::'):
        return None
    name = t[1].split('::')[-1]
    if name in ('Error', 'WantFirst'):
        return (name,)
    if t[2] and t[2][0][0] == 'lit' and isinstance(t[2][0][1], int) and 0 <= t[2][0][1] <= 255:
        return (name, t[2][0][1])
    return None

def all_states():
    return [('Error',), ('WantFirst',)] + [('WantSecond', p) for p in range(16)] + [('Value', 0), ('Value', 65)]

def check_feed(facts):
    """Returns (number of (state, byte) pairs evaluated, list of wrong ones)."""
    B = hirq.Body(facts, facts.body(FEED))
    I = absx.Interp(facts, B, summaries=[char_summary])
    binds = {d['name']: b for b, d in B.defs.items() if d['kind'] == 'param'}
    wrong = []
    n = 0
    for s in all_states():
        for c in range(256):
            n += 1
            env = {binds['self']: state_term(s), binds['c']: ('lit', c)}
            outs = [o for o in I.run(env=env) if o.kind in ('val', 'ret')]
            got = {from_term(o.val) for o in outs}
            exp = ref_feed(s, c)
            if got != {exp}:
                wrong.append((s, c, sorted(map(str, got)), exp))
    return n, wrong
