"""Check runner: fact extraction from /repo's working tree, obligations, known findings, evidence.

Static analysis only: the only processes started are `cargo +nightly check` (type-checking /repo with
the fact-extracting rustc wrapper) and, in thorough mode, `cargo +nightly test --doc` on the
compile_fail witness crate (which compiles, and for compile_fail tests does not even link).
"""
import fcntl, hashlib, json, os, subprocess, sys, time, glob, shutil

VERIF = os.path.dirname(os.path.dirname(os.path.abspath(__file__)))
REPO = os.environ.get('LDAP3_REPO', '/repo')
WORK = os.path.join(VERIF, '.work')
DRIVER = os.path.join(VERIF, 'driver', 'target', 'debug', 'ldap3-facts')

CONFIGS = {
    'default': [],
    'nodefault': ['--no-default-features'],
    'rustls': ['--no-default-features', '--features', 'sync,tls-rustls'],
    'gssapi': ['--features', 'gssapi'],
}

def sysroot_lib():
    out = subprocess.run(['rustc', '+nightly', '--print', 'sysroot'], capture_output=True, text=True, check=True)
    return os.path.join(out.stdout.strip(), 'lib')

def tree_hash(root, extra=()):
    """Content hash of every file of the working tree (not .git, not target)."""
    h = hashlib.sha256()
    for dp, dns, fns in os.walk(root):
        dns[:] = sorted(d for d in dns if not (dp == root and d in ('.git', 'target')))
        for fn in sorted(fns):
            p = os.path.join(dp, fn)
            if os.path.islink(p) or not os.path.isfile(p):
                continue
            h.update(os.path.relpath(p, root).encode())
            h.update(b'\0')
            with open(p, 'rb') as f:
                h.update(f.read())
            h.update(b'\0')
    for e in extra:
        with open(e, 'rb') as f:
            h.update(f.read())
    return h.hexdigest()

def ensure_driver():
    if not os.path.exists(DRIVER):
        subprocess.run(['cargo', 'build', '--offline'], cwd=os.path.join(VERIF, 'driver'), check=True,
                       stdout=subprocess.DEVNULL, stderr=subprocess.DEVNULL)
    if not os.path.exists(DRIVER):
        raise SystemExit('driver missing: run ./setup.sh')

class BuildError(Exception):
    pass

def extract_fixture_facts():
    """Facts of the positive-control crate /verif/fixtures (same driver, same flags), cached by content hash."""
    os.makedirs(WORK, exist_ok=True)
    ensure_driver()
    fx = os.path.join(VERIF, 'fixtures')
    fdir = os.path.join(WORK, 'facts-fixture')
    lock = open(os.path.join(WORK, 'lock-fixture'), 'w')
    fcntl.flock(lock, fcntl.LOCK_EX)
    try:
        want = tree_hash(fx, extra=[DRIVER])
        hfile = os.path.join(fdir, 'HASH')
        files = [os.path.join(fdir, 'vfixture.facts.json')]
        if os.path.exists(hfile) and open(hfile).read().strip() == want and os.path.exists(files[0]):
            return files
        shutil.rmtree(fdir, ignore_errors=True)
        os.makedirs(fdir)
        tdir = os.path.join(WORK, 'target-fixture')
        shutil.rmtree(tdir, ignore_errors=True)
        nonce = hashlib.sha1(('fx%s%s' % (time.time(), os.getpid())).encode()).hexdigest()
        env = dict(os.environ)
        env.update({'LD_LIBRARY_PATH': sysroot_lib() + ':' + env.get('LD_LIBRARY_PATH', ''), 'RUSTFLAGS': '-Zmir-opt-level=0 -Awarnings',
                    'RUSTC_WORKSPACE_WRAPPER': DRIVER, 'CARGO_TARGET_DIR': tdir, 'CARGO_NET_OFFLINE': 'true', 'CARGO_INCREMENTAL': '0',
                    'LDAP3_FACTS_CRATES': 'vfixture', 'LDAP3_FACTS_OUT': fdir, 'LDAP3_FACTS_NONCE': nonce})
        env.pop('RUSTC_WRAPPER', None)
        p = subprocess.run(['cargo', '+nightly', 'check', '--offline'], cwd=fx, env=env, capture_output=True, text=True)
        if p.returncode != 0 or not os.path.exists(files[0]):
            raise BuildError('the positive-control crate did not build:\n' + p.stderr[-3000:])
        with open(files[0]) as fh:
            if nonce not in fh.read(200):
                raise BuildError('stale fixture fact file')
        shutil.rmtree(tdir, ignore_errors=True)
        shutil.rmtree(os.path.join(fx, 'target'), ignore_errors=True)
        for junk in ('Cargo.lock',):
            try:
                os.remove(os.path.join(fx, junk))
            except OSError:
                pass
        with open(hfile, 'w') as fh:
            fh.write(want)
        return files
    finally:
        fcntl.flock(lock, fcntl.LOCK_UN)
        lock.close()

def extract_facts(cfg='default', repo=None, quiet=True):
    """Return the list of fact files for configuration cfg, (re)extracting them from the working
    tree if its content hash differs from the cached extraction."""
    repo = repo or REPO
    os.makedirs(WORK, exist_ok=True)
    ensure_driver()
    tag = cfg if os.path.realpath(repo) == '/repo' else cfg + '-' + hashlib.sha1(repo.encode()).hexdigest()[:8]
    fdir = os.path.join(WORK, 'facts-' + tag)
    tdir = os.path.join(WORK, 'target-' + cfg)
    lock = open(os.path.join(WORK, 'lock-' + cfg), 'w')
    fcntl.flock(lock, fcntl.LOCK_EX)
    try:
        want = tree_hash(repo, extra=[DRIVER])
        hfile = os.path.join(fdir, 'HASH')
        files = [os.path.join(fdir, c + '.facts.json') for c in ('lber', 'ldap3')]
        if os.path.exists(hfile) and open(hfile).read().strip() == want and all(os.path.exists(f) for f in files):
            return files, {'cached': True, 'hash': want}
        shutil.rmtree(fdir, ignore_errors=True)
        os.makedirs(fdir)
        for pat in ('ldap3-*', 'lber-*'):
            for p in glob.glob(os.path.join(tdir, 'debug', '.fingerprint', pat)):
                shutil.rmtree(p, ignore_errors=True)
        nonce = hashlib.sha1(('%s%s' % (time.time(), os.getpid())).encode()).hexdigest()
        env = dict(os.environ)
        env.update({
            'LD_LIBRARY_PATH': sysroot_lib() + ':' + env.get('LD_LIBRARY_PATH', ''),
            'RUSTFLAGS': '-Zmir-opt-level=0 -Awarnings',
            'RUSTC_WORKSPACE_WRAPPER': DRIVER,
            'CARGO_TARGET_DIR': tdir,
            'CARGO_NET_OFFLINE': 'true',
            'CARGO_INCREMENTAL': '0',
            'LDAP3_FACTS_CRATES': 'ldap3,lber',
            'LDAP3_FACTS_OUT': fdir,
            'LDAP3_FACTS_NONCE': nonce,
        })
        env.pop('RUSTC_WRAPPER', None)
        t0 = time.time()
        cmd = ['cargo', '+nightly', 'check', '--offline', '--workspace'] + CONFIGS[cfg]
        p = subprocess.run(cmd, cwd=repo, env=env, capture_output=True, text=True)
        if p.returncode != 0:
            raise BuildError('cargo check failed for configuration %s:\n%s' % (cfg, p.stderr[-4000:]))
        for f in files:
            if not os.path.exists(f):
                raise BuildError('fact file missing after build: ' + f)
            with open(f) as fh:
                head = fh.read(200)
            if nonce not in head:
                raise BuildError('stale fact file (nonce mismatch): ' + f)
        with open(hfile, 'w') as fh:
            fh.write(want)
        return files, {'cached': False, 'hash': want, 'extract_s': round(time.time() - t0, 2)}
    finally:
        fcntl.flock(lock, fcntl.LOCK_UN)
        lock.close()


# ---------------------------------------------------------------------------------------

class Obl:
    __slots__ = ('rule', 'instance', 'loc', 'ok', 'detail', 'nontrivial', 'cfg')
    def __init__(self, rule, instance, loc, ok, detail, nontrivial=True):
        self.rule, self.instance, self.loc, self.ok, self.detail, self.nontrivial = rule, instance, loc, ok, detail, nontrivial
        self.cfg = None
    @property
    def key(self):
        return '%s|%s' % (self.rule, self.instance)
    def to_json(self):
        return {'rule': self.rule, 'instance': self.instance, 'loc': self.loc, 'ok': self.ok,
                'detail': self.detail, 'cfg': self.cfg}

class Ctx:
    """Collects obligations of one property run over one configuration."""
    def __init__(self, prop, facts, cfg):
        self.prop, self.facts, self.cfg = prop, facts, cfg
        self.obls = []
        self.analysed = {'bodies': set(), 'call_sites': 0, 'notes': []}

    def add(self, rule, instance, loc, ok, detail='', nontrivial=True):
        o = Obl(rule, str(instance), loc, bool(ok), detail, nontrivial)
        o.cfg = self.cfg
        self.obls.append(o)
        return bool(ok)

    def ok(self, rule, instance, loc='', detail=''):
        return self.add(rule, instance, loc, True, detail)

    def fail(self, rule, instance, loc='', detail=''):
        return self.add(rule, instance, loc, False, detail)

    def body(self, path):
        self.analysed['bodies'].add(path)
        return self.facts.body(path)

    def note(self, s):
        self.analysed['notes'].append(s)

    def floor(self, rule, what, n, minimum):
        """Fail closed when an instance count falls below the number counted by hand."""
        return self.add(rule + '.floor', what, '', n >= minimum,
                        '%d instances of %s analysed, floor %d' % (n, what, minimum), nontrivial=False)


def load_known():
    p = os.path.join(VERIF, 'known_findings.json')
    if not os.path.exists(p):
        return {'known': [], 'fixed': []}
    with open(p) as f:
        return json.load(f)


# ---------------------------------------------------------------------------------------
# E3 - compile-fail witnesses (thorough tier)

WITNESS_USE = {
    'C01': ['W01', 'W02', 'W06'], 'C04': ['W04', 'W08'], 'C05': ['W01', 'W02', 'W03'], 'C10': ['W07', 'W08', 'W09'],
    'C12': ['W02', 'W05'], 'C13': ['W05', 'W06'], 'C14': ['W10'],
}

def run_witnesses(repo=None):
    """Compiles the doc-tests of /verif/witness against `repo` with the nightly toolchain (compile_fail tests with their error
    code, and their compiling twins with no_run: nothing is executed).  Returns {witness struct name: [(kind, ok)]}; cached by
    the content hash of the tree and of the witness source."""
    import re
    repo = repo or REPO
    os.makedirs(WORK, exist_ok=True)
    tag = 'repo' if os.path.realpath(repo) == '/repo' else hashlib.sha1(repo.encode()).hexdigest()[:8]
    wdir = os.path.join(WORK, 'witness-' + tag)
    src = os.path.join(VERIF, 'witness', 'src', 'lib.rs')
    lock = open(os.path.join(WORK, 'lock-witness'), 'w')
    fcntl.flock(lock, fcntl.LOCK_EX)
    try:
        want = tree_hash(repo, extra=[src])
        rfile = os.path.join(wdir, 'RESULT.json')
        if os.path.exists(rfile):
            with open(rfile) as fh:
                r = json.load(fh)
            if r.get('hash') == want:
                return r['results'], {'cached': True}
        shutil.rmtree(wdir, ignore_errors=True)
        os.makedirs(os.path.join(wdir, 'src'))
        shutil.copy(src, os.path.join(wdir, 'src', 'lib.rs'))
        with open(os.path.join(VERIF, 'witness', 'Cargo.toml.in')) as fh:
            toml = fh.read().replace('@REPO@', os.path.realpath(repo))
        with open(os.path.join(wdir, 'Cargo.toml'), 'w') as fh:
            fh.write(toml)
        shutil.copy(os.path.join(repo, 'Cargo.lock'), os.path.join(wdir, 'Cargo.lock'))
        env = dict(os.environ, CARGO_NET_OFFLINE='true', CARGO_TARGET_DIR=os.path.join(WORK, 'target-witness'))
        env.pop('RUSTC_WRAPPER', None); env.pop('RUSTC_WORKSPACE_WRAPPER', None)
        t0 = time.time()
        p = subprocess.run(['cargo', '+nightly', 'test', '--doc', '--offline'], cwd=wdir, env=env, capture_output=True, text=True)
        out = p.stdout + p.stderr
        results = {}
        for m in re.finditer(r'^test src/lib\.rs - (\w+) \(line \d+\) - (compile fail|compile) \.\.\. (\w+)', out, re.M):
            results.setdefault(m.group(1), []).append([m.group(2), m.group(3) == 'ok'])
        if not results:
            raise BuildError('witness crate did not build against %s:\n%s' % (repo, out[-3000:]))
        with open(rfile, 'w') as fh:
            json.dump({'hash': want, 'results': results}, fh)
        return results, {'cached': False, 'witness_s': round(time.time() - t0, 2)}
    finally:
        fcntl.flock(lock, fcntl.LOCK_UN)
        lock.close()


# ---------------------------------------------------------------------------------------
# cross-engine agreement (thorough tier): clippy's opt-in restriction lints as an independent, lexical list of panicking constructs

CLIPPY_LINTS = ('unwrap_used', 'expect_used', 'panic', 'unimplemented', 'unreachable', 'todo', 'indexing_slicing', 'string_slice')

def clippy_sites(repo=None):
    """[(file, line, end_line, lint)] reported by `cargo +nightly clippy` with the restriction lints above switched on (nothing else),
    cached by tree hash.  A lint run, not an execution."""
    repo = repo or REPO
    os.makedirs(WORK, exist_ok=True)
    tag = 'repo' if os.path.realpath(repo) == '/repo' else hashlib.sha1(repo.encode()).hexdigest()[:8]
    cfile = os.path.join(WORK, 'clippy-%s.json' % tag)
    lock = open(os.path.join(WORK, 'lock-clippy'), 'w')
    fcntl.flock(lock, fcntl.LOCK_EX)
    try:
        want = tree_hash(repo)
        if os.path.exists(cfile):
            with open(cfile) as fh:
                r = json.load(fh)
            if r.get('hash') == want:
                return [tuple(x) for x in r['sites']], {'cached': True}
        env = dict(os.environ, CARGO_NET_OFFLINE='true', CARGO_TARGET_DIR=os.path.join(WORK, 'target-clippy'))
        env.pop('RUSTC_WRAPPER', None); env.pop('RUSTC_WORKSPACE_WRAPPER', None)
        for pat in ('ldap3-*', 'lber-*'):
            for p in glob.glob(os.path.join(WORK, 'target-clippy', 'debug', '.fingerprint', pat)):
                shutil.rmtree(p, ignore_errors=True)
        t0 = time.time()
        cmd = ['cargo', '+nightly', 'clippy', '--offline', '--workspace', '--message-format=json', '--', '-A', 'clippy::all']
        for l in CLIPPY_LINTS:
            cmd += ['-W', 'clippy::' + l]
        p = subprocess.run(cmd, cwd=repo, env=env, capture_output=True, text=True)
        if p.returncode != 0:
            raise BuildError('cargo clippy failed:\n' + p.stderr[-2000:])
        sites = set()
        for line in p.stdout.splitlines():
            try:
                m = json.loads(line)
            except ValueError:
                continue
            if m.get('reason') != 'compiler-message':
                continue
            code = ((m['message'].get('code') or {}).get('code') or '')
            if not code.startswith('clippy::'):
                continue
            for sp in m['message'].get('spans', []):
                if sp.get('is_primary'):
                    # the outermost expansion site, as the fact extractor records it
                    while sp.get('expansion'):
                        sp = sp['expansion']['span']
                    fn = sp['file_name']
                    pkg = os.path.relpath(os.path.dirname(m.get('manifest_path', os.path.join(repo, 'Cargo.toml'))), repo)
                    if pkg not in ('.', '') and not fn.startswith(pkg):
                        fn = os.path.join(pkg, fn)
                    sites.add((fn, sp['line_start'], sp['line_end'], code[len('clippy::'):]))
        sites = sorted(sites)
        with open(cfile, 'w') as fh:
            json.dump({'hash': want, 'sites': sites}, fh)
        return sites, {'cached': False, 'clippy_s': round(time.time() - t0, 2)}
    finally:
        fcntl.flock(lock, fcntl.LOCK_UN)
        lock.close()
