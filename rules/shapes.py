"""F2: ASN.1 shapes of builder terms (produced by absx) and their comparison with reference shapes.

A shape is what an RFC's ASN.1 says about a PDU, plus *which parameter feeds which slot*:
    ('P', kind, cls, id, src)         primitive; kind in INT ENUM OCT BOOL NULL; src = the term the content comes from
    ('C', cls, id, [item...])         constructed; item = shape | ('MANY', src, elem, shape)
    ('ANY', term)                     a Tag-valued term built elsewhere (e.g. the compiled filter)
    ('UNKNOWN', why, term)            the extractor did not understand the construct: comparison fails closed
Reference shapes are built with P / C / MANY / OPT / ANY below; their `src` slots are predicates over terms.
"""
import absx

CLS = {'TagClass::Universal': 'U', 'TagClass::Application': 'A', 'TagClass::Context': 'C', 'TagClass::Private': 'P'}
KIND = {'Tag::Integer': 'INT', 'Tag::Enumerated': 'ENUM', 'Tag::OctetString': 'OCT', 'Tag::Boolean': 'BOOL', 'Tag::Null': 'NULL'}

def _cls(t):
    if t[0] == 'ctor' and t[1] in CLS:
        return CLS[t[1]]
    return None

def _id(t):
    if t[0] == 'lit' and isinstance(t[1], int):
        return t[1]
    return None

def to_shape(t, bound=()):
    if t[0] == 'call' and t[1].endswith('::into_structure') and t[2]:
        return to_shape(t[2][0], bound)
    if t[0] == 'ctor' and t[1] in KIND and len(t[2]) == 1:
        s = t[2][0]
        c, i = _cls(absx.field_term(s, 'class')), _id(absx.field_term(s, 'id'))
        if c is None or i is None:
            return ('UNKNOWN', 'class/id not constant', t)
        return ('P', KIND[t[1]], c, i, absx.field_term(s, 'inner'))
    if t[0] == 'ctor' and t[1] in ('Tag::Sequence', 'Tag::Set') and len(t[2]) == 1:
        s = t[2][0]
        c, i = _cls(absx.field_term(s, 'class')), _id(absx.field_term(s, 'id'))
        if c is None or i is None:
            return ('UNKNOWN', 'class/id not constant', t)
        return ('C', c, i, items(absx.field_term(s, 'inner'), bound))
    if t[0] == 'ctor' and t[1] == 'Tag::ExplicitTag' and len(t[2]) == 1:
        s = t[2][0]
        c, i = _cls(absx.field_term(s, 'class')), _id(absx.field_term(s, 'id'))
        if c is None or i is None:
            return ('UNKNOWN', 'class/id not constant', t)
        return ('C', c, i, [to_shape(absx.field_term(s, 'inner'), bound)])
    if t[0] == 'ctor' and t[1] == 'Tag::StructureTag' and len(t[2]) == 1:
        return to_shape(t[2][0], bound)
    if t[0] == 'struct' and t[1].endswith('StructureTag'):
        c, i = _cls(absx.field_term(t, 'class')), _id(absx.field_term(t, 'id'))
        pl = absx.field_term(t, 'payload')
        if c is None or i is None:
            return ('UNKNOWN', 'class/id not constant', t)
        if pl[0] == 'ctor' and pl[1] == 'PL::C':
            return ('C', c, i, items(pl[2][0], bound))
        if pl[0] == 'ctor' and pl[1] == 'PL::P':
            return ('P', 'RAW', c, i, pl[2][0])
        return ('UNKNOWN', 'payload', t)
    return ('ANY', t)

def free_elems(t, bound=()):
    """generic loop elements ('elem', src, n) occurring in t that are not bound by an enclosing many()"""
    out = []
    def rec(x, bound):
        if isinstance(x, tuple) and x:
            if x[0] == 'many' and len(x) == 4:
                rec(x[1], bound); rec(x[3], bound + (x[2],)); return
            if x[0] == 'elem' and len(x) == 3 and x not in bound and x not in out:
                out.append(x)
            for y in x:
                rec(y, bound)
    rec(t, bound)
    return out

def items(t, bound=()):
    if t[0] == 'vec':
        out = []
        for x in t[1]:
            fe = [e for e in free_elems(x) if e not in bound]
            nested = x[0] == 'ctor' and x[1] in ('Tag::Sequence', 'Tag::Set') and len(x[2]) == 1 and absx.field_term(x[2][0], 'inner')[0] == 'vec'
            if fe and not nested:
                # an element pushed inside a `for` loop over fe[0][1]: one generic element stands for all
                out.append(('MANY', fe[0][1], fe[0], to_shape(x, bound + (fe[0],))))
            else:
                out.append(to_shape(x, bound))
        return out
    if t[0] == 'many':
        return [('MANY', t[1], t[2], to_shape(t[3], bound + (t[2],)))]
    if t[0] in ('param', 'cparam', 'unbound'):
        return [('LIST', t)]
    if t[0] == 'vecpush':
        return items(t[1], bound) + [to_shape(t[2], bound)]
    return [('UNKNOWN', 'item list', t)]

def fmt_shape(s, depth=0):
    if s[0] == 'P':
        return '[%s %d] %s(%s)' % (s[2], s[3], s[1], absx.fmt(s[4])[:40])
    if s[0] == 'C':
        return '[%s %d]{%s}' % (s[1], s[2], ', '.join(fmt_shape(x, depth + 1) for x in s[3]))
    if s[0] == 'MANY':
        return '(%s)* over %s' % (fmt_shape(s[3], depth + 1), absx.fmt(s[1])[:30])
    if s[0] == 'ANY':
        return 'ANY(%s)' % absx.fmt(s[1])[:40]
    if s[0] == 'LIST':
        return 'LIST(%s)' % absx.fmt(s[1])[:40]
    return 'UNKNOWN(%s: %s)' % (s[1], absx.fmt(s[2])[:60])

# ---------------------------------------------------------------------------------------
# reference DSL

def P(kind, cls, id, src=None):
    return ('P', kind, cls, id, src)
def C(cls, id, *its):
    return ('C', cls, id, list(its))
def MANY(src, shape):
    return ('MANY', src, shape)
def OPT(cond, shape, name=None):
    return ('OPT', cond, shape, name)
def ANY(src):
    return ('ANY', src)

# universal shorthands
def OCT(src): return P('OCT', 'U', 4, src)
def INT(src): return P('INT', 'U', 2, src)
def ENUM(src): return P('ENUM', 'U', 10, src)
def BOOL(src): return P('BOOL', 'U', 1, src)
def SEQ(*its): return C('U', 16, *its)
def SET(*its): return C('U', 17, *its)

# src predicates: (term, env) -> bool ; env carries 'elem' stack for MANY
def strip(t):
    while t[0] == 'cast':
        t = t[1]
    return t
def lit(v): return lambda t, env: strip(t) == ('lit', v)
def param(name): return lambda t, env: strip(t) == ('param', name)
def field_of(base_pred, *names):
    def f(t, env):
        t = strip(t)
        for n in reversed(names):
            if t[0] != 'field' or t[2] != n:
                return False
            t = t[1]
        return base_pred(t, env)
    return f
def elem(*proj):
    def f(t, env):
        t = strip(t)
        for n in reversed(proj):
            if t[0] == 'field' and t[2] == n:
                t = t[1]
            elif t[0] == 'variant' and '%s#%d' % (t[2], t[3]) == n:
                t = t[1]
            else:
                return False
        return bool(env.get('elems')) and t == env['elems'][-1]
    return f
def anything(t, env): return True

def compare(actual, ref, pc, env=None, where='$'):
    """Returns list of mismatch strings (empty = equal). pc = path condition of the actual shape."""
    env = env or {'elems': []}
    if actual[0] == 'UNKNOWN':
        return ['%s: extractor did not understand %s' % (where, fmt_shape(actual))]
    if ref[0] == 'ANY':
        if ref[1] is None or (actual[0] == 'ANY' and ref[1](actual[1], env)):
            return []
        return ['%s: expected an element built from %s, found %s' % (where, getattr(ref[1], '__name__', 'source'), fmt_shape(actual))]
    if ref[0] == 'P':
        if actual[0] != 'P':
            return ['%s: expected primitive %s [%s %d], found %s' % (where, ref[1], ref[2], ref[3], fmt_shape(actual))]
        out = []
        if (actual[1], actual[2], actual[3]) != (ref[1], ref[2], ref[3]):
            if (actual[1], actual[2]) == (ref[1], ref[2]):
                out.append('%s is written with tag [%s %d], the reference says [%s %d]' % (where, actual[2], actual[3], ref[2], ref[3]))
            else:
                out.append('%s: expected %s [%s %d], found %s [%s %d]' % (where, ref[1], ref[2], ref[3], actual[1], actual[2], actual[3]))
        if ref[4] is not None and not ref[4](actual[4], env):
            out.append('%s: content comes from `%s`, which is not the expected source' % (where, absx.fmt(actual[4])[:60]))
        return out
    if ref[0] == 'C':
        if actual[0] != 'C':
            return ['%s: expected constructed [%s %d], found %s' % (where, ref[1], ref[2], fmt_shape(actual))]
        out = []
        if (actual[1], actual[2]) != (ref[1], ref[2]):
            out.append('%s: expected constructed [%s %d], found [%s %d]' % (where, ref[1], ref[2], actual[1], actual[2]))
        return out + compare_items(actual[3], ref[3], pc, env, where)
    return ['%s: bad reference' % where]

def compare_items(acts, refs, pc, env, where):
    ai = 0
    out = []
    for ri, r in enumerate(refs):
        w = '%s.%d' % (where, ri)
        if r[0] == 'OPT' and r[3]:
            w = '%s.%d (%s)' % (where, ri, r[3])         # a named component is reported by its name
        if r[0] == 'OPT':
            present = r[1](pc)
            if present is False:
                continue
            if present is None:
                # undecided on this path: accept either
                if ai < len(acts) and not compare(acts[ai], r[2], pc, env, w):
                    ai += 1
                continue
            if ai >= len(acts):
                out.append('%s: optional element %s must be present on this path but is missing' % (w, r[3] or ''))
                continue
            out += compare(acts[ai], r[2], pc, env, w)
            ai += 1
            continue
        if ai >= len(acts):
            out.append('%s: element missing' % w)
            continue
        a = acts[ai]
        if r[0] == 'LIST':
            if a[0] != 'LIST' or not r[1](a[1], env):
                out.append('%s: expected the list of sub-elements passed in, found %s' % (w, fmt_shape(a) if a[0] != 'LIST' else absx.fmt(a[1])))
        elif r[0] == 'MANY':
            if a[0] != 'MANY':
                out.append('%s: expected a repeated element, found %s' % (w, fmt_shape(a)))
            else:
                if r[1] is not None and not r[1](a[1], env):
                    out.append('%s: repetition runs over `%s`, which is not the expected list' % (w, absx.fmt(a[1])[:60]))
                env2 = dict(env); env2['elems'] = env['elems'] + [a[2]]
                out += compare(a[3], r[2], pc, env2, w + '*')
        else:
            out += compare(a, r, pc, env, w)
        ai += 1
    if ai < len(acts):
        out.append('%s: %d unexpected extra element(s): %s' % (where, len(acts) - ai, ', '.join(fmt_shape(x) for x in acts[ai:])[:120]))
    return out

def pc_has(pred, truth=True):
    """OPT condition helper: returns a function pc -> True/False/None looking for an atom."""
    def f(pc):
        for a, t in pc:
            if pred(a):
                return t == truth
        return None
    return f

# ---------------------------------------------------------------------------------------
# The finite partition of an encoder's input.
#
# Which components an encoder emits can depend on its input only through the presence conditions of the OPTIONAL / DEFAULT
# components: `Option` fields (Some / None) and `bool` fields (true / false) of the value being encoded.  Their product is a
# finite partition of the input domain; the encoder is interpreted once per member, with those fields fixed to variant / literal
# knowledge (everything else stays symbolic), and the emitted component list of every member is compared with the reference shape
# for that member.  How the code gets there - conditional pushes, nested conditions, a `match` on a tuple of the fields,
# `vec![..]` per arm, `extend(Option)` - makes no difference: every condition on a fixed field is decided by the interpreter, and a
# combination the code forgot (or handles only under an unrelated condition) is evaluated like every other one.

def partition_fields(f, ty):
    """[(field, 'bool' | 'option')] of struct type `ty` (a type string, generic arguments ignored), in declaration order"""
    it = f.items.get(ty.split('<', 1)[0])
    if it is None or it.get('kind') != 'Struct' or len(it.get('variants', ())) != 1:
        return None
    out = []
    for fl in it['variants'][0]['fields']:
        if fl['ty'] == 'bool':
            out.append((fl['name'], 'bool'))
        elif fl['ty'].startswith('core::option::Option<'):
            out.append((fl['name'], 'option'))
    return out

def partition_cases(fields):
    """every member of the partition: a tuple of (field, kind, True | False) - True = `true` / `Some`"""
    import itertools
    return [tuple((n, k, v) for (n, k), v in zip(fields, vs)) for vs in itertools.product((True, False), repeat=len(fields))]

def case_value(base, name, kind, v):
    """the term a fixed field holds: a literal, `None`, or `Some` of the payload the field would have (so that the reference's
    source predicates - "the content is the payload of this field" - read it as they read the symbolic field)"""
    if kind == 'bool':
        return ('lit', v)
    return ('ctor', 'Some', (('variant', ('field', base, name), 'Some', 0),)) if v else ('ctor', 'None', ())

def case_atoms(base, case):
    """the member of the partition as path-condition atoms about `base` (what a path that tested every field would have recorded)"""
    return tuple(((('field', base, n), v) if k == 'bool' else (('is', ('field', base, n), 'Some'), v)) for n, k, v in case)

def case_name(case):
    return ', '.join('%s=%s' % (n, (str(v).lower() if k == 'bool' else ('Some' if v else 'None'))) for n, k, v in case) or 'plain'

class CaseHook:
    """Interpreter field hook: reading field `name` of a term satisfying `is_base` yields the value the case fixes it to.  Remembers
    the bases it answered for (`bases`), so that the caller can state the case as path-condition atoms about them."""
    def __init__(self, is_base, case):
        self.is_base, self.fixed, self.bases = is_base, {n: (k, v) for n, k, v in case}, []
    def __call__(self, base, name, st):
        if name in self.fixed and self.is_base(base):
            if base not in self.bases:
                self.bases.append(base)
            k, v = self.fixed[name]
            return case_value(base, name, k, v)
        return None
    def env(self, env):
        """a parameter taken apart in the signature is bound without a field read: the same substitution on the initial bindings"""
        out = {}
        for b, t in env.items():
            if t[0] == 'field' and t[2] in self.fixed and self.is_base(t[1]):
                r = self(t[1], t[2], None)
                out[b] = r
            else:
                out[b] = t
        return out

def undecided_optionals(ref, pc):
    """names of the OPT items of a reference shape (at any depth) whose presence the path condition does not decide"""
    out = []
    def rec(r):
        if r[0] == 'OPT':
            if r[1](pc) is None:
                out.append(r[3] or '?')
            rec(r[2])
        elif r[0] == 'C':
            for x in r[3]:
                rec(x)
        elif r[0] == 'MANY':
            rec(r[2])
    rec(ref)
    return out
