"""E4 - armed-ness self-test: every mutant must be reported by the named check (with the named rule), every benign edit
must leave the checks silent.  Works on scratch copies of /repo outside /repo and /verif, removed right after use.
Not part of any property's verdict."""
import json, os, re, shutil, subprocess, sys, time, hashlib

VERIF = os.path.dirname(os.path.dirname(os.path.abspath(__file__)))
SCRATCH = '/root/scratch'

def make_copy(name):
    d = os.path.join(SCRATCH, 'st-' + name)
    shutil.rmtree(d, ignore_errors=True)
    os.makedirs(SCRATCH, exist_ok=True)
    # /repo may be written to while it is copied (a commit, an editor): rsync then answers 23 / 24 (partial transfer); try again
    for attempt in range(3):
        p = subprocess.run(['rsync', '-a', '--delete', '--exclude', 'target', '--exclude', '.git', '/repo/', d + '/'])
        if p.returncode == 0:
            break
        time.sleep(1)
    else:
        raise RuntimeError('cannot copy /repo to %s (rsync exit %d)' % (d, p.returncode))
    return d

def apply(d, m):
    if 'edits' in m:      # several cooperating edits (each {file, re, sub}); all must apply
        return all(apply(d, e) for e in m['edits'])
    p = os.path.join(d, m['file'])
    s = open(p).read()
    new, n = re.subn(m['re'], m['sub'], s, count=0 if m.get('all') else 1)
    if n == 0 or new == s:
        return False
    open(p, 'w').write(new)
    return True

def run_check(d, cid):
    env = dict(os.environ, LDAP3_REPO=d)
    p = subprocess.run([os.path.join(VERIF, 'check'), cid], env=env, capture_output=True, text=True)
    return p.returncode, p.stdout + p.stderr

def cleanup(d):
    shutil.rmtree(d, ignore_errors=True)
    tag = hashlib.sha1(d.encode()).hexdigest()[:8]
    for x in os.listdir(os.path.join(VERIF, '.work')):
        if x.endswith('-' + tag):
            shutil.rmtree(os.path.join(VERIF, '.work', x), ignore_errors=True)

def sensitivity(pid):
    """Armed-ness of one property's check on the *current* tree (thorough tier): every self-test mutant that names the check and
    every seeded defect of the property (seeded/<id>/patch.diff, each confirmed to break the property while compiling and passing
    the repo's tests) is applied to a scratch copy of /repo's working tree and the check is run on it.  Nothing is executed but
    the static check.  Returns a list of {kind, name, result}."""
    out = []
    muts = [json.loads(l) for l in open(os.path.join(VERIF, 'selftest', 'mutants.jsonl')) if l.strip()]
    for m in muts:
        if pid not in m['checks']:
            continue
        d = make_copy('sens-' + m['name'])
        try:
            if not apply(d, m):
                res = 'not-applicable (pattern not found on the current tree)'
            else:
                rc, o = run_check(d, pid)
                rules = sorted(set(re.findall(r'rule=(\S+)', o)))
                res = 'BUILD-ERROR' if 'BUILD-ERROR' in o else ('reported: ' + ', '.join(rules[:3]) if rc == 1 else 'NOT REPORTED')
        finally:
            cleanup(d)
        out.append({'kind': 'mutant', 'name': m['name'], 'result': res})
    sdir = os.path.join(VERIF, 'seeded')
    for sid in sorted(os.listdir(sdir)):
        mp = os.path.join(sdir, sid, 'meta.json')
        if not os.path.exists(mp):
            continue
        meta = json.load(open(mp))
        if meta.get('property') != pid:
            continue
        d = make_copy('sens-' + sid)
        try:
            p = subprocess.run(['git', 'apply', os.path.join(sdir, sid, 'patch.diff')], cwd=d, capture_output=True, text=True)
            if p.returncode != 0:
                res = 'not-applicable (patch does not apply to the current tree)'
            else:
                rc, o = run_check(d, pid)
                rules = sorted(set(re.findall(r'rule=(\S+)', o)))
                res = 'BUILD-ERROR' if 'BUILD-ERROR' in o else ('reported: ' + ', '.join(rules[:3]) if rc == 1 else 'NOT REPORTED')
        finally:
            cleanup(d)
        out.append({'kind': 'seeded-defect', 'name': sid, 'change': meta.get('change', '')[:160], 'result': res})
    return out

def main(args):
    only = [a for a in args if not a.startswith('-')]
    muts = [json.loads(l) for l in open(os.path.join(VERIF, 'selftest', 'mutants.jsonl')) if l.strip()]
    bens = [json.loads(l) for l in open(os.path.join(VERIF, 'selftest', 'benign.jsonl')) if l.strip()]
    if only:
        muts = [m for m in muts if any(o in m['name'] for o in only)]
        bens = [m for m in bens if any(o in m['name'] for o in only)]
    report = {'mutants': [], 'benign': [], 'at': time.strftime('%Y-%m-%dT%H:%M:%S')}
    bad = 0
    for m in muts:
        d = make_copy(m['name'])
        try:
            if not apply(d, m):
                res = 'PATTERN-NOT-FOUND'
            else:
                res = 'MISSED'
                for cid in m['checks']:
                    rc, out = run_check(d, cid)
                    if 'BUILD-ERROR' in out:
                        res = 'DOES-NOT-COMPILE'; break
                    rules = re.findall(r'rule=(\S+)', out)
                    if rc == 1 and any(m['expect'] in r for r in rules):
                        res = 'CAUGHT by %s: %s' % (cid, sorted({r for r in rules if m['expect'] in r})[0]); break
                    if rc == 1:
                        res = 'CAUGHT-OTHER-RULE by %s: %s' % (cid, sorted(set(rules))[:2])
        finally:
            cleanup(d)
        ok = res.startswith('CAUGHT')
        bad += not ok
        print('%-36s %s' % (m['name'], res)); sys.stdout.flush()
        report['mutants'].append({'name': m['name'], 'checks': m['checks'], 'result': res})
    for m in bens:
        d = make_copy(m['name'])
        try:
            if not apply(d, m):
                res = 'PATTERN-NOT-FOUND'
            else:
                res = 'SILENT'
                for cid in m['checks']:
                    rc, out = run_check(d, cid)
                    if 'BUILD-ERROR' in out:
                        res = 'DOES-NOT-COMPILE'; break
                    if rc != 0:
                        res = 'FALSE-ALARM by %s: %s' % (cid, sorted(set(re.findall(r'rule=(\S+)', out)))[:3]); break
        finally:
            cleanup(d)
        ok = res == 'SILENT'
        bad += not ok
        print('%-36s %s' % (m['name'], res)); sys.stdout.flush()
        report['benign'].append({'name': m['name'], 'checks': m['checks'], 'result': res})
    os.makedirs(os.path.join(VERIF, 'selftest'), exist_ok=True)
    if not only:
        json.dump(report, open(os.path.join(VERIF, 'selftest', 'last_report.json'), 'w'), indent=1)
    print('selftest: %d mutants, %d benign, %d not as expected' % (len(muts), len(bens), bad))
    return 1 if bad else 0
