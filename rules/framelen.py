"""Is the outermost BER element already buffered?  Decided on the finite partition of header forms.

The frame decoder may answer something other than "need more bytes" after the TLV parser reported Incomplete only on a path that
cannot be taken while the frame is incomplete, i.e. whose path condition establishes

        len(buf) >= 1 (identifier octet) + 1 + n (length octets) + announced length.

The header of a BER element has finitely many forms: the first length octet X takes one of 256 values (X < 128: short form, the
announced length is X itself; X = 128 + n: long form, n further octets, big-endian - these are the length-reader semantics that
C07 B1 / B2 / B6 decide for lber's reader: one identifier octet of 2 + 1 + 5 bits, form by the first octet, `parse_uint` of the n
octets, of which a 64-bit accumulator keeps the low 64 bits).  For every value of X the decoder body is evaluated again by the
abstract interpreter with octet 1 of the buffer bound to that literal, under the assumption that the parser did not succeed; the
other octets of the buffer and its length stay symbolic.  With X a literal every header computation a decoder can make is either a
literal (the number of length octets, sub-slice bounds, loop counts) or a *linear form* over the symbolic octets and the buffer
length: `(acc << 8) | b` over the n length octets unrolls to sum(b_i * 256^(n-1-i)).  Comparisons in the path condition become
linear inequalities, the true frame length is a linear form as well, and "the path condition implies len(buf) >= true length" is
decided by interval evaluation of a difference of linear forms over the box (octets 0..255, 0 <= len(buf) <= isize::MAX): exact
for the forms that occur, and failing closed for anything the models below cannot read (such a term yields no inequality).

No solver, no execution, no sampling: 256 literal evaluations of the typed HIR, each covering every buffer with that first length
octet."""
import absx, hirq
from absx import Out, UNIT

LEN_MAX = 2 ** 63 - 1          # a slice in memory holds at most isize::MAX octets


class Lin:
    """c + sum(k[a] * a) over the atoms 'L' (number of octets buffered) and ('B', i) (octet i of the buffer); exact integers."""
    __slots__ = ('c', 'k')
    def __init__(self, c=0, k=None):
        self.c = c
        self.k = {a: v for a, v in (k or {}).items() if v}
    def plus(self, o, s=1):
        k = dict(self.k)
        for a, v in o.k.items():
            k[a] = k.get(a, 0) + s * v
        return Lin(self.c + s * o.c, k)
    def times(self, m):
        return Lin(self.c * m, {a: v * m for a, v in self.k.items()})
    def rng(self, lmin=0):
        """smallest and largest value over the box: octets 0..255, lmin <= len(buf) <= isize::MAX"""
        lo = hi = self.c
        for a, v in self.k.items():
            bot, top = (lmin, LEN_MAX) if a == 'L' else (0, 255)
            if v > 0:
                lo += v * bot; hi += v * top
            else:
                lo += v * top; hi += v * bot
        return lo, hi
    def is_const(self):
        return not self.k
    def pow2(self):
        """largest m such that the value is a multiple of 2^m whatever the atoms are (64 for the constant 0)"""
        vals = [abs(v) for v in list(self.k.values()) + [self.c] if v]
        if not vals:
            return 64
        return min((v & -v).bit_length() - 1 for v in vals)
    def show(self):
        def at(a):
            return 'len(buf)' if a == 'L' else 'buf[%d]' % a[1]
        parts = ['%s%s' % ('' if v == 1 else '%d*' % v, at(a)) for a, v in sorted(self.k.items(), key=lambda kv: str(kv[0]))]
        if self.c or not parts:
            parts.insert(0, str(self.c))
        return ' + '.join(parts[:4]) + (' + ..' if len(parts) > 4 else '')


class FramedInterp(absx.Interp):
    """The interpreter with (i) arrays of known length iterated exactly and (ii) the type of every built-in arithmetic operation
    recorded as a cast around its term, so that wrap-around can be reasoned about: `a << 8` computed in u64 is the mathematical
    product reduced modulo 2^64, which is what `('cast', ('bin', 'Shl', a, 8), 'u64')` says."""
    ARITH = ('Add', 'Sub', 'Mul', 'Shl', 'BitOr', 'BitAnd')
    def arith_result(self, op, r, ty):
        if op in self.ARITH and r[0] == 'bin' and ty:
            return ('cast', r, hirq.strip_refs(ty))
        return r
    def literal_elems(self, itv):
        t, rev = itv, False
        while t[0] == 'call' and t[1].rsplit('::', 1)[-1] in ('rev', 'into_iter', 'iter') and len(t[2]) == 1:
            rev ^= t[1].rsplit('::', 1)[-1] == 'rev'
            t = t[2][0]
        if t[0] == 'array' and len(t[1]) <= 128:
            return list(reversed(t[1])) if rev else list(t[1])
        return absx.Interp.literal_elems(self, itv)


class FramedBuffer:
    """Summary: the decoder's buffer with octet 1 (the first length octet) equal to the literal `x`.
    buf.get(k) / buf[k]: octet k when k < len(buf) (octet 1 is the literal; any other is the symbolic ('octet', buf, k));
    buf.get(a..b) / buf[a..b] with literal bounds: the array of octets a..b-1 when a <= b <= len(buf).
    Whether the read succeeds is recorded in the path condition as `get(buf, index) is Some` (indexing panics where `get`
    answers None).  The TLV parser's result is assumed not to be Ok: only the paths after a parser failure are of interest."""
    GET = 'core::slice::<impl [T]>::get'
    FIRST, SPLIT_FIRST = 'core::slice::<impl [T]>::first', 'core::slice::<impl [T]>::split_first'
    def __init__(self, buf, x, parser):
        self.buf, self.x, self.parser = buf, x, parser
    def octet(self, k):
        return ('lit', self.x) if k == 1 else ('octet', self.buf, k)
    @staticmethod
    def bounds(idx):
        if idx[0] == 'lit' and isinstance(idx[1], int) and not isinstance(idx[1], bool):
            return idx[1], None
        if idx[0] == 'struct' and idx[1].rsplit('::', 1)[-1] in ('Range', 'RangeTo') and all(v[0] == 'lit' and isinstance(v[1], int) for _n, v in idx[2]):
            fl = dict(idx[2])
            return (fl['start'][1] if 'start' in fl else 0), fl['end'][1]
        return None
    # the interpreter's value-domain hooks (absx.Interp(domain=..)): only indexing is ours
    def binop(self, op, a, b):
        return None
    def eq(self, a, b):
        return None
    def iter_elems(self, I, itv, st, fornode):
        return None
    def index(self, I, a, b, node, st):
        return self.read('#index', [a, b], node, st, I) if a == self.buf else None
    def elem(self, v, i, from_end):
        # an element a slice pattern binds by position (the pattern matched: the buffer is known to hold it): octet i of the buffer
        return self.octet(i) if v == self.buf and not from_end else None
    def __call__(self, I, cal, args, node, st):
        return self.read(cal, args, node, st, I)
    def read(self, cal, args, node, st, I):
        if cal == self.parser:
            t = ('call', cal, tuple(args), node.get('id'))
            return [Out('val', t, st.event(('call', cal, tuple(args), node)).assume(('is', t, 'Ok'), False))]
        if len(args) == 1 and args[0] == self.buf and cal in (self.FIRST, self.SPLIT_FIRST):
            # first() = get(0); split_first() = Some((octet 0, the buffer without it)) exactly when get(0) is Some
            probe = ('call', self.GET, (self.buf, ('lit', 0)), None)
            val = self.octet(0) if cal == self.FIRST else ('tuple', (self.octet(0), absx.subslice_term(self.buf, 1, 0)))
            return [Out('val', ('ctor', 'Some', (val,)) if there else ('ctor', 'None', ()), s)
                    for there, s in I.decide(('is', probe, 'Some'), st.event(('call', cal, tuple(args), node)))]
        if len(args) != 2 or args[0] != self.buf or not (cal == '#index' or cal == self.GET):
            return None
        bd = self.bounds(args[1])
        if bd is None or bd[0] < 0:
            return None
        a, b = bd
        if b is None:
            val = self.octet(a)
        elif a <= b and b - a <= 128:
            val = ('array', tuple(self.octet(i) for i in range(a, b)))
        elif a > b:
            # start > end: `get` answers None, indexing panics
            return [Out('val', ('ctor', 'None', ()), st)] if cal == self.GET else [Out('div', UNIT, st.event(('panic', 'slice index starts after its end', tuple(args), node)))]
        else:
            return None
        probe = ('call', self.GET, (self.buf, args[1]), None)
        outs = []
        for there, s in I.decide(('is', probe, 'Some'), st.event(('call', cal, tuple(args), node))):
            if cal == self.GET:
                outs.append(Out('val', ('ctor', 'Some', (val,)) if there else ('ctor', 'None', ()), s))
            elif there:
                outs.append(Out('val', val, s))
            else:
                outs.append(Out('div', UNIT, s.event(('panic', 'index out of range', tuple(args), node))))
        return outs


class HeaderClass:
    """Linear reading of terms and path conditions for one value x of the first length octet."""
    def __init__(self, buf, x):
        self.buf, self.x = buf, x
        self.lmin = 0          # octets known to be buffered on the path being read (see constraints)

    def true_len(self):
        """1 identifier octet + length octets + announced length, as a linear form over the length octets"""
        if self.x < 128:
            return Lin(2 + self.x)
        n = self.x - 128
        # big-endian value of octets 2 .. 2+n-1 in a 64-bit accumulator: octets above the low eight are shifted out
        return Lin(2 + n, {('B', 2 + i): 256 ** (n - 1 - i) for i in range(max(0, n - 8), n)})

    def fit(self, v, ty):
        """the value of a term computed in / converted to integer type ty: unchanged when it is in range for every valuation; an
        unsigned type keeps the value modulo 2^w, and reducing the coefficients modulo 2^w does not change that residue - if the
        reduced form is in range for every valuation it *is* the result"""
        rng = absx.INT_RANGE.get(hirq.strip_refs(str(ty or '')))
        if v is None or rng is None:
            return None
        lo, hi = v.rng(self.lmin)
        if rng[0] <= lo and hi <= rng[1]:
            return v
        if rng[0] == 0:
            w = rng[1] + 1
            r = Lin(v.c % w, {a: c % w for a, c in v.k.items()})
            lo, hi = r.rng(self.lmin)
            if 0 <= lo and hi <= rng[1]:
                return r
        return None

    def lin(self, t):
        """Linear form of an integer-valued term, or None when the models cannot read it."""
        k = t[0]
        if k == 'lit':
            return Lin(t[1]) if isinstance(t[1], int) and not isinstance(t[1], bool) else None
        if k == 'octet' and t[1] == self.buf:
            return Lin(self.x) if t[2] == 1 else Lin(0, {('B', t[2]): 1})
        if k == 'call' and t[1].rsplit('::', 1)[-1] in ('len', 'remaining') and len(t[2]) == 1 and t[2][0] == self.buf:
            return Lin(0, {'L': 1})
        if k == 'call' and t[1].rsplit('::', 1)[-1] in ('len', 'input_len') and len(t[2]) == 1 and t[2][0][0] == 'subslice' and t[2][0][1] == self.buf:
            # the buffer without its first a and last b octets (what `rest @ ..` of a slice pattern that matched is bound to: the
            # buffer holds at least a + b octets there) has len(buf) - a - b octets
            return Lin(-(t[2][0][2] + t[2][0][3]), {'L': 1})
        if k == 'cast':
            if t[1][0] == 'bin' and len(t[1]) == 4:
                # a built-in operation computed in type t[2] (FramedInterp records the type of every one): its mathematical result,
                # then what that type keeps of it
                return self.fit(self.arith(t[1], t[2]), t[2])
            return self.fit(self.lin(t[1]), t[2])
        if k == 'call' and t[1].rsplit('::', 1)[-1] in ('from_be_bytes', 'from_le_bytes') and t[1].startswith('core::num::<impl u') and len(t[2]) == 1 and t[2][0][0] == 'array':
            # the unsigned integer whose big- (little-) endian representation the w octets are
            es = [self.fit(self.lin(e), 'u8') for e in t[2][0][1]]
            rng = absx.INT_RANGE.get(t[1][len('core::num::<impl '):].split('>')[0])
            if rng is None or any(e is None for e in es) or 256 ** len(es) != rng[1] + 1:
                return None
            if t[1].endswith('from_be_bytes'):
                es = es[::-1]
            r = Lin(0)
            for i, e in enumerate(es):
                r = r.plus(e.times(256 ** i))
            return r
        if k == 'call' and t[1].rsplit('::', 1)[-1] in ('wrapping_add', 'wrapping_sub') and t[1].startswith('core::num::<impl u') and len(t[2]) == 2:
            a, b = self.lin(t[2][0]), self.lin(t[2][1])          # the mathematical result modulo 2^w: exactly what `fit` keeps for an unsigned type
            return None if a is None or b is None else self.fit(a.plus(b, 1 if t[1].endswith('wrapping_add') else -1), t[1][len('core::num::<impl '):].split('>')[0])
        if k == 'variant' and t[3] == 0 and t[1][0] == 'call' and t[2] in ('Ok', 'Some'):
            cal, args = t[1][1], t[1][2]
            name = cal.rsplit('::', 1)[-1]
            if name in ('try_from', 'try_into') and 'core::convert::num' in cal and len(args) == 1 and t[2] == 'Ok':
                return self.lin(args[0])          # integer TryFrom: Ok(v) exactly when v is representable, and then it is v
            if name in ('checked_add', 'checked_sub') and cal.startswith('core::num::<impl ') and len(args) == 2 and t[2] == 'Some':
                a, b = self.lin(args[0]), self.lin(args[1])          # Some(r) exactly when the mathematical result is representable: r is that result
                return None if a is None or b is None else a.plus(b, 1 if name == 'checked_add' else -1)
        return None          # (an arithmetic term whose type is not recorded is not read: its wrap-around is unknown)

    def arith(self, t, ty):
        """mathematical (unbounded) result of a built-in binary operation on linear forms"""
        a, b = self.lin(t[2]), self.lin(t[3])
        if a is None or b is None:
            return None
        op = t[1]
        rng = absx.INT_RANGE.get(hirq.strip_refs(str(ty or '')))
        width = (rng[1] - rng[0] + 1).bit_length() - 1 if rng else 0
        if op == 'Add':
            return a.plus(b)
        if op == 'Sub':
            return a.plus(b, -1)
        if op == 'Mul':
            return a.times(b.c) if b.is_const() else (b.times(a.c) if a.is_const() else None)
        if op == 'Shl' and b.is_const() and 0 <= b.c < width:
            return a.times(2 ** b.c)          # (a shift by the type's width or more is not this: it panics, or the amount is masked)
        if op == 'BitOr':
            # disjoint bits: one operand is a multiple of 2^m for every valuation, the other lies in 0 .. 2^m - 1
            for p, q in ((a, b), (b, a)):
                if p.rng(self.lmin)[0] >= 0 and q.rng(self.lmin)[0] >= 0 and q.rng(self.lmin)[1] < 2 ** p.pow2():
                    return p.plus(q)
            return None
        if op == 'BitAnd':
            for p, q in ((a, b), (b, a)):
                if q.is_const() and q.c >= 0 and (q.c & (q.c + 1)) == 0 and p.rng(self.lmin)[0] >= 0 and p.rng(self.lmin)[1] <= q.c:
                    return p          # masking with 2^m - 1 a value that is already below 2^m
            if a.is_const() and b.is_const():
                return Lin(a.c & b.c)
        return None

    def constraints(self, pc):
        """Linear forms known to be >= 0 on a path, read off its condition; atoms the models cannot read contribute nothing.
        The buffer is not modified on the paths this is used for, so a bound `len(buf) >= k` found anywhere in the condition holds
        wherever `len(buf)` was read: the condition is read again with it (it can make `len(buf) - 2` readable), until nothing
        changes."""
        self.lmin = 0
        for _round in range(4):
            cs = self.constraints_once(pc)
            lmin = max([self.lmin] + [-c.c for c in cs if c.k == {'L': 1}])
            if lmin == self.lmin:
                break
            self.lmin = lmin
        return cs

    def constraints_once(self, pc):
        out = []
        def cmp(op, a, b, truth):
            a, b = self.lin(a), self.lin(b)
            if a is None or b is None:
                return
            if not truth:
                op = {'Lt': 'Ge', 'Le': 'Gt', 'Gt': 'Le', 'Ge': 'Lt', 'Eq': 'Ne', 'Ne': 'Eq'}[op]
            if op == 'Lt':
                out.append(b.plus(a, -1).plus(Lin(-1)))
            elif op == 'Le':
                out.append(b.plus(a, -1))
            elif op == 'Gt':
                out.append(a.plus(b, -1).plus(Lin(-1)))
            elif op == 'Ge':
                out.append(a.plus(b, -1))
            elif op == 'Eq':
                out.append(a.plus(b, -1)); out.append(b.plus(a, -1))
        def atom(a, truth):
            if a[0] == 'not':
                return atom(a[1], not truth)
            if a[0] == 'bin' and len(a) == 4 and a[1] in ('Lt', 'Le', 'Gt', 'Ge', 'Eq', 'Ne'):
                return cmp(a[1], a[2], a[3], truth)
            if a[0] == 'is' and a[2] == 'Some' and a[1][0] == 'call' and a[1][1] == FramedBuffer.GET and a[1][2][0] == self.buf:
                bd = FramedBuffer.bounds(a[1][2][1])
                if bd is None:
                    return
                need = bd[0] + 1 if bd[1] is None else bd[1]          # octets that must be there for the read to succeed
                if truth:
                    out.append(Lin(-need, {'L': 1}))
                elif bd[1] is None or bd[0] <= bd[1]:
                    out.append(Lin(need - 1, {'L': -1}))
            if a[0] == 'call' and a[1].rsplit('::', 1)[-1] == 'is_empty' and len(a[2]) == 1 and a[2][0] == self.buf:
                out.append(Lin(0, {'L': -1}) if truth else Lin(-1, {'L': 1}))
            if a[0] == 'call' and a[1].rsplit('::', 1)[-1] == 'is_empty' and len(a[2]) == 1 and a[2][0][0] == 'subslice' and a[2][0][1] == self.buf:
                k = a[2][0][2] + a[2][0][3]          # (see lin: such a sub-slice has len(buf) - k octets)
                out.append(Lin(k, {'L': -1}) if truth else Lin(-k - 1, {'L': 1}))
        for a, truth in pc:
            atom(a, truth)
        return out

    def complete(self, pc):
        """(True, None) when the path condition implies len(buf) >= true frame length, or cannot hold at all; (False, what is
        established at best) otherwise."""
        cs = self.constraints(pc)
        goal = Lin(0, {'L': 1}).plus(self.true_len(), -1)
        # contradiction: a form that must be >= 0 (or the sum of two) is negative for every valuation
        for i, c in enumerate(cs):
            if c.rng(self.lmin)[1] < 0 or any(c.plus(d).rng(self.lmin)[1] < 0 for d in cs[i + 1:]):
                return True, None
        best = None
        for i, c in enumerate(cs):
            for d in [None] + cs[i + 1:]:
                s = c if d is None else c.plus(d)
                gap = goal.plus(s, -1).rng(self.lmin)[0]          # goal >= s >= 0 for every valuation when this is >= 0
                if gap >= 0:
                    return True, None
                if d is None and c.k.get('L', 0) > 0 and (best is None or gap > best[0]):
                    best = (gap, c)
        return False, best


def incomplete_answers(f, B, buf, parser, verdict, mutations, interp_kw=None):
    """Evaluate the decoder body once for every value of the first length octet and collect the paths that, after the parser
    reported Incomplete, answer something other than need-more without having established that the whole frame is buffered.
    `verdict(out) -> (incomplete?, answer is need-more?)`, `mutations(out)` -> the buffer-modifying calls of a path.
    Returns [(x, description)]."""
    bad = []
    for x in range(256):
        fb = FramedBuffer(buf, x, parser)
        I = FramedInterp(f, B, summaries=[fb], domain=fb, local_try=True, unroll=136, **(interp_kw or {}))
        H = HeaderClass(buf, x)
        for o in I.run():
            if o.kind == 'loop':
                bad.append((x, 'a loop over the header that the evaluation could not finish')); continue
            if o.kind == 'div':
                if any(e[0] == 'overflow' for e in o.st.ev):
                    bad.append((x, 'arithmetic on the header overflows'))
                continue
            if o.kind not in ('val', 'ret'):
                continue
            inc, need_more = verdict(o)
            if inc is not True or need_more:
                continue
            if mutations(o):
                bad.append((x, 'the buffer is modified on the path, so what was tested about it no longer describes it')); continue
            ok, best = H.complete(o.st.pc)
            if not ok:
                want = H.true_len()
                got = ('only len(buf) >= %s is established' % best[1].plus(Lin(0, {'L': -best[1].k['L']})).times(-1).show()) if best and best[1].k.get('L') == 1 \
                    else 'nothing that bounds len(buf) from below by the frame length is established'
                bad.append((x, 'the frame is complete from len(buf) >= %s, %s' % (want.show(), got)))
    return bad


def classes(xs):
    """compact spelling of a set of first-octet values"""
    xs = sorted(set(xs))
    runs, i = [], 0
    while i < len(xs):
        j = i
        while j + 1 < len(xs) and xs[j + 1] == xs[j] + 1:
            j += 1
        runs.append('0x%02x' % xs[i] if i == j else '0x%02x..0x%02x' % (xs[i], xs[j]))
        i = j + 1
    return ', '.join(runs)
