"""A symbolic string domain for the abstract interpreter (absx.Interp(domain=..., summaries=[domain.summary])).

Nothing is executed: the interpreter evaluates a body on *structured* inputs, and this module says what the std functions over
`str`, `Option`, iterators over the pieces of a string, `HashSet` and the percent-decoder yield on them.

A string value is a sequence of parts, each a literal chunk or an opaque ATOM with stated facts:
    ('lit', 'text')                                   a wholly literal string (also: a char - chars and one-character strings coincide)
    ('sstr', (part, ...))     part = 'chunk' | atom   a string with at least one atom
    ('atom', name, excl, nofirst)                     a NON-EMPTY, ASCII-ONLY text that contains none of the characters in `excl` and does
                                                      not begin with any character in `nofirst` (nofirst includes excl); nothing else is known
    ('lower', atom)                                   the ASCII-lower-cased atom (same facts: lower-casing only touches letters A-Z)
Whole-string (in)equality of a single atom with a literal that its facts do not exclude is answered "different" and RECORDED in
`compared`: the atom stands for every text that differs from all literals the code compares it with, and the rule that drives the
evaluation must evaluate a literal class for every recorded literal (finite partition by the constants of the comparisons).
Every model answers None when the facts do not decide it: the call then stays an opaque term and the class fails closed.

Further terms:  ('first', atom) first character (= one-character prefix, = first byte) of an atom;  ('siter', elems, uid) an iterator over
known elements (cursor in the heap under ('cursor', term); MORE as last element = unknown rest);  ('asbytes', s);  ('strlen', s);
('at', s, part, off) a byte position inside s found by find();  ('pct', X) percent_decode_str(X);  ('utf8', X) its decode_utf8() result
(an opaque Result: Ok(decoded X) or Err);  ('hset', uid) a HashSet whose elements are in the heap under the same key.
"""
from absx import Out, St, UNIT, TRUE, FALSE, neg_term
import hirq

MORE = ('more',)

def pct_decode_exact(text):
    """percent_encoding::percent_decode(text.as_bytes()) collected and read as UTF-8: every `%` that is followed by two hex digits
    stands for the octet they spell, every other octet (a `%` not followed by two hex digits included) for itself - one pass, left
    to right, the decoded octets are not looked at again (percent-encoding 2.x, `PercentDecode::next` / `after_percent_sign`).
    None when the octets are not valid UTF-8."""
    b, out, i = text.encode(), bytearray(), 0
    HEX = b'0123456789abcdefABCDEF'
    while i < len(b):
        if b[i] == 0x25 and i + 2 < len(b) and b[i + 1] in HEX and b[i + 2] in HEX:
            out.append(int(b[i + 1:i + 3], 16)); i += 3
        else:
            out.append(b[i]); i += 1
    try:
        return bytes(out).decode('utf-8')
    except UnicodeDecodeError:
        return None
NONE = ('ctor', 'None', ())

def some(x):
    return ('ctor', 'Some', (x,))

def atom(name, excl='', nofirst=''):
    ex = ''.join(sorted(set(excl)))
    return ('atom', name, ex, ''.join(sorted(set(nofirst) | set(excl))))

def is_atomlike(p):
    return isinstance(p, tuple) and p and p[0] in ('atom', 'lower')

def afacts(p):
    """(excluded anywhere, excluded as first character) of an atom-like part"""
    if p[0] == 'lower':
        ex, nf = afacts(p[1])
        # lower-casing maps only A-Z, so an exclusion of any other character survives; 'a'..'z' may appear anew
        keep = lambda cs: ''.join(c for c in cs if not c.isalpha())
        return keep(ex), keep(nf)
    return p[2], p[3]

def mk(ps):
    out = []
    for p in ps:
        if isinstance(p, str):
            if not p:
                continue
            if out and isinstance(out[-1], str):
                out[-1] += p
            else:
                out.append(p)
        else:
            out.append(p)
    if all(isinstance(p, str) for p in out):
        return ('lit', ''.join(out))
    return ('sstr', tuple(out))

def S(*ps):
    """string from chunks / atoms / other strings"""
    flat = []
    for p in ps:
        if isinstance(p, tuple) and p and p[0] in ('lit', 'sstr'):
            flat.extend(parts(p))
        else:
            flat.append(p)
    return mk(flat)

def parts(t):
    if not isinstance(t, tuple) or not t:
        return None
    if t[0] == 'lit' and isinstance(t[1], str):
        return [t[1]] if t[1] else []
    if t[0] == 'sstr':
        return list(t[1])
    return None

def is_str(t):
    return parts(t) is not None

def all_lit(ps):
    return all(isinstance(p, str) for p in ps)

def text(ps):
    return ''.join(ps)

def minlen(ps):
    return sum(len(p.encode()) if isinstance(p, str) else 1 for p in ps)

def pat_text(t):
    """the text of a literal pattern argument (char or &str), None for anything else (closures, char sets)"""
    if t[0] == 'lit' and isinstance(t[1], str):
        return t[1]
    return None

def rev(ps):
    return [p[::-1] if isinstance(p, str) else p for p in reversed(ps)]

def has_char(ps, c):
    if any(isinstance(p, str) and c in p for p in ps):
        return True
    if all(isinstance(p, str) or c in afacts(p)[0] for p in ps):
        return False
    return None

def split_parts(ps, c, limit=None):
    """The pieces of the string split at the occurrences of the one-character pattern c, scanning from the left, at most `limit`
    pieces (the last one is then the unexamined remainder).  None when an atom that would have to be scanned may contain c."""
    if limit == 0:
        return []
    pieces, cur, work = [], [], list(ps)
    while work:
        if limit is not None and len(pieces) == limit - 1:
            cur.extend(work)
            break
        p = work.pop(0)
        if isinstance(p, str):
            k = p.find(c)
            if k < 0:
                cur.append(p)
            else:
                cur.append(p[:k])
                pieces.append(cur)
                cur = []
                if p[k + 1:]:
                    work.insert(0, p[k + 1:])
        elif c in afacts(p)[0]:
            cur.append(p)
        else:
            return None
    pieces.append(cur)
    return pieces

def rsplit_parts(ps, c, limit=None):
    r = split_parts(rev(ps), c, limit)
    return None if r is None else [rev(x) for x in r]

def strip_prefix(ps, p):
    """('some', rest) / ('none',) / None (undecided) for s.strip_prefix(p), p a literal text"""
    if p == '':
        return ('some', list(ps))
    if not ps:
        return ('none',)
    h = ps[0]
    if isinstance(h, str):
        if len(h) >= len(p):
            return ('some', [h[len(p):]] + list(ps[1:])) if h.startswith(p) else ('none',)
        if not p.startswith(h) or len(ps) == 1:
            return ('none',)
        nxt = ps[1]            # an atom follows the chunk (chunks are merged): it would have to begin with p[len(h)]
        return ('none',) if p[len(h)] in afacts(nxt)[1] else None
    return ('none',) if p[0] in afacts(h)[1] else None

def strip_suffix(ps, p):
    if p == '':
        return ('some', list(ps))
    if not ps:
        return ('none',)
    h = ps[-1]
    if isinstance(h, str):
        if len(h) >= len(p):
            return ('some', list(ps[:-1]) + [h[:len(h) - len(p)]]) if h.endswith(p) else ('none',)
        if not p.endswith(h) or len(ps) == 1:
            return ('none',)
        nxt = ps[-2]
        return ('none',) if p[len(p) - len(h) - 1] in afacts(nxt)[0] else None
    return ('none',) if p[-1] in afacts(h)[0] else None

def trim_start_matches(ps, c):
    """s with ALL leading occurrences of the one-character pattern c removed (None: undecided)"""
    ps = list(ps)
    while ps:
        h = ps[0]
        if isinstance(h, str):
            t = h.lstrip(c) if len(c) == 1 else None
            if t is None:
                return None
            if t:
                ps[0] = t
                return ps
            ps.pop(0)
        else:
            return ps if c in afacts(h)[1] else None
    return ps

def trim_end_matches(ps, c):
    ps = list(ps)
    while ps:
        h = ps[-1]
        if isinstance(h, str):
            t = h.rstrip(c)
            if t:
                ps[-1] = t
                return ps
            ps.pop()
        else:
            return ps if c in afacts(h)[0] else None
    return ps

def slice_parts(ps, lo, hi):
    """s[lo..hi] with literal byte offsets (hi None = to the end): a string term, 'panic' (out of range / not on a character
    boundary) or None (the offsets reach into an atom of unknown length)."""
    lo = lo or 0
    if hi is not None and hi < lo:
        return 'panic'
    if all_lit(ps):
        b = text(ps).encode()
        h = len(b) if hi is None else hi
        if not (0 <= lo <= h <= len(b)):
            return 'panic'
        try:
            b[:lo].decode(); b[lo:h].decode(); b[h:].decode()
        except UnicodeDecodeError:
            return 'panic'
        return ('lit', b[lo:h].decode())
    if not ps:
        return None
    h0 = ps[0]
    if isinstance(h0, str):
        if not h0.isascii():
            return None
        n = len(h0)
        if lo <= n and hi is None:
            return mk([h0[lo:]] + list(ps[1:]))     # the string is at least n bytes long: in range
        if hi is not None and hi <= n:
            return ('lit', h0[lo:hi])
        return None
    # the string begins with an atom: non-empty and ASCII, so offsets 0 and 1 are in range and on character boundaries
    if lo == 0 and hi is None:
        return mk(ps)
    if lo == 0 and hi == 0:
        return ('lit', '')
    if lo == 0 and hi == 1:
        return ('first', h0)
    return None

def first_elems(ps, as_bytes):
    """elements of s.chars() / s.bytes(): exact over leading chunks, then the first character of an atom, then unknown"""
    out = []
    for p in ps:
        if isinstance(p, str):
            out.extend(('lit', x) for x in (p.encode() if as_bytes else p))
        else:
            out.append(('first', p))
            out.append(MORE)
            return out
    return out


class StrDomain:
    def __init__(self, facts=None):
        self.facts = facts
        self.compared = set()       # (atom name, literal, 'eq' | 'ci'): whole-string comparisons answered "different" by assumption
        self.predicates = {}        # workspace predicate -> {(position of the input argument, literal it was compared with)}
        self.bounds = {}            # site of a bounded operation (splitn(n, ..), take(n)) -> (n, whether the bound was ever binding): an input that
                                    # never reaches the bound says nothing about what happens beyond it
        self._impls = {}

    # ------------------------------------------------------------------ equality
    def eq(self, a, b, ci=False):
        """True / False / None: are the two values equal (ci: ignoring ASCII case, strings only)"""
        if a == b:
            return True
        if a[0] == 'first' or b[0] == 'first':
            f, o = (a, b) if a[0] == 'first' else (b, a)
            if o[0] == 'lit':
                c = o[1]
                if isinstance(c, int) and not isinstance(c, bool):
                    c = chr(c) if 0 <= c < 128 else None
                    if c is None:
                        return False            # an atom is ASCII-only
                if isinstance(c, str):
                    if len(c) != 1:
                        return False            # one character is not a text of another length
                    return False if c in afacts(f[1])[1] else None
            return None
        pa, pb = parts(a), parts(b)
        if pa is not None and pb is not None:
            if all_lit(pa) and all_lit(pb):
                return (text(pa).lower() == text(pb).lower()) if ci and text(pa).isascii() and text(pb).isascii() else (text(pa) == text(pb) if not ci else None)
            if all_lit(pa):
                pa, pb = pb, pa
            if not all_lit(pb):
                return None
            L = text(pb)
            fold = (lambda x: x.lower()) if ci else (lambda x: x)
            # structural refutation: length, literal head and tail
            if minlen(pa) > len(L.encode()):
                return False
            if isinstance(pa[0], str) and not fold(L).startswith(fold(pa[0])):
                return False
            if isinstance(pa[-1], str) and not fold(L).endswith(fold(pa[-1])):
                return False
            at = 0
            for p in pa:          # the literal chunks must occur in the literal in this order, without overlap
                if isinstance(p, str):
                    at = fold(L).find(fold(p), at)
                    if at < 0:
                        return False
                    at += len(p)
            if len(pa) == 1 and is_atomlike(pa[0]):
                x = pa[0]
                ex, nf = afacts(x)
                # (the facts speak of the characters of the atom as they are; under case folding only non-letters can be used)
                usable = (lambda c: not c.isalpha()) if (ci or x[0] == 'lower') else (lambda c: True)
                if any(c in ex and usable(c) for c in L) or (L[0] in nf and usable(L[0])):
                    return False
                base = x[1] if x[0] == 'lower' else x
                self.compared.add((base[1], L, 'ci' if (ci or x[0] == 'lower') else 'eq'))
                return False
            return None
        if ci:
            return None
        # structural equality of constructor terms / tuples / numbers
        if a[0] == 'ctor' and b[0] == 'ctor':
            if a[1] != b[1] or len(a[2]) != len(b[2]):
                return False
            return self._all_eq(a[2], b[2])
        if a[0] == 'tuple' and b[0] == 'tuple' and len(a[1]) == len(b[1]):
            return self._all_eq(a[1], b[1])
        if a[0] == 'lit' and b[0] == 'lit' and type(a[1]) is type(b[1]):
            return a[1] == b[1]
        return None

    def _all_eq(self, xs, ys):
        unknown = False
        for x, y in zip(xs, ys):
            r = self.eq(x, y)
            if r is False:
                return False
            if r is None:
                unknown = True
        return None if unknown else True

    def binop(self, op, a, b):
        if op in ('Eq', 'Ne'):
            for x, y in ((a, b), (b, a)):
                if x[0] == 'strlen' and y[0] == 'lit' and isinstance(y[1], int) and not isinstance(y[1], bool):
                    return (op == 'Ne') if y[1] < minlen(parts(x[1])) else None      # the length is at least minlen
            if not (self._mine(a) or self._mine(b)):
                return None
            r = self.eq(a, b)
            return None if r is None else (r == (op == 'Eq'))
        if op in ('Lt', 'Le', 'Gt', 'Ge'):
            flip = {'Lt': 'Gt', 'Le': 'Ge', 'Gt': 'Lt', 'Ge': 'Le'}
            if b[0] == 'strlen':
                a, b, op = b, a, flip[op]
            if a[0] == 'strlen' and b[0] == 'lit' and isinstance(b[1], int) and not isinstance(b[1], bool):
                m, k = minlen(parts(a[1])), b[1]      # len >= m is all that is known
                if op == 'Ge' and k <= m: return True
                if op == 'Gt' and k < m: return True
                if op == 'Lt' and k <= m: return False
                if op == 'Le' and k < m: return False
        return None

    def _mine(self, t):
        """a value this domain compares: texts and their parts, and Option / tuple / enum values built from them and from literals"""
        if not (isinstance(t, tuple) and t):
            return False
        if t[0] in ('sstr', 'first', 'strlen') or (t[0] == 'lit' and isinstance(t[1], str)):
            return True
        if t[0] == 'ctor' and t[2]:
            return all(self._mine(x) or x[0] == 'lit' for x in t[2])
        if t[0] == 'tuple' and t[1]:
            return all(self._mine(x) or x[0] == 'lit' for x in t[1])
        return False

    # ------------------------------------------------------------------ indexing / slicing
    def _range(self, b):
        """(lo, hi) of a range struct term; offsets are ints, ('at', ..) markers (+ literal) or None"""
        if not (b[0] == 'struct' and b[1].rsplit('::', 1)[-1] in ('RangeFrom', 'RangeTo', 'Range', 'RangeFull', 'RangeToInclusive', 'RangeInclusive')):
            return None
        fl = dict(b[2])
        lo, hi = fl.get('start'), fl.get('end')
        if b[1].endswith('Inclusive'):
            if hi is None or hi[0] != 'lit':
                return None
            hi = ('lit', hi[1] + 1)
        return lo, hi

    def slice(self, a, b):
        """s[range]: a string term / 'panic' / None"""
        ps = parts(a)
        r = self._range(b)
        if ps is None or r is None:
            return None
        lo, hi = r
        def marker(x):
            # ('at', s, i, off) or that plus a literal
            if x is not None and x[0] == 'at' and x[1] == a:
                return x[2], x[3], 0
            if x is not None and x[0] == 'bin' and x[1] == 'Add' and x[2][0] == 'at' and x[2][1] == a and x[3][0] == 'lit':
                return x[2][2], x[2][3], x[3][1]
            return None
        ml, mh = marker(lo), marker(hi)
        if ml is not None or mh is not None:
            # offsets found by find(): position of byte `off` of part i (a literal chunk), plus a literal
            def cut(m):
                i, off, add = m
                chunk = ps[i]
                if not chunk.isascii() or not (0 <= off + add <= len(chunk)):
                    return None
                return ps[:i] + [chunk[:off + add]], [chunk[off + add:]] + ps[i + 1:]
            if ml is not None and hi is None:
                c = cut(ml)
                return None if c is None else mk(c[1])
            if mh is not None and (lo is None or lo == ('lit', 0)):
                c = cut(mh)
                return None if c is None else mk(c[0])
            return None
        if (lo is not None and not (lo[0] == 'lit' and isinstance(lo[1], int))) or (hi is not None and not (hi[0] == 'lit' and isinstance(hi[1], int))):
            return None
        return slice_parts(ps, lo[1] if lo is not None else 0, hi[1] if hi is not None else None)

    def index(self, I, a, b, node, st):
        if is_str(a):
            r = self.slice(a, b)
            if r == 'panic':
                return [Out('div', UNIT, st.event(('panic', 'str slice out of range', (a, b), node)))]
            if r is not None:
                return [Out('val', r, st)]
        if a[0] == 'asbytes' and b[0] == 'lit' and isinstance(b[1], int):
            el = first_elems(parts(a[1]), True)
            if b[1] < len(el) and el[b[1]] != MORE:
                return [Out('val', el[b[1]], st)]
            if MORE not in el:
                return [Out('div', UNIT, st.event(('panic', 'index out of range', (a, b), node)))]
        return None

    # ------------------------------------------------------------------ sequences
    def seq(self, t, st):
        """the remaining elements of a sequence value known element by element, or None"""
        if t[0] == 'siter':
            n = st.heap.get(('cursor', t), 0)
            return list(t[1][n:])
        if t[0] in ('array', 'vec'):
            return list(t[1])
        if t[0] == 'lit' and isinstance(t[1], bytes):
            return [('lit', x) for x in t[1]]
        return None

    def iter_elems(self, I, itv, st, fornode):
        if itv[0] != 'siter' or fornode.get('by_next'):
            return None
        el = self.seq(itv, st)
        return None if MORE in el else el

    def bound(self, node, n, binding):
        k = (node.get('id'), n)
        self.bounds[k] = self.bounds.get(k, False) or bool(binding)

    def new_iter(self, elems, st):
        u, st2 = st.fresh('it')
        return ('siter', tuple(elems), u[2]), st2

    def advance(self, t, k, st):
        h = dict(st.heap)
        h[('cursor', t)] = h.get(('cursor', t), 0) + k
        return St(st.env, h, st.ev, st.pc, st.ctr)

    # ------------------------------------------------------------------ user equality (hand-written PartialEq of a workspace enum)
    def user_eq_impl(self, I, a, b):
        if not (a[0] == 'ctor' and b[0] == 'ctor' and '::' in a[1] and '::' in b[1] and a[1].rsplit('::', 1)[0] == b[1].rsplit('::', 1)[0]):
            return None
        short = a[1].rsplit('::', 1)[0]
        if short not in self._impls:
            found = None
            for path, it in I.facts.items.items():
                if it.get('kind') == 'Enum' and (path == short or path.endswith('::' + short)):
                    for h in I.facts.hir:
                        if h.startswith('<' + path) and h.endswith(' as core::cmp::PartialEq>::eq'):
                            found = h
            self._impls[short] = found
        return self._impls[short]

    def elem_eq(self, I, a, b, node, st):
        """[(truth, state)] for a == b of two set elements / operands of `==`: the enum's own PartialEq impl when it has one
        (evaluated on the two values), structural equality otherwise; None when undecided"""
        impl = self.user_eq_impl(I, a, b)
        if impl is not None:
            outs = I.inline_call(impl, [a, b], node, st)
            if outs is None:
                return None
            res = []
            for o in outs:
                if o.kind != 'val':
                    return None
                for truth, s in I.decide(o.val, o.st):
                    res.append((truth, St(st.env, s.heap, s.ev, s.pc, s.ctr)))
            return res
        r = self.eq(a, b)
        return None if r is None else [(r, st)]

    # ------------------------------------------------------------------ library models
    def summary(self, I, cal, args, node, st):
        name = cal.rsplit('::', 1)[-1]
        val = lambda v, s=st: [Out('val', v, s)]
        boolv = lambda x, s=st: [Out('val', ('lit', bool(x)), s)]
        opt = lambda r: None if r is None else val(NONE if r[0] == 'none' else some(mk(r[1])))

        # ---- `a == b` / `a != b` through PartialEq (the interpreter passes overloaded operators as callee#Op)
        if '#' in cal and cal.split('#')[0] in ('core::cmp::PartialEq::eq', 'core::cmp::PartialEq::ne') and len(args) == 2:
            want_eq = cal.endswith('#Eq')
            if not (self._mine(args[0]) or self._mine(args[1]) or self.user_eq_impl(I, args[0], args[1])):
                return None
            r = self.elem_eq(I, args[0], args[1], node, st)
            if r is None:
                return None
            return [Out('val', ('lit', truth == want_eq), s) for truth, s in r]

        # ---- str
        if (cal.startswith('core::str::<impl str>::') or cal.startswith('alloc::string::String::') or cal.startswith('alloc::str::<impl str>::')) and args and is_str(args[0]):
            s0 = args[0]
            ps = parts(s0)
            pt = pat_text(args[1]) if len(args) > 1 else None
            if name == 'len' and len(args) == 1:
                # byte length; of a string with atoms only a lower bound is known
                return val(('lit', len(text(ps).encode())) if all_lit(ps) else ('strlen', s0))
            if name == 'is_empty' and len(args) == 1:
                return boolv(not ps)              # an atom is non-empty, so is a chunk
            if name in ('chars', 'bytes') and len(args) == 1:
                it, st2 = self.new_iter(first_elems(ps, name == 'bytes'), st)
                return val(it, st2)
            if name == 'as_bytes' and len(args) == 1:
                return val(('lit', text(ps).encode()) if all_lit(ps) else ('asbytes', s0))
            if name in ('split', 'rsplit') and len(args) == 2 and pt is not None and len(pt) == 1:
                # every piece between occurrences of the pattern, from the left (split) / from the right (rsplit)
                r = split_parts(ps, pt) if name == 'split' else rsplit_parts(ps, pt)
                if r is not None:
                    it, st2 = self.new_iter([mk(x) for x in r], st)
                    return val(it, st2)
            if name in ('splitn', 'rsplitn') and len(args) == 3 and args[1][0] == 'lit' and isinstance(args[1][1], int):
                p2 = pat_text(args[2])
                if p2 is not None and len(p2) == 1:
                    # at most n pieces; the last one is the rest of the string, not looked into
                    r = split_parts(ps, p2, args[1][1]) if name == 'splitn' else rsplit_parts(ps, p2, args[1][1])
                    if r is not None:
                        self.bound(node, args[1][1], len(r) == args[1][1] and r and has_char(r[-1], p2) is not False)
                        it, st2 = self.new_iter([mk(x) for x in r], st)
                        return val(it, st2)
            if name in ('split_once', 'rsplit_once') and len(args) == 2 and pt is not None and len(pt) == 1:
                # split_once(c) = the two items of splitn(2, c) when there are two, None otherwise (rsplit_once: from the right)
                r = split_parts(ps, pt, 2) if name == 'split_once' else rsplit_parts(ps, pt, 2)
                if r is not None:
                    if len(r) < 2:
                        return val(NONE)
                    x, y = (r[0], r[1]) if name == 'split_once' else (r[1], r[0])
                    return val(some(('tuple', (mk(x), mk(y)))))
            if name == 'strip_prefix' and pt is not None:
                return opt(strip_prefix(ps, pt))
            if name == 'strip_suffix' and pt is not None:
                return opt(strip_suffix(ps, pt))
            if name == 'starts_with' and pt is not None:
                r = strip_prefix(ps, pt)
                return None if r is None else boolv(r[0] == 'some')
            if name == 'ends_with' and pt is not None:
                r = strip_suffix(ps, pt)
                return None if r is None else boolv(r[0] == 'some')
            if name == 'trim_start_matches' and pt is not None and len(pt) == 1:
                r = trim_start_matches(ps, pt)       # removes EVERY leading occurrence, not just one
                return None if r is None else val(mk(r))
            if name == 'trim_end_matches' and pt is not None and len(pt) == 1:
                r = trim_end_matches(ps, pt)
                return None if r is None else val(mk(r))
            if name == 'contains' and pt is not None:
                if all_lit(ps):
                    return boolv(pt in text(ps))
                if len(pt) == 1:
                    r = has_char(ps, pt)
                    return None if r is None else boolv(r)
            if name == 'find' and pt is not None and len(pt) == 1:
                # byte offset of the first occurrence: a number while everything before it is literal, else a position marker
                off = 0
                for i, p in enumerate(ps):
                    if isinstance(p, str):
                        k = p.find(pt)
                        if k >= 0:
                            return val(some(('lit', off + len(p[:k].encode())) if off is not None else ('at', s0, i, k)))
                        if off is not None:
                            off += len(p.encode())
                    elif pt in afacts(p)[0]:
                        off = None
                    else:
                        return None
                return val(NONE)
            if name == 'get' and len(args) == 2:
                r = self.slice(s0, args[1])
                if r is not None:
                    return val(NONE if r == 'panic' else some(r))
            if name == 'split_at' and len(args) == 2 and args[1][0] == 'lit' and isinstance(args[1][1], int):
                a_, b_ = slice_parts(ps, 0, args[1][1]), slice_parts(ps, args[1][1], None)
                if a_ == 'panic' or b_ == 'panic':
                    return [Out('div', UNIT, st.event(('panic', cal, tuple(args), node)))]
                if a_ is not None and b_ is not None:
                    return val(('tuple', (a_, b_)))
            if name == 'eq_ignore_ascii_case' and len(args) == 2 and is_str(args[1]):
                r = self.eq(s0, args[1], ci=True)
                return None if r is None else boolv(r)
            if name in ('to_ascii_lowercase', 'to_lowercase', 'to_ascii_uppercase', 'to_uppercase') and len(args) == 1:
                if all(p.isascii() if isinstance(p, str) else True for p in ps):     # on ASCII text the Unicode and the ASCII mapping agree
                    low = 'lower' in name
                    if all_lit(ps):
                        return val(('lit', text(ps).lower() if low else text(ps).upper()))
                    if low:
                        return val(mk([p.lower() if isinstance(p, str) else (p if p[0] == 'lower' else ('lower', p)) for p in ps]))
            return None

        # ---- a one-character prefix / first character of an atom
        if args and args[0][0] == 'first':
            if name in ('len', 'len_utf8') and len(args) == 1:
                return val(('lit', 1))
            if name == 'is_empty' and len(args) == 1:
                return boolv(False)

        # ---- bytes of a string
        if args and args[0][0] == 'asbytes':
            ps = parts(args[0][1])
            if name == 'len' and len(args) == 1:
                return val(('strlen', args[0][1]))
            if name == 'is_empty' and len(args) == 1:
                return boolv(not ps)
            if name in ('iter', 'into_iter') and len(args) == 1:
                it, st2 = self.new_iter(first_elems(ps, True), st)
                return val(it, st2)
            if name in ('first', 'get') and len(args) <= 2:
                k = 0 if name == 'first' else (args[1][1] if args[1][0] == 'lit' and isinstance(args[1][1], int) else None)
                el = first_elems(ps, True)
                if k is not None and k < len(el) and el[k] != MORE:
                    return val(some(el[k]))
                if k is not None and MORE not in el:
                    return val(NONE)
            if name == 'starts_with' and len(args) == 2 and args[1][0] == 'lit' and isinstance(args[1][1], bytes) and args[1][1].isascii():
                r = strip_prefix(ps, args[1][1].decode())
                return None if r is None else boolv(r[0] == 'some')
            return None
        if args and args[0][0] == 'lit' and isinstance(args[0][1], bytes):
            b = args[0][1]
            if name in ('iter', 'into_iter') and len(args) == 1 and 'slice' in cal:
                it, st2 = self.new_iter([('lit', x) for x in b], st)      # a fresh iterator with a cursor of its own
                return val(it, st2)
            if name in ('first', 'last') and len(args) == 1 and 'slice' in cal:
                return val(some(('lit', b[0] if name == 'first' else b[-1])) if b else NONE)
            if name == 'get' and len(args) == 2 and args[1][0] == 'lit' and isinstance(args[1][1], int) and 'slice' in cal:
                return val(some(('lit', b[args[1][1]])) if args[1][1] < len(b) else NONE)
            if name == 'eq_ignore_ascii_case' and len(args) == 2 and args[1][0] == 'lit' and isinstance(args[1][1], bytes):
                return boolv(b.lower() == args[1][1].lower())     # bytes.lower() maps A-Z only, like the std function

        # ---- single characters / bytes
        if name in ('to_ascii_lowercase', 'to_ascii_uppercase') and len(args) == 1 and args[0][0] == 'lit' and (cal.startswith('core::num::<impl u8>::') or 'impl char' in cal):
            x = args[0][1]
            up = name.endswith('uppercase')
            if isinstance(x, int) and not isinstance(x, bool):
                c = chr(x) if x < 128 else None
                return val(('lit', x if c is None else ord(c.upper() if up else c.lower())))
            if isinstance(x, str) and len(x) == 1:
                return val(('lit', (x.upper() if up else x.lower()) if x.isascii() else x))
        if name == 'eq_ignore_ascii_case' and len(args) == 2 and all(a[0] == 'lit' for a in args) and (cal.startswith('core::num::<impl u8>::') or 'impl char' in cal):
            f = lambda x: (chr(x) if x < 128 else x) if isinstance(x, int) else x
            x, y = f(args[0][1]), f(args[1][1])
            return boolv(x.lower() == y.lower() if isinstance(x, str) and isinstance(y, str) and x.isascii() and y.isascii() else x == y)

        # ---- iterators over known elements
        if args and args[0][0] == 'siter' and ('Iterator' in cal or 'Peekable' in cal):
            it = args[0]
            el = self.seq(it, st)
            n = len(el)
            if name == 'next' and len(args) == 1:
                if not el:
                    return val(NONE)
                if el[0] == MORE:
                    return None
                return val(some(el[0]), self.advance(it, 1, st))
            if name == 'peek' and len(args) == 1 and el[:1] != [MORE]:
                return val(some(el[0]) if el else NONE)
            if MORE in el:
                return None
            if name == 'nth' and len(args) == 2 and args[1][0] == 'lit' and isinstance(args[1][1], int):
                k = args[1][1]        # nth(k) consumes k + 1 elements (all of them when there are fewer)
                return val(some(el[k]), self.advance(it, k + 1, st)) if k < n else val(NONE, self.advance(it, n, st))
            if name == 'last' and len(args) == 1:
                return val(some(el[-1]) if el else NONE, self.advance(it, n, st))
            if name == 'count' and len(args) == 1:
                return val(('lit', n), self.advance(it, n, st))
            if name == 'collect' and len(args) == 1 and (node.get('ty') or '').startswith('alloc::vec::Vec<'):
                return val(('vec', tuple(el)), self.advance(it, n, st))
            if name in ('rev', 'skip', 'take', 'enumerate', 'peekable', 'fuse', 'into_iter') and len(args) <= 2:
                if name in ('peekable', 'fuse', 'into_iter'):
                    return val(it)
                k = args[1][1] if len(args) == 2 and args[1][0] == 'lit' and isinstance(args[1][1], int) else None
                if name in ('skip', 'take') and k is None:
                    return None
                if name == 'take':
                    self.bound(node, k, n > k)
                new = {'rev': lambda: list(reversed(el)), 'skip': lambda: el[k:], 'take': lambda: el[:k],
                       'enumerate': lambda: [('tuple', (('lit', i), x)) for i, x in enumerate(el)]}[name]()
                nit, st2 = self.new_iter(new, self.advance(it, n, st))
                return val(nit, st2)
            if name == 'zip' and len(args) == 2:
                other = self.seq(args[1], st)
                if other is not None and MORE not in other:
                    m = min(n, len(other))
                    s1 = self.advance(it, m, st)
                    if args[1][0] == 'siter':
                        s1 = self.advance(args[1], m, s1)
                    nit, st2 = self.new_iter([('tuple', (x, y)) for x, y in zip(el, other)], s1)
                    return val(nit, st2)
            if name in ('map', 'filter', 'filter_map', 'all', 'any', 'find', 'position') and len(args) == 2 and args[1][0] in ('closure', 'fn'):
                # the adaptor / search applied to each element in order, exactly (the closure is evaluated on every element)
                states, abn = [((), st, None)], []
                for i, x in enumerate(el):
                    nxt = []
                    for acc, s, done in states:
                        if done is not None:
                            nxt.append((acc, s, done)); continue
                        for o in I.apply(args[1], [x], node, s):
                            if o.kind != 'val':
                                abn.append(o); continue
                            if name == 'map':
                                nxt.append((acc + (o.val,), o.st, None))
                            elif name == 'filter_map':
                                if o.val[0] == 'ctor' and o.val[1] in ('Some', 'None'):
                                    nxt.append((acc + (o.val[2][0],) if o.val[1] == 'Some' else acc, o.st, None))
                                else:
                                    return None
                            else:
                                for truth, s3 in I.decide(o.val, o.st):
                                    if name == 'filter':
                                        nxt.append((acc + (x,) if truth else acc, s3, None))
                                    elif name == 'all':
                                        nxt.append((acc, s3, None if truth else (FALSE, i + 1)))
                                    elif name == 'any':
                                        nxt.append((acc, s3, (TRUE, i + 1) if truth else None))
                                    elif name == 'find':
                                        nxt.append((acc, s3, (some(x), i + 1) if truth else None))
                                    else:
                                        nxt.append((acc, s3, (some(('lit', i)), i + 1) if truth else None))
                    states = nxt
                    I.guard(len(states))
                outs = list(abn)
                for acc, s, done in states:
                    if name in ('map', 'filter', 'filter_map'):
                        nit, s2 = self.new_iter(acc, self.advance(it, n, s))
                        outs.append(Out('val', nit, s2))
                    elif done is not None:
                        outs.append(Out('val', done[0], self.advance(it, done[1], s)))      # short-circuit: consumed up to the deciding element
                    else:
                        outs.append(Out('val', {'all': TRUE, 'any': FALSE, 'find': NONE, 'position': NONE}[name], self.advance(it, n, s)))
                return outs
            if name == 'eq' and len(args) == 2:
                other = self.seq(args[1], st)
                if other is not None and MORE not in other:
                    r = self._all_eq(el, other) if len(el) == len(other) else False
                    return None if r is None else boolv(r)
            return None

        # ---- HashSet with known elements (equality of elements: the element type's own PartialEq; its Hash is assumed consistent with it)
        if cal.startswith('std::collections::hash::set::HashSet::<') and name in ('new', 'with_capacity', 'default') and len(args) <= 1:
            u, st2 = st.fresh('hset')
            t = ('hset', u[2])
            h = dict(st2.heap); h[t] = ()
            return val(t, St(st2.env, h, st2.ev, st2.pc, st2.ctr))
        if args and args[0][0] == 'hset' and args[0] in st.heap:
            t = args[0]
            cur = st.heap[t]
            if name in ('len', 'is_empty') and len(args) == 1:
                return val(('lit', len(cur))) if name == 'len' else boolv(not cur)
            if name in ('insert', 'contains', 'replace') and len(args) == 2:
                # insert(x): added iff no element equal to x is present (the present one stays); replace(x): x takes the place of an equal one
                x = args[1]
                states = [(None, st)]
                for i, y in enumerate(cur):
                    nxt = []
                    for hit, s in states:
                        if hit is not None:
                            nxt.append((hit, s)); continue
                        r = self.elem_eq(I, y, x, node, s)
                        if r is None:
                            return None
                        nxt.extend((i if truth else None, s2) for truth, s2 in r)
                    states = nxt
                outs = []
                for hit, s in states:
                    if name == 'contains':
                        outs.append(Out('val', ('lit', hit is not None), s)); continue
                    new = cur + (x,) if hit is None else (cur[:hit] + (x,) + cur[hit + 1:] if name == 'replace' else cur)
                    h = dict(s.heap); h[t] = new
                    s2 = St(s.env, h, s.ev, s.pc, s.ctr).event(('call', cal, tuple(args), node))
                    if name == 'insert':
                        outs.append(Out('val', ('lit', hit is None), s2))
                    else:
                        outs.append(Out('val', NONE if hit is None else some(cur[hit]), s2))
                return outs
            return None

        # ---- percent-decoding: an opaque total-or-error function of its argument
        if cal == 'percent_encoding::percent_decode_str' and len(args) == 1:
            return val(('pct', args[0]))              # (of any text, also one the models could not evaluate: the decoder stays a function of it)
        if cal == 'percent_encoding::percent_decode' and len(args) == 1:
            a = args[0]
            if a[0] == 'asbytes':
                return val(('pct', a[1]))
            if a[0] == 'lit' and isinstance(a[1], bytes):
                try:
                    return val(('pct', ('lit', a[1].decode('utf-8'))))      # the octets of a str literal (`s.as_bytes()` evaluated): the decoder of that text
                except UnicodeDecodeError:
                    pass
        if args and args[0][0] == 'pct' and name == 'decode_utf8' and len(args) == 1:
            x = args[0][1]
            if x[0] == 'lit' and isinstance(x[1], str) and '%' not in x[1]:
                # nothing to decode: the bytes of a str are valid UTF-8, the result is Ok(the same text)
                return val(('ctor', 'Ok', (x,)))
            return val(('utf8', x))
        if args and args[0][0] == 'pct' and name == 'decode_utf8_lossy' and len(args) == 1:
            # on a literal, exactly: the decoded octets when they are valid UTF-8 (then `from_utf8_lossy` replaces nothing and the
            # Cow holds that very text); an invalid sequence is left to the opaque term (where U+FFFD goes is not modelled)
            x = args[0][1]
            if x[0] == 'lit' and isinstance(x[1], str):
                d = pct_decode_exact(x[1])
                if d is not None:
                    return val(('lit', d))
            return None

        # ---- a workspace predicate over two strings (role: a comparison helper of the analysed function)
        if cal in I.facts.hir and node.get('ty') == 'bool' and len(args) == 2 and all(is_str(a) for a in args):
            pa = [parts(a) for a in args]
            if all_lit(pa[0]) and all_lit(pa[1]):
                r = I.inline_call(cal, args, node, st)      # two literals: the predicate's own body decides
                if r is not None and all(o.kind == 'val' and o.val[0] == 'lit' for o in r):
                    return r
                return None
            for i in (0, 1):
                if all_lit(pa[1 - i]) and not all_lit(pa[i]):
                    # an atom against a literal: "different" by the atom's meaning (recorded by eq), provided the predicate is an equality
                    # test up to ASCII case - which the rule that owns the evaluation decides separately for every predicate recorded here
                    self.predicates.setdefault(cal, set()).add((i, text(pa[1 - i])))
                    r = self.eq(args[i], args[1 - i], ci=True)
                    return None if r is None else boolv(r)
        return None
