"""Who may touch what lies between the socket and the frame decoder (C06 G8).

The octets the transport has received and not yet decoded live in the read buffer of the `Framed<io, codec>` the driver owns.
C06's G1 / G2 decide what the frame decoder does with that buffer (nothing until a whole element is there, then exactly that
element).  That is worth something only if the frame decoder is the ONLY consumer: whoever else removes, truncates, clears or
replaces octets of the buffer makes the decoder resume in the middle of a message - "consumes bytes that belong to the next
message", "one message across many reads".  This module decides the ownership rule over the resolved program:

 * census: every call anywhere in the workspace whose resolved callee belongs to tokio_util's framed transport, or which is handed
   a value of the transport's type (by value, by reference, pinned), and every assignment to a place of that type, is classified
   by what it gives access to (the table below, written after tokio-util 0.7's source).  A site the table does not know fails closed;
 * a site that hands out `&mut BytesMut` of the read buffer (`read_buffer_mut`) is judged on the enumerated paths of the body it
   sits in (the select! arm, for the driver loop): everything that is done with that reference is a read (harmless), a change of
   capacity only (harmless here; C11 judges the amount), or a removal / change of octets - which is accepted only where it cannot
   remove anything: an amount that is literally zero, or a path whose condition says the buffer is empty at that moment
   (`is_empty()` held / `len() == 0`, with nothing in between that could have filled it);
 * taking the transport apart or replacing it (`into_parts`, `into_inner`, `from_parts`, assignment, `mem::replace`) drops or
   hands out what was read ahead.  The one accepted site is the TLS upgrade of the TCP constructor, where dropping cleartext
   read-ahead is the point; what the new transport is built from is judged there by C17 W3 (and C01 R16) - not repeated here;
 * the socket underneath is read by nobody but the transport: a read-side method (AsyncRead / AsyncReadExt / std::io::Read /
   try_read*) on one of the io types is called only inside the transport enum's own AsyncRead impl (the delegation C04 L7 judges).

Nothing is executed; the paths are those of rules/absx.py."""
import absx, hirq, sem, anchors
from facts import walk, callee_of, call_args, loc, AnchorMissing

TRANSPORT_TYPES = ('tokio_util::codec::framed::Framed<', 'tokio_util::codec::framed_read::FramedRead<')
PARTS_TYPE = 'tokio_util::codec::framed::FramedParts<'
TRANSPORT_CALLEES = ('tokio_util::codec::framed::Framed::', 'tokio_util::codec::framed_read::FramedRead::', 'tokio_util::codec::framed::FramedParts::')
BUFFER_TYPE = 'bytes::bytes_mut::BytesMut'

# ---- the accessor table (method name of a TRANSPORT_CALLEES callee -> class), after tokio-util 0.7 `codec/framed.rs`, `framed_read.rs`
FRESH = {'new', 'with_capacity'}                       # a new transport over (io, codec): state = Default, both buffers empty - removes nothing
NO_ACCESS = {'get_ref', 'get_mut', 'get_pin_mut',      # the io underneath (who reads from it is the socket rule's business)
             'codec', 'codec_mut', 'codec_pin_mut', 'decoder', 'decoder_mut', 'decoder_pin_mut',    # the codec
             'write_buffer', 'write_buffer_mut', 'backpressure_boundary', 'set_backpressure_boundary',   # the write side
             'read_buffer'}                             # `&BytesMut`: a shared reference; BytesMut has no interior mutability, so octets can only be looked at
HANDLE = {'read_buffer_mut'}                           # `&mut BytesMut` of the read buffer: judged by what is done with it
TAKEN_APART = {'into_parts', 'into_inner', 'map_codec', 'map_decoder', 'from_parts'}     # the read buffer is dropped, handed out (parts.read_buf) or supplied by the caller
# the transport used as what it is: Framed's own Stream / Sink impls (the read loop that hands the buffer to Decoder::decode - trusted)
TRANSPORT_IO = ('tokio_stream::stream_ext::StreamExt::', 'futures_util::stream::stream::StreamExt::', 'futures_util::stream::try_stream::TryStreamExt::',
                'futures_core::stream::Stream::', 'futures_core::stream::TryStream::', 'futures_util::sink::SinkExt::', 'futures_sink::Sink::')
STREAM_READS = ('next', 'try_next', 'poll_next', 'try_poll_next', 'poll_next_unpin')
FRAMED_BY_DECODER = 'tokio_util::codec::decoder::Decoder::framed'      # provided method: `Framed::new(io, self)`
REPLACERS = ('core::mem::replace', 'core::mem::swap', 'core::mem::take', 'core::mem::drop', 'core::ptr::write', 'core::ptr::drop_in_place')

# ---- what can be done through `&mut BytesMut` (last path segment of the resolved callee; BytesMut's own methods, Buf / BufMut, Deref<[u8]>)
READS = {'is_empty', 'len', 'capacity', 'remaining', 'has_remaining', 'chunk', 'as_ref', 'deref', 'borrow', 'iter', 'first', 'last', 'get',
         'starts_with', 'ends_with', 'contains', 'to_vec', 'clone', 'eq', 'ne', 'fmt', 'as_ptr', 'hash', 'cmp', 'partial_cmp', 'index', 'to_owned', 'chunks', 'windows'}
CAPACITY_ONLY = {'reserve', 'try_reclaim'}             # octets and length unchanged
# keeps an empty buffer empty and has nothing to lose there: BytesMut::clear = set_len(0); truncate(n) is a no-op for n >= len;
# split() = split_to(len) moves all 0 octets out; Buf::advance(0) / split_to(0) move the start by nothing
NOTHING_TO_LOSE_WHEN_EMPTY = {'clear', 'truncate', 'split'}
ZERO_IS_NOTHING = {'advance', 'split_to'}              # ... with a literal 0 amount, whatever the buffer holds
CHANGES = {'clear', 'truncate', 'advance', 'split_to', 'split_off', 'split', 'resize', 'set_len', 'extend', 'extend_from_slice', 'put', 'put_slice', 'put_u8', 'put_bytes',
           'unsplit', 'freeze', 'copy_to_bytes', 'copy_to_slice', 'get_u8', 'get_u16', 'get_u32', 'get_u64', 'get_i8', 'get_i16', 'get_i32', 'get_i64', 'get_uint', 'get_int',
           'take', 'replace', 'swap', 'drain', 'deref_mut', 'as_mut', 'borrow_mut', 'index_mut', 'iter_mut', 'fill', 'copy_from_slice', 'write', 'write_all', 'write_str', 'zeroize'}

READ_SIDE = ('tokio::io::util::async_read_ext::AsyncReadExt::', 'tokio::io::async_read::AsyncRead::', 'std::io::Read::', 'futures_io::if_std::AsyncRead::', 'futures_util::io::AsyncReadExt::')


def strip_wrappers(t):
    """The type behind references, Pin<..> and Box<..>."""
    t = (t or '').strip()
    while True:
        u = hirq.strip_refs(t)
        for w in ('core::pin::Pin<', 'alloc::boxed::Box<'):
            if u.startswith(w) and u.endswith('>'):
                u = u[len(w):-1].strip()
        if u == t:
            return t
        t = u

def is_transport(t):
    return strip_wrappers(t).startswith(TRANSPORT_TYPES)

def is_parts(t):
    return strip_wrappers(t).startswith(PARTS_TYPE)

def outer(path):
    """The function a body (or a closure / async block nested in it) belongs to."""
    return path.split('::{closure')[0]


class Site:
    __slots__ = ('body', 'node', 'kind', 'what', 'cls')
    def __init__(self, body, node, kind, what, cls):
        self.body, self.node, self.kind, self.what, self.cls = body, node, kind, what, cls


def bodies(f):
    """{def path: body record} of everything the census looks at: the bodies as the rules see them (helpers introduced by a later
    change expanded into their callers, facts.py), plus every new function that nobody in the workspace calls - a new public method
    is reachable by the library's user although no caller exists to expand it into."""
    if getattr(f, '_readbuf_bodies', None) is not None:
        return f._readbuf_bodies
    out = dict(f.hir)
    hir_all = getattr(f, 'hir_all', f.hir)
    dropped = [p for p in hir_all if p not in out]
    if dropped:
        called = set()
        for rec in hir_all.values():
            for n, _c in walk(rec['body']):
                if n['k'] in ('Call', 'MethodCall'):
                    called.add(callee_of(n))
                elif n['k'] == 'Path' and n.get('res') == 'def':
                    called.add(n.get('inst') or n.get('def'))
        for p in dropped:
            if p not in called:
                out[p] = hir_all[p]
    try:
        f._readbuf_bodies = out
    except AttributeError:
        pass
    return out


def census(f):
    """Every site of the workspace that touches the framed transport, classified: [Site].  cls is one of 'fresh', 'no-access',
    'handle', 'taken-apart', 'transport-io', 'crate-fn', 'replaced', 'parts-field', or 'unclassified'."""
    sites = []
    for path, h in bodies(f).items():
        for n, _ctx in walk(h['body']):
            k = n['k']
            if k in ('Call', 'MethodCall'):
                cal = callee_of(n) or ''
                args = call_args(n)
                tys = [a.get('ty', '') for a in args]
                on_transport = any(is_transport(t) for t in tys)
                on_parts = any(is_parts(t) for t in tys)
                yields = is_transport(n.get('ty', '')) or is_parts(n.get('ty', ''))
                name = cal.rsplit('::', 1)[-1]
                if cal.startswith(TRANSPORT_CALLEES):
                    short = cal.split('::<')[0].rsplit('::', 1)[-1] + '::' + name
                    if cal.startswith('tokio_util::codec::framed::FramedParts::'):
                        cls = 'taken-apart'            # FramedParts::new(io, codec): parts to build a transport from (with from_parts)
                    elif name in FRESH:
                        cls = 'fresh'
                    elif name in NO_ACCESS:
                        cls = 'no-access'
                    elif name in HANDLE:
                        cls = 'handle'
                    elif name in TAKEN_APART:
                        cls = 'taken-apart'
                    else:
                        cls = 'unclassified'
                    sites.append(Site(path, n, 'call', short, cls))
                elif cal == FRAMED_BY_DECODER:
                    sites.append(Site(path, n, 'call', 'Decoder::framed', 'fresh'))
                elif on_transport or on_parts or yields:
                    if cal.startswith(TRANSPORT_IO) and on_transport:
                        cls = 'transport-io'
                    elif cal in REPLACERS:
                        cls = 'replaced'
                    elif cal.startswith(('ldap3::', '<ldap3::', 'lber::', '<lber::')):
                        cls = 'crate-fn'                # the transport handed to / returned by a workspace function: its body is part of this census
                    elif n['k'] == 'Call' and n['f'].get('k') == 'Path' and (n['f'].get('defkind') or '').startswith('Ctor'):
                        cls = 'crate-fn'                # wrapped into an enum / tuple-struct constructor (Some(framed), Ok(framed)): moves it, touches nothing
                    else:
                        cls = 'unclassified'
                    sites.append(Site(path, n, 'call', cal.split('::<')[0].rsplit('::', 2)[-2] + '::' + name if cal.count('::') >= 2 else (cal or '<indirect call>'), cls))
            elif k in ('Assign', 'AssignOp'):
                if n['l'].get('ty', '').strip().startswith(TRANSPORT_TYPES):        # the place holds the transport itself (not a reference to it)
                    sites.append(Site(path, n, 'assign', 'assignment to the transport', 'replaced'))
            elif k == 'Field' and is_parts(n['e'].get('ty', '')) and n.get('name') == 'read_buf':
                sites.append(Site(path, n, 'field', 'FramedParts.read_buf', 'parts-field'))
    return sites


# --------------------------------------------------------------------------------------- paths through a body

class Region:
    """The enumerated paths that cover a body: for the driver loop the paths of each select! arm (rules/driver.py), for any other
    body its own paths from the entry."""
    def __init__(self, f, path):
        self.f, self.path = f, path
        self.runs = []          # (label, [Out], Interp, Body)
        self.error = None
        C = None
        try:
            C = conn_of(f)
        except AnchorMissing:
            C = None
        try:
            if C is not None and C.loop_path == path:
                import driver
                arms = [(r, a) for r, a in C.arms.items() if r != 'other'] + [('other#%d' % i, a) for i, a in enumerate(C.arms.get('other', []))]
                for role, arm in arms:
                    # (driver.arm_paths takes a role name or the arm itself: the arms without a role of their own are handed over as they are)
                    outs, I = driver.arm_paths(C, arm)
                    self.runs.append(('arm %s' % role, outs, I, C.loop))
            else:
                self.whole_body()
        except absx.TooManyPaths as e:
            self.error = 'too many paths (%s)' % e

    def whole_body(self):
        """The body's own paths from its entry (also for the driver loop's function, for a site that lies outside the select! arms)."""
        if any(l == 'body' for l, _o, _i, _b in self.runs) or self.error:
            return
        try:
            B = hirq.Body(self.f, bodies(self.f)[self.path])
            outs, I = sem.paths(self.f, B)
            self.runs.append(('body', outs, I, B))
        except absx.TooManyPaths as e:
            self.error = 'too many paths (%s)' % e

    def occurrences(self, node):
        """[(label, Out, event index)] of the call events of `node` on the enumerated paths."""
        out = []
        for label, outs, I, B in self.runs:
            for o in outs:
                for i, e in enumerate(o.st.ev):
                    if e[0] == 'call' and e[3] is node:
                        out.append((label, o, i))
        return out

    def evaluated(self, node):
        return any(id(node) in I.visited for _l, _o, I, _b in self.runs)

    def dead(self, node):
        import driver
        return any(driver.never_taken(B, I, node) for _l, _o, I, B in self.runs)

_conn_cache = {}
def conn_of(f):
    if id(f) not in _conn_cache:
        try:
            _conn_cache[id(f)] = anchors.Conn(f)
        except AnchorMissing as e:
            _conn_cache[id(f)] = e
    c = _conn_cache[id(f)]
    if isinstance(c, Exception):
        raise c
    return c


# --------------------------------------------------------------------------------------- what is done through the handle

def mentions(t, x):
    return t == x or bool(absx.leaves(t, lambda y: y == x))

def buffer_terms_of(R):
    """Predicate: the term denotes (a reference to) the read buffer of the transport R."""
    def p(t):
        return isinstance(t, tuple) and len(t) == 4 and t[0] == 'call' and t[1].startswith(TRANSPORT_CALLEES) and t[1].rsplit('::', 1)[-1] in ('read_buffer', 'read_buffer_mut') \
            and len(t[2]) == 1 and t[2][0] == R
    return p

def emptiness_tests(o, is_buf):
    """[(event index, True)] of the observations on this path that say the buffer is empty: `is_empty(buf)` that held, `len(buf)`
    compared with a literal such that the outcome taken means 0 (== 0, < 1, <= 0 held; != 0, > 0, >= 1 failed).  The index is that of
    the FIRST observation of that kind on the buffer: the interpreter treats a pure observer's repeated result as one atom, so an
    outcome is only as fresh as its first evaluation."""
    first = {}
    for i, e in enumerate(o.st.ev):
        if e[0] == 'call' and e[1].rsplit('::', 1)[-1] in ('is_empty', 'len') and len(e[2]) == 1 and is_buf(e[2][0]):
            first.setdefault(e[1].rsplit('::', 1)[-1], i)
    says_empty = []
    for a, t in o.st.pc:
        a0 = sem.strip_site(a)
        if a0[0] == 'call' and a0[1].rsplit('::', 1)[-1] == 'is_empty' and len(a0[2]) == 1 and is_buf(a[2][0]) and t and 'is_empty' in first:
            says_empty.append(first['is_empty'])
        elif a0[0] == 'bin' and a0[1] in ('Eq', 'Ne', 'Lt', 'Le', 'Gt', 'Ge') and 'len' in first:
            x, y, op = a[2], a[3], a[1]
            if y[0] == 'call' and x[0] == 'lit':
                x, y, op = y, x, {'Lt': 'Gt', 'Le': 'Ge', 'Gt': 'Lt', 'Ge': 'Le'}.get(op, op)
            if x[0] == 'call' and x[1].rsplit('::', 1)[-1] == 'len' and len(x[2]) == 1 and is_buf(x[2][0]) and y[0] == 'lit' and isinstance(y[1], int) and not isinstance(y[1], bool):
                k = y[1]
                zero = (op == 'Eq' and k == 0 and t) or (op == 'Ne' and k == 0 and not t) or (op == 'Lt' and k == 1 and t) or (op == 'Le' and k == 0 and t) \
                    or (op == 'Gt' and k == 0 and not t) or (op == 'Ge' and k == 1 and not t)
                if zero:
                    says_empty.append(first['len'])
    return says_empty

def may_fill(e, R, is_buf):
    """An event between an emptiness test and a removal that could have put octets into the buffer: anything that involves the
    transport other than looking at its read buffer (polling the stream reads from the socket), or a change made through a buffer
    reference."""
    if e[0] == 'await':
        return mentions(e[1], R)
    if e[0] == 'call':
        name = e[1].rsplit('::', 1)[-1]
        if len(e[2]) == 1 and e[2][0] == R and e[1].startswith(TRANSPORT_CALLEES) and name in ('read_buffer', 'read_buffer_mut'):
            return False
        if e[2] and is_buf(e[2][0]) and all(not mentions(x, R) or is_buf(x) for x in e[2]):
            return name not in READS and name not in CAPACITY_ONLY and name not in NOTHING_TO_LOSE_WHEN_EMPTY
        return any(mentions(x, R) for x in e[2])
    if e[0] in ('store', 'store-unknown', 'assign-local'):
        return any(isinstance(x, tuple) and mentions(x, R) for x in e[1:3])
    return False

WHY = ('what has been read ahead - typically the beginning of a message whose remaining octets are still in flight - is lost, and the frame decoder resumes '
       'framing in the middle of that message ("never consumes bytes that belong to the next message", "one message across many reads"): '
       'between the socket and the frame decoder only the frame decoder removes octets')

def judge_handle(ctx, rule, site, region, B):
    """What is done, on the enumerated paths, with the `&mut BytesMut` that `site` (a read_buffer_mut call) hands out."""
    node = site.node
    where = outer(site.body)
    # the reference used as the target of an assignment (`*framed.read_buffer_mut() = ..`, `*b = ..` with b bound to it): the buffer is replaced
    for n, _c in walk(B.root):
        if n['k'] in ('Assign', 'AssignOp') and n['l'].get('k') == 'Unary' and n['l'].get('op') == 'Deref' and hirq.resolve_expr(B, n['l']) is node:
            ctx.fail(rule + '.only-the-frame-decoder-consumes', '%s|assignment' % where, loc(n),
                     'the read buffer of the framed transport is overwritten through Framed::read_buffer_mut (`*buf = ..`): ' + WHY)
            return
    occ = region.occurrences(node)
    if not occ:
        region.whole_body()
        occ = region.occurrences(node)
    if not occ:
        if region.error is None and region.dead(node):
            ctx.ok(rule + '.only-the-frame-decoder-consumes', '%s|dead' % where, loc(node), 'the accessor sits in a branch that is taken on no path')
            return
        ctx.fail(rule + '.handle-site-on-an-enumerated-path', where, loc(node),
                 'Framed::read_buffer_mut is called at a place the enumerated paths of %s do not reach (%s): what is done with the read buffer there is not decided' % (where, region.error or 'not inside a select! arm / behind a construct without a model'))
        return
    # every place of the body that names the reference (the call itself, a local bound to it) lies on the enumerated paths - a use
    # inside a closure that is never applied, or behind a construct without a model, would otherwise go unread
    for n, _c in walk(B.root):
        if n['k'] == 'Path' and n.get('res') == 'local' and hirq.resolve_expr(B, n) is node and not region.evaluated(n) and not region.dead(n):
            ctx.fail(rule + '.handle-site-on-an-enumerated-path', '%s|use' % where, loc(n),
                     'the `&mut BytesMut` obtained from Framed::read_buffer_mut is used at a place the enumerated paths of %s do not reach (inside a closure that is not applied there, or behind a construct without a model): what is done with the read buffer there is not decided' % where)
    verdicts = {}       # (use, ok) -> detail
    for label0, o, i in occ:
        label = 'on the paths of the function body' if label0 == 'body' else 'select! %s of the driver loop' % label0
        e = o.st.ev[i]
        R = e[2][0]
        T = ('call', e[1], tuple(e[2]), node.get('id'))
        is_buf = buffer_terms_of(R)
        uses = 0
        for j in range(i + 1, len(o.st.ev)):
            u = o.st.ev[j]
            if u[0] == 'call' and any(mentions(x, T) for x in u[2]):
                uses += 1
                name = u[1].rsplit('::', 1)[-1]
                direct = u[2][0] == T
                if name in READS and name not in CHANGES:
                    verdicts.setdefault((name, True), 'read')
                elif name in CAPACITY_ONLY and direct:
                    verdicts.setdefault((name, True), 'capacity only')
                elif name in ZERO_IS_NOTHING and direct and len(u[2]) == 2 and u[2][1] == ('lit', 0):
                    verdicts.setdefault((name + '(0)', True), 'an amount of zero')
                elif name in CHANGES or u[1] in REPLACERS:
                    tests = [k for k in emptiness_tests(o, is_buf) if k < j]
                    fresh = [k for k in tests if not any(may_fill(o.st.ev[m], R, is_buf) for m in range(k + 1, j))]
                    if name in NOTHING_TO_LOSE_WHEN_EMPTY and direct and u[1].startswith('bytes::') and fresh:
                        verdicts.setdefault((name, True), 'reached only where the buffer is empty')
                    else:
                        how = '`%s`' % name if direct else '`%s` given the buffer' % u[1].split('::<')[0].rsplit('::', 2)[-1] if u[1] not in REPLACERS else '`%s` (the buffer is replaced)' % u[1]
                        cond = 'although the path tested the buffer for emptiness, the transport was used in between' if tests and not fresh else \
                            'on a path that has not established that the buffer is empty'
                        verdicts[(name, False)] = '%s on the read buffer of the framed transport (through Framed::read_buffer_mut, %s) %s: %s' % (how, label, cond, WHY)
                else:
                    verdicts[(name, False)] = 'the `&mut BytesMut` of the transport\'s read buffer is handed to `%s`, which this rule has no reading of (%s): whether octets are removed or changed there is not decided' % (u[1], label)
            elif u[0] in ('store', 'store-unknown', 'assign-local') and any(isinstance(x, tuple) and mentions(x, T) for x in u[1:3]):
                uses += 1
                n2 = u[3] if len(u) > 3 and isinstance(u[3], dict) else {}
                through = n2.get('k') in ('Assign', 'AssignOp') and n2['l'].get('k') == 'Unary' and n2['l'].get('op') == 'Deref'
                if u[0] == 'assign-local' and not through and isinstance(u[2], tuple) and u[2] == T:
                    continue            # `b = framed.read_buffer_mut()`: a name for the reference; its uses carry the term
                verdicts[('store', False)] = 'the `&mut BytesMut` of the transport\'s read buffer is stored / assigned through (%s) where this rule cannot follow it' % label
        if mentions(o.val, T) and o.kind in ('val', 'ret') and label0 == 'body':
            verdicts[('returned', False)] = 'the `&mut BytesMut` of the transport\'s read buffer is returned from %s: who changes it from there is not decided' % where
        if not uses:
            verdicts.setdefault(('unused', True), 'obtained and not used')
    for (use, ok), detail in sorted(verdicts.items(), key=lambda kv: (kv[0][0], kv[0][1])):
        ctx.add(rule + '.only-the-frame-decoder-consumes', '%s|%s' % (where, use), loc(node), ok, detail)


# --------------------------------------------------------------------------------------- the rule

def check(ctx, f, rule='G8', upgrade_site=None, decoder=None):
    """upgrade_site: def path of the function whose re-framing of the transport is judged elsewhere (C17 W3 / C01 R16)."""
    sites = census(f)
    regions = {}
    n_cls = {}
    for s in sites:
        n_cls[s.cls] = n_cls.get(s.cls, 0) + 1
        where = outer(s.body)
        ctx.analysed['bodies'].add(s.body)
        if s.cls == 'unclassified':
            ctx.fail(rule + '.accessor-classified', '%s|%s' % (where, s.what), loc(s.node),
                     '`%s` is given / yields the framed transport and is in none of the classes this rule knows (constructor with empty buffers, accessor of io / codec / write side, shared view of the read buffer, read_buffer_mut, Stream / Sink use, into_parts / from_parts): whether it removes read-ahead octets is not decided' % (callee_of(s.node) or s.what))
        elif s.cls in ('taken-apart', 'replaced', 'parts-field'):
            accepted = upgrade_site is not None and where == upgrade_site
            ctx.add(rule + '.transport-taken-apart-only-in-the-tls-upgrade', '%s|%s' % (where, s.what), loc(s.node), accepted,
                    '%s in %s: the transport is taken apart / replaced outside the TLS upgrade of the TCP constructor, so the octets it had read ahead are dropped or handed to whoever holds the parts: %s'
                    % (s.what, where, WHY))
            if accepted:
                ctx.note('%s %s in %s: accepted, judged separately (C17 W3 / C01 R16: what the protected transport is built from; dropping cleartext read-ahead there is intended)' % (rule, s.what, where))
        elif s.cls == 'handle':
            if s.body not in regions:
                regions[s.body] = Region(f, s.body)
            reg = regions[s.body]
            B = reg.runs[0][3] if reg.runs else hirq.Body(f, bodies(f)[s.body])
            judge_handle(ctx, rule, s, reg, B)
    # the read loop itself must have been found, else the census looked at the wrong thing
    reads = [s for s in sites if s.cls == 'transport-io' and (callee_of(s.node) or '').rsplit('::', 1)[-1] in STREAM_READS]
    ctx.add(rule + '.read-loop-found', 'workspace', loc(reads[0].node) if reads else '', bool(reads),
            'no site polls the framed transport as a Stream: the transport whose read buffer this rule guards was not found')
    ctx.floor(rule, 'sites that touch the framed transport, found and classified (%s)' % ', '.join('%s %d' % kv for kv in sorted(n_cls.items())),
              len([s for s in sites if s.cls != 'unclassified']), 5)      # counted: 9 with a TLS back end (default, rustls, gssapi); 5 without (constructor, read loop, send, get_mut, close)
    ctx.note('%s census of the framed transport: %s' % (rule, '; '.join(sorted('%s %s [%s]' % (outer(s.body).rsplit('::', 1)[-1], s.what, s.cls) for s in sites))))

    # ---- the socket underneath: read-side calls on the io types only inside the transport enum's own AsyncRead impl
    io_ty = None
    for s in sites:
        if s.cls in ('fresh', 'no-access', 'transport-io', 'handle'):
            t = next((strip_wrappers(a.get('ty', '')) for a in call_args(s.node) if is_transport(a.get('ty', ''))), None) or (strip_wrappers(s.node.get('ty', '')) if is_transport(s.node.get('ty', '')) else None)
            if t:
                io_ty = t[t.index('<') + 1:].split(',')[0].strip()
                break
    if io_ty is None:
        return sites
    it = f.items.get(io_ty)
    variants = [fl['ty'] for v in it.get('variants', []) for fl in v['fields']] if it else []
    io_types = {io_ty} | {hirq.strip_refs(v) for v in variants}
    own_impl = [i2['path'] for i2 in f.items_all if i2.get('kind') == 'AssocFn' and (i2.get('impl_trait_def') or '').endswith('::AsyncRead') and i2.get('impl_self') == io_ty]
    n_reads = 0
    for path, h in bodies(f).items():
        for n, _c in walk(h['body']):
            if n['k'] in ('Call', 'MethodCall'):
                cal = callee_of(n) or ''
                name = cal.rsplit('::', 1)[-1]
                reads_socket = cal.startswith(READ_SIDE) or (name.startswith(('try_read', 'poll_read', 'poll_peek', 'peek')) and not name.startswith('poll_read_ready'))
                if not reads_socket:
                    continue
                tys = {strip_wrappers(a.get('ty', '')) for a in call_args(n)}
                if not (tys & io_types):
                    continue
                n_reads += 1
                ctx.add(rule + '.socket-read-only-by-the-transport', '%s|%s' % (outer(path), name), loc(n), outer(path) in own_impl,
                        '`%s` is called on the connection\'s io (%s) in %s, outside the transport enum\'s own AsyncRead impl: octets read there never reach the frame decoder' % (cal, sorted(tys & io_types)[0], outer(path)))
    ctx.floor(rule, 'read-side calls on the connection\'s io types (the transport enum\'s AsyncRead delegation)', n_reads, 1)
    return sites
