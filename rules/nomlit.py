"""Exact models of the nom 7 parser primitives and combinators the BER reader is built from, for *literal* input.

An interpreter summary (`summaries=[nomlit.summary]`): when a parser is applied to an input all of whose octets are known
(`('lit', bytes)`, resp. the bit-level input `(('lit', bytes), ('lit', bit offset))`), the application is evaluated to the very
`Ok((rest, value))` / `Err(..)` the library function returns for that input.  This is how a finite domain - all 256 identifier
octets - is decided exhaustively whatever the reader is built from (bit parsers, byte parsers, helpers of the workspace, tables).
Nothing of the library is executed: each model below is the library function's definition (nom 7.1, src/ quoted in the comment)
restricted to inputs it is defined on; on anything else (symbolic input, a parser value without a model, a count that is not a
literal) the summary answers None and the interpreter keeps the opaque call term, so a rule that needs the value fails closed.

Error values: `Err::Incomplete(Needed::Size(n))`, `Err::Error(e)` / `Err::Failure(e)` with e the opaque term
`from_error_kind(input, ErrorKind::K)` - rules read which of the three it is, not the payload.
"""
from absx import Out

MODELLED = ('nom::bits::bits', 'nom::bits::streaming::take', 'nom::bits::complete::take', 'nom::sequence::tuple', 'nom::sequence::pair',
            'nom::combinator::map_opt', 'nom::combinator::map', 'nom::bytes::streaming::take', 'nom::bytes::complete::take',
            'nom::combinator::map_res', 'nom::combinator::verify', 'nom::bytes::complete::take_while', 'nom::bytes::complete::take_while1',
            'nom::multi::fold_many0', 'nom::multi::many0')

def ok(rest, val):
    return ('ctor', 'Ok', (('tuple', (rest, val)),))

def incomplete(n):
    return ('ctor', 'Err', (('ctor', 'Err::Incomplete', (('ctor', 'Needed::Size', (('lit', n),)),)),))

def error(inp, code, kind='Error', external=None):
    if external is not None:
        # E::from_external_error(input, kind, e)
        return ('ctor', 'Err', (('ctor', 'Err::' + kind, (('call', 'nom::error::FromExternalError::from_external_error', (inp, ('ctor', 'ErrorKind::' + code, ()), external), None),)),))
    return ('ctor', 'Err', (('ctor', 'Err::' + kind, (('call', 'nom::error::ParseError::from_error_kind', (inp, ('ctor', 'ErrorKind::' + code, ())), None),)),))

def is_bytes(t):
    return t[0] == 'lit' and isinstance(t[1], bytes)

def is_int(t):
    return t[0] == 'lit' and isinstance(t[1], int) and not isinstance(t[1], bool)

def bit_input(t):
    """(octets, bit offset) of a literal bit-level input `(&[u8], usize)`, or None"""
    if t[0] == 'tuple' and len(t[1]) == 2 and is_bytes(t[1][0]) and is_int(t[1][1]) and 0 <= t[1][1][1] < 8:
        return t[1][0][1], t[1][1][1]
    return None

def result_of(v):
    """('ok', rest, value) / ('err', variant short name, whole Err term) of a parser result whose variant is known, else None"""
    if v[0] == 'ctor' and v[1] == 'Ok' and len(v[2]) == 1 and v[2][0][0] == 'tuple' and len(v[2][0][1]) == 2:
        return ('ok', v[2][0][1][0], v[2][0][1][1])
    if v[0] == 'ctor' and v[1] == 'Err' and len(v[2]) == 1 and v[2][0][0] == 'ctor':
        return ('err', v[2][0][1], v)
    if v[0] == 'tryerr':
        return result_of(v[1])
    return None

class Opaque(Exception):
    """a sub-parser's answer is not a known Ok / Err: the whole application stays opaque"""

def apply_parser(I, p, inp, node, st):
    """[(result, state)] of parser value p applied to the term inp; raises Opaque when some answer is not known.  Abnormal
    outcomes of workspace code run on the way (a panic) are kept as ('abn', Out)."""
    res = []
    for o in I.apply(p, [inp], node, st):
        if o.kind == 'val' or o.kind == 'ret':
            r = result_of(o.val)
            if r is None:
                raise Opaque()
            res.append((r, o.st))
        else:
            res.append((('abn', o), o.st))
    return res

def verdicts(I, pred, args, node, st):
    """[(True / False, state)] + abnormal outcomes of the predicate value `pred` applied to args, each application decided (literal
    evaluation: a verdict that is not a known boolean leaves the whole parser application opaque)"""
    res, abn = [], []
    for o in I.apply(pred, list(args), node, st):
        if o.kind not in ('val', 'ret'):
            abn.append(o); continue
        ds = I.decide(o.val, o.st)
        if len(ds) != 1:
            raise Opaque()
        res.append((ds[0][0], ds[0][1]))
    return res, abn

def summary(I, cal, args, node, st):
    try:
        return _summary(I, cal, args, node, st)
    except Opaque:
        return None

def _summary(I, cal, args, node, st):
    if cal in ('nom::number::streaming::be_u8', 'nom::number::complete::be_u8', 'nom::number::streaming::u8', 'nom::number::complete::u8',
               'nom::number::streaming::le_u8', 'nom::number::complete::le_u8') and len(args) == 1 and is_bytes(args[0]):
        # be_u8(input): `if input.input_len() < 1 { Err(Incomplete(Needed::new(1))) } else { Ok((input.slice(1..), first octet)) }`
        # (complete: Err(Error(Eof)) on empty input); one octet has no byte order
        b = args[0][1]
        if b:
            return [Out('val', ok(('lit', b[1:]), ('lit', b[0])), st)]
        return [Out('val', incomplete(1) if '::streaming::' in cal else error(args[0], 'Eof'), st)]
    if cal != '<indirect>' or len(args) != 2 or args[0][0] != 'call' or args[0][1] not in MODELLED:
        return None
    p, inp = args[0], args[1]
    name, pargs = p[1], p[2]
    if name in ('nom::bytes::streaming::take', 'nom::bytes::complete::take') and len(pargs) == 1 and is_int(pargs[0]) and is_bytes(inp) and pargs[0][1] >= 0:
        # take(count)(i): `match i.slice_index(count) { Err(needed) => Err(Incomplete(needed)), Ok(index) => Ok(i.take_split(index)) }`;
        # for &[u8] slice_index is Ok(count) when len >= count, else Needed::new(count - len); take_split = (suffix, prefix)
        n, b = pargs[0][1], inp[1]
        if len(b) >= n:
            return [Out('val', ok(('lit', b[n:]), ('lit', b[:n])), st)]
        return [Out('val', incomplete(n - len(b)) if '::streaming::' in name else error(inp, 'Eof'), st)]
    if name in ('nom::bits::streaming::take', 'nom::bits::complete::take') and len(pargs) == 1 and is_int(pargs[0]) and 0 <= pargs[0][1] <= 8 and bit_input(inp):
        # bits::take(count)((input, bit_offset)): count == 0 -> Ok(((input, bit_offset), 0)); fewer than count + bit_offset bits left ->
        # Err(Incomplete(Needed::new(count))) (complete: Err(Error(Eof))); else the next `count` bits, most significant first, as an
        # integer, and ((input.slice((count + bit_offset) / 8 ..), (count + bit_offset) % 8)) as the rest (the loop's end_offset is
        # `remaining + offset` of the last, partially read octet, 0 when the read ends on an octet boundary: (count + bit_offset) % 8)
        count = pargs[0][1]
        b, off = bit_input(inp)
        if count == 0:
            return [Out('val', ok(inp, ('lit', 0)), st)]
        if len(b) * 8 < count + off:
            return [Out('val', incomplete(count) if '::streaming::' in name else error(inp, 'Eof'), st)]
        allbits = int.from_bytes(b, 'big')
        total = len(b) * 8
        val = (allbits >> (total - off - count)) & ((1 << count) - 1)
        cnt = (count + off) // 8
        return [Out('val', ok(('tuple', (('lit', b[cnt:]), ('lit', (count + off) % 8))), ('lit', val)), st)]
    if name == 'nom::bits::bits' and len(pargs) == 1 and is_bytes(inp):
        # bits(parser)(input): `match parser((input, 0)) { Ok(((rest, offset), result)) => Ok((rest.slice(offset / 8 + (offset % 8 != 0) ..), result)),
        # Err(Incomplete(n)) => Err(Incomplete(n.map(|u| u / 8 + 1))), Err(Error(e)) => Err(Error(e.convert())), Failure likewise }`
        outs = []
        for r, s in apply_parser(I, pargs[0], ('tuple', (inp, ('lit', 0))), node, st):
            if r[0] == 'abn':
                outs.append(r[1])
            elif r[0] == 'ok':
                bi = bit_input(r[1])
                if bi is None:
                    raise Opaque()
                rest, off = bi
                outs.append(Out('val', ok(('lit', rest[(off // 8 + (1 if off % 8 else 0)):]), r[2]), s))
            elif r[1] == 'Err::Incomplete':
                n = r[2][2][0][2][0]
                n = n[2][0][1] // 8 + 1 if n[0] == 'ctor' and n[1] == 'Needed::Size' and n[2] and is_int(n[2][0]) else None
                outs.append(Out('val', incomplete(n) if n is not None else ('ctor', 'Err', (('ctor', 'Err::Incomplete', (('ctor', 'Needed::Unknown', ()),)),)), s))
            elif r[1] in ('Err::Error', 'Err::Failure'):
                outs.append(Out('val', ('ctor', 'Err', (('ctor', r[1], (('call', 'nom::error::ErrorConvert::convert', r[2][2][0][2], None),)),)), s))
            else:
                raise Opaque()
        return outs
    if name in ('nom::sequence::tuple', 'nom::sequence::pair') and ((name.endswith('tuple') and len(pargs) == 1 and pargs[0][0] == 'tuple') or (name.endswith('pair') and len(pargs) == 2)):
        # tuple((p1, .., pn))(input): p1 on the input, p2 on p1's rest, ...; the first failure is the result (`?`); Ok((last rest, (o1, .., on)))
        parsers = pargs[0][1] if name.endswith('tuple') else pargs
        states = [(inp, (), st)]
        outs = []
        for q in parsers:
            nxt = []
            for cur, vals, s in states:
                for r, s2 in apply_parser(I, q, cur, node, s):
                    if r[0] == 'abn':
                        outs.append(r[1])
                    elif r[0] == 'ok':
                        nxt.append((r[1], vals + (r[2],), s2))
                    else:
                        outs.append(Out('val', r[2], s2))
            states = nxt
        return outs + [Out('val', ok(cur, ('tuple', vals)), s) for cur, vals, s in states]
    if name in ('nom::combinator::map_opt', 'nom::combinator::map') and len(pargs) == 2:
        # map(parser, f)(input): `let (input, o1) = parser.parse(input)?; Ok((input, f(o1)))`
        # map_opt(parser, f)(input): `... match f(o1) { Some(o2) => Ok((input, o2)), None => Err(Error(from_error_kind(original input, MapOpt))) }`
        outs = []
        for r, s in apply_parser(I, pargs[0], inp, node, st):
            if r[0] == 'abn':
                outs.append(r[1])
            elif r[0] == 'err':
                outs.append(Out('val', r[2], s))
            else:
                for o in I.apply(pargs[1], [r[2]], node, s):
                    if o.kind not in ('val', 'ret'):
                        outs.append(o)
                    elif name.endswith('::map'):
                        outs.append(Out('val', ok(r[1], o.val), o.st))
                    elif o.val[0] == 'ctor' and o.val[1] == 'Some' and len(o.val[2]) == 1:
                        outs.append(Out('val', ok(r[1], o.val[2][0]), o.st))
                    elif o.val[0] == 'ctor' and o.val[1] == 'None':
                        outs.append(Out('val', error(inp, 'MapOpt'), o.st))
                    else:
                        raise Opaque()
        return outs
    if name == 'nom::combinator::map_res' and len(pargs) == 2:
        # map_res(parser, f)(input): `let i = input.clone(); let (input, o1) = parser.parse(input)?; match f(o1) { Ok(o2) => Ok((input, o2)),
        # Err(e) => Err(Err::Error(E::from_external_error(i, ErrorKind::MapRes, e))) }`
        outs = []
        for r, s in apply_parser(I, pargs[0], inp, node, st):
            if r[0] == 'abn':
                outs.append(r[1])
            elif r[0] == 'err':
                outs.append(Out('val', r[2], s))
            else:
                for o in I.apply(pargs[1], [r[2]], node, s):
                    v = o.val
                    if o.kind not in ('val', 'ret'):
                        outs.append(o)
                        continue
                    if v[0] == 'tryerr':
                        v = v[1]            # the closure left through `?` with this failure value
                    if v[0] == 'ctor' and v[1] == 'Ok' and len(v[2]) == 1:
                        outs.append(Out('val', ok(r[1], v[2][0]), o.st))
                    elif v[0] == 'ctor' and v[1] == 'Err':
                        outs.append(Out('val', error(inp, 'MapRes', external=v[2][0] if v[2] else ('tuple', ())), o.st))
                    else:
                        raise Opaque()
        return outs
    if name == 'nom::combinator::verify' and len(pargs) == 2:
        # verify(first, second)(input): `let i = input.clone(); let (input, o) = first.parse(input)?; if second(o.borrow()) { Ok((input, o)) }
        # else { Err(Err::Error(E::from_error_kind(i, ErrorKind::Verify))) }`
        outs = []
        for r, s in apply_parser(I, pargs[0], inp, node, st):
            if r[0] == 'abn':
                outs.append(r[1])
            elif r[0] == 'err':
                outs.append(Out('val', r[2], s))
            else:
                vs, abn = verdicts(I, pargs[1], [r[2]], node, s)
                outs.extend(abn)
                for truth, s2 in vs:
                    outs.append(Out('val', ok(r[1], r[2]) if truth else error(inp, 'Verify'), s2))
        return outs
    if name in ('nom::bytes::complete::take_while', 'nom::bytes::complete::take_while1') and len(pargs) == 1 and is_bytes(inp):
        # take_while(cond)(i) = i.split_at_position_complete(|c| !cond(c)); for &[u8]: `match self.iter().position(|c| predicate(*c)) {
        # Some(i) => Ok(self.take_split(i)), None => Ok(self.take_split(self.input_len())) }` with take_split(n) = (self[n..], self[..n]);
        # take_while1 = split_at_position1_complete(.., TakeWhile1): as above, but Some(0) and None on an empty input are
        # Err(Err::Error(from_error_kind(self, TakeWhile1))).  `position` calls the predicate in order up to the first hit.
        b = inp[1]
        s, n, abn = st, len(b), []
        for k, x in enumerate(b):
            vs, a2 = verdicts(I, pargs[0], [('lit', x)], node, s)
            if a2 or len(vs) != 1:
                raise Opaque()
            s = vs[0][1]
            if not vs[0][0]:
                n = k
                break
        if name.endswith('take_while1') and n == 0:
            return [Out('val', error(inp, 'TakeWhile1'), s)]
        return [Out('val', ok(('lit', b[n:]), ('lit', b[:n])), s)]
    if name in ('nom::multi::fold_many0', 'nom::multi::many0') and len(pargs) in (1, 3) and (len(pargs) == 3) == name.endswith('fold_many0') and is_bytes(inp):
        # fold_many0(f, init, g)(i): `let mut res = init(); let mut input = i; loop { let len = input.input_len(); match f.parse(input.clone()) {
        # Ok((i, o)) => { if i.input_len() == len { return Err(Err::Error(from_error_kind(input, Many0))) } res = g(res, o); input = i; }
        # Err(Err::Error(_)) => return Ok((input, res)), Err(e) => return Err(e) } }`;  many0(f) is the same loop with `acc.push(o)` on an
        # initially empty Vec.  The loop is run exactly: each trip consumes at least one octet of the literal input, so it ends.
        outs = []
        if name.endswith('fold_many0'):
            starts = []
            for o in I.apply(pargs[1], [], node, st):
                if o.kind in ('val', 'ret'):
                    starts.append((inp, o.val, o.st))
                else:
                    outs.append(o)
        else:
            starts = [(inp, ('vec', ()), st)]
        work = starts
        for _trip in range(len(inp[1]) + 2):
            nxt = []
            for cur, acc, s in work:
                for r, s2 in apply_parser(I, pargs[0], cur, node, s):
                    if r[0] == 'abn':
                        outs.append(r[1])
                    elif r[0] == 'err':
                        outs.append(Out('val', ok(cur, acc), s2) if r[1] == 'Err::Error' else Out('val', r[2], s2))
                    elif not is_bytes(r[1]):
                        raise Opaque()
                    elif len(r[1][1]) == len(cur[1]):
                        outs.append(Out('val', error(cur, 'Many0'), s2))
                    elif name.endswith('fold_many0'):
                        for o in I.apply(pargs[2], [acc, r[2]], node, s2):
                            if o.kind in ('val', 'ret'):
                                nxt.append((r[1], o.val, o.st))
                            else:
                                outs.append(o)
                    elif acc[0] == 'vec':
                        nxt.append((r[1], ('vec', acc[1] + (r[2],)), s2))
                    else:
                        raise Opaque()
            work = nxt
            if not work:
                break
        if work:
            raise Opaque()
        return outs
    return None
