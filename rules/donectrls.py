"""The control list of a search's final result, from the wire to the caller (shared by C01 R3, C10 Q2; C03 T6 and C10 Q6 borrow R3).

The response controls of a SearchResultDone travel in two places: inside the LdapResult that the driver puts into
SearchItem::Done (`result.ctrls`, R) and in the vector sent next to the item (S).  SearchStream::next_inner combines the two
into what it stores in `self.res`, and that is what finish() hands to the caller.  Neither site decides the property on its
own: what must hold is that the *composition* is exactly the control list D decoded from the message - once, in order.

  driver side   every send of a Done item on a path of the response arm, as the pair (R, S) of list terms over D
  stream side   every path of next_inner that stores a final result, as the list term T(R, S) its `ctrls` holds then
  obligation    T(R, S) = [D]   for every driver pair and every stream path

List terms are sequences of segments (a small free-monoid normal form): the empty list is (), a symbol is a one-segment
sequence, concatenation is sequence concatenation, a copy of a list is the list.  Anything the normal form cannot read stays
an opaque segment, which never equals D: an unreadable shape fails closed."""
import absx, hirq, anchors, driver, sem
from facts import loc

MSG = ('variant', ('variant', driver.ARM, 'Some', 0), 'Ok', 0)
M_TAG, M_CTRLS = ('field', ('field', MSG, '1'), '0'), ('field', ('field', MSG, '1'), '1')
SELF = ('param', 'self')
EXACT = ('D',)

def is_empty_vec(v):
    """Terms that denote a vector without elements: vec![], what mem::take leaves behind, Vec::new() / default() / with_capacity(n)."""
    if v == ('vec', ()) or (v[0] == 'default' and 'alloc::vec::Vec<' in str(v[1])):
        return True
    return v[0] == 'call' and 'alloc::vec::Vec' in v[1] and ((v[1].rsplit('::', 1)[-1] in ('new', 'default') and not v[2]) or v[1].rsplit('::', 1)[-1] == 'with_capacity')

def norm(t, atoms):
    """List term of t as a tuple of segments; `atoms` maps the terms that stand for the symbols to their names."""
    if t in atoms:
        return (atoms[t],)
    if is_empty_vec(t):
        return ()
    if t[0] == 'concat':
        return norm(t[1], atoms) + norm(t[2], atoms)
    if t[0] == 'vec':
        return tuple(('one', x) for x in t[1])
    if t[0] == 'vecpush':
        return norm(t[1], atoms) + (('one', t[2]),)
    if t[0] == 'call' and len(t[2]) == 1 and t[1].rsplit('::', 1)[-1] in ('clone', 'to_vec', 'to_owned'):
        return norm(t[2][0], atoms)      # a copy of a list has the same elements in the same order
    return (('opaque', t),)

def subst(T, env):
    out = ()
    for seg in T:
        out += env[seg] if isinstance(seg, str) and seg in env else (seg,)
    return out

def show(L):
    if not L:
        return '[]'
    return ' ++ '.join({'D': 'decoded controls', 'R': 'result.ctrls as received', 'S': 'the vector received next to the item'}.get(s, None) or
                       ('[%s]' % absx.fmt(s[1])[:40] if s[0] == 'one' else absx.fmt(s[1])[:60]) for s in L)

def own_field(f, X, name):
    """The term field `name` of value X holds when nothing has written it since X was made: read off a struct literal, or - X
    being the result of a conversion function of the workspace - off every path of that function (conversions it calls in turn
    are entered as well); None when the paths disagree or cannot be read."""
    v = absx.field_term(X, name)
    if v != ('field', X, name):
        return v
    if X[0] == 'call' and X[1] in f.hir and ' as core::convert::' in X[1]:
        B = hirq.Body(f, f.hir[X[1]])
        conv = lambda c: c in f.hir and ' as core::convert::' in c
        vals = set()
        try:
            outs = absx.Interp(f, B, inline=conv, unroll=1).run()
        except absx.TooManyPaths:
            return None
        for o in outs:
            if o.kind not in ('val', 'ret'):
                continue
            w = o.st.heap.get(('field', o.val, name), absx.field_term(o.val, name))
            vals.add(w)
        if len(vals) == 1:
            w = vals.pop()
            if not absx.leaves(w, lambda x: x[0] in ('param', 'unbound')) or is_empty_vec(w):
                return w
    return None

MODELLED = ('extend', 'append', 'extend_from_slice')      # absx: the place holds old ++ argument afterwards ('update' event)

def unread_mutations(o, upto, name):
    """Calls on the path (before event `upto`) that get a field called `name` by `&mut` - as the auto-referenced receiver of a
    method or as an explicit `&mut x.name` argument - and that the interpreter has no model for (push, clear, truncate, retain,
    insert, drain, swap, ...): the heap does not know what such a call leaves in the place, so a rule that reads the place must
    not trust it.  (mem::take / mem::replace on a field are modelled by absx and do not appear as such calls.)"""
    out = []
    def by_mut_ref(x):
        if x.get('k') == 'AddrOf':
            return bool(x.get('mut')) and hirq.peel_refs(x).get('k') == 'Field' and hirq.peel_refs(x).get('name') == name
        return x.get('k') == 'Field' and x.get('name') == name and (x.get('adj_ty') or '').startswith('&mut ')
    for e in o.st.ev[:upto]:
        if e[0] != 'call' or not isinstance(e[3], dict) or e[3].get('k') not in ('MethodCall', 'Call'):
            continue
        m = e[1].rsplit('::', 1)[-1]
        if e[1] in ('core::mem::take', 'core::mem::replace', absx.Interp.TAKE):
            continue
        operands = ([e[3]['recv']] if e[3].get('k') == 'MethodCall' else []) + list(e[3].get('args') or [])
        if any(by_mut_ref(x) for x in operands) and not (m in MODELLED and e[3].get('k') == 'MethodCall' and by_mut_ref(e[3]['recv'])):
            out.append(m)
    return out

def field_at(o, i, X, name):
    """What `X.name` holds just before event i of path o: the last assignment to (or modelled update of) that place wins; None if
    the path has not written it."""
    place = ('field', X, name)
    val = None
    for e in o.st.ev[:i]:
        if e[0] in ('store', 'update') and e[1] == place:
            val = e[2]
        elif e[0] == 'store' and absx.is_subplace(place, e[1]):
            val = None
    return val

def driver_pairs(C):
    """[(R, S, node)] for every send of a SearchItem::Done on the paths of the driver's response arm."""
    f = C.facts
    out, seen = [], set()
    atoms = {M_CTRLS: 'D'}
    for o in driver.arm_paths(C, 'response')[0]:
        for i, args, node in driver.sends(o, anchors.T_ITEM_SENDER):
            pl = args[1]
            if not (pl[0] == 'tuple' and len(pl[1]) == 2 and pl[1][0][0] == 'ctor' and pl[1][0][1] == 'SearchItem::Done' and len(pl[1][0][2]) == 1):
                continue
            X, side = pl[1][0][2][0], pl[1][1]
            r = field_at(o, i, X, 'ctrls')
            if r is None:
                r = own_field(f, X, 'ctrls')
            bad = unread_mutations(o, i, 'ctrls')
            if bad:
                r = ('unk', 'ctrls mutated by ' + '/'.join(bad))
            R = norm(r, atoms) if r is not None else (('opaque', ('field', X, 'ctrls')),)
            S = norm(side, atoms)
            if (R, S, node.get('id')) not in seen:
                seen.add((R, S, node.get('id')))
                out.append((R, S, node))
    return out

def stream_transfers(f, N, outs, stored_final_result):
    """[(T, structure_ok, o)] for every path of next_inner (outs: its value paths) that returns Ok(None): T is the list term of the
    stored result's `ctrls` over R (the received result's own list) and S (the vector received with it)."""
    res = []
    for o in outs:
        if o.val != ('ctor', 'Ok', (('ctor', 'None', ()),)):
            continue
        done, ctr, others = stored_final_result(o)
        ok = done is not None and done[0] == 'variant' and done[2] == 'SearchItem::Done' and done[1][0] == 'field' and done[1][2] == '0' and not others \
            and not unread_mutations(o, len(o.st.ev), 'ctrls')
        if not ok:
            res.append(((('opaque', ('unk', 'no final result stored')),), False, o))
            continue
        item = done[1][1]
        atoms = {('field', done, 'ctrls'): 'R', ('field', item, '1'): 'S'}
        T = ('R',) if ctr is None else norm(ctr, atoms)
        res.append((T, True, o))
    return res

def compose(T, R, S):
    return subst(T, {'R': R, 'S': S})
