"""Which value names "the Search this stream is currently fed by"?  (shared by C12 O2, C13 K6 and what borrows them)

A search stream scrubs its Search's message ID when it expires or is finished early.  The ID was allocated by `op_call` on the
stream's own handle and is afterwards found in that handle's `last_id` - but only until the next operation runs on the handle,
and the stream hands out `&mut` to it (a public accessor).  So the handle's `last_id`, read at scrub time, names the stream's
Search only if nothing outside the stream can run an operation on the handle; otherwise the stream has to keep its own record.

Decided here, on every run, from the item table and the paths of the abstract interpreter:
 * `exposed`: a public method of the stream type returns `&mut` to the handle type (then `<handle>.last_id` is not accepted);
 * the *record fields*: non-public fields F of the stream such that
     - on every path of the inner start function that issues the Search (calls the issue point) the value F ends with is the
       handle's `last_id` as read after that call returned, with no await in between (nothing else can run in between);
     - every other store to F in the crate copies the same field of another stream on a path that also takes over that stream's
       receiver (the paging adapter's splice), or is the constructor's initial value.
A scrub key is accepted if it is a record field, or the handle's `last_id` while the handle is not exposed."""
import absx, hirq, sem, anchors
from facts import walk, loc

SELF = ('param', 'self')

class StreamSearchId:
    def __init__(self, f):
        self.f = f
        st = f.items.get('ldap3::search::SearchStream')
        self.fields = {fl['name']: fl for v in (st or {}).get('variants', []) for fl in v['fields']}
        self.handle_fields = [n for n, fl in self.fields.items() if fl['ty'] == 'ldap3::ldap::Ldap']
        self.exposed = [it['path'] for it in f.items_all
                        if it.get('kind') == 'AssocFn' and it.get('vis') == 'pub' and (it.get('impl_self') or '').startswith('ldap3::search::SearchStream<')
                        and (it.get('output') or '').replace("'_ ", '').startswith('&mut ldap3::ldap::Ldap')]
        self.notes = []
        self.record_fields = self._record_fields()

    def _handle_last_id(self, t):
        return t[0] == 'field' and t[2] == 'last_id' and t[1][0] == 'field' and t[1][1] == SELF and t[1][2] in self.handle_fields

    def _record_fields(self):
        f = self.f
        cands = [n for n, fl in self.fields.items() if fl['ty'] in ('i32', 'ldap3::RequestId') and fl.get('vis') != 'pub']
        if not cands:
            return []
        starts = [h for p, h in f.hir.items() if p.startswith('ldap3::search::SearchStream::<') and p.endswith('::start_inner')]
        if len(starts) != 1:
            self.notes.append('inner start function not found')
            return []
        B = hirq.Body(f, starts[0])
        def is_getter(cal):
            # a workspace method whose body is just a field of its receiver (`fn last_id(&mut self) -> RequestId { self.last_id }`):
            # calling it is reading the field
            h = f.hir.get(cal)
            if not h:
                return False
            b = h['body']
            while b.get('k') == 'Block' and not b.get('stmts') and b.get('expr') is not None:
                b = b['expr']
            return b.get('k') == 'Field' and b['e'].get('k') in ('Path', 'Deref', 'Unary')
        outs = [o for o in absx.Interp(f, B, combinators=True, inline=is_getter).run(root=sem.entry(B)) if o.kind in ('val', 'ret')]
        good = []
        for F in cands:
            ok, issued = True, 0
            for o in outs:
                calls = [(i, cal) for i, cal, args, node in sem.calls(o, lambda c: c.endswith('::op_call'))]
                if not calls:
                    continue
                issued += 1
                i_call = calls[-1][0]
                sts = [(i, val) for i, place, val, node in sem.stores(o, lambda p: p == ('field', SELF, F)) if i > i_call]
                aws = [i for i, t, n in sem.awaits(o) if i > i_call + 1]      # the await of the issue call itself directly follows it
                if not sts or not self._handle_last_id(sem.strip_site(sts[-1][1])) or any(i < sts[-1][0] for i in aws):
                    ok = False
                    self.notes.append('field %s: a path of the inner start function issues the Search and does not end with %s = <handle>.last_id taken right after the call' % (F, F))
                    break
            if not ok or not issued:
                continue
            # other writers of F in the crate
            for p, h in f.hir.items():
                if h is starts[0]:
                    continue
                for n, c in walk(h['body']):
                    if n.get('k') == 'Assign' and n['l']['k'] == 'Field' and n['l'].get('name') == F and 'SearchStream<' in hirq.strip_refs(n['l']['e'].get('ty', '')):
                        r = n['r']
                        same_field_of_a_stream = r['k'] == 'Field' and r.get('name') == F and 'SearchStream<' in hirq.strip_refs(r['e'].get('ty', ''))
                        if not same_field_of_a_stream:
                            ok = False
                            self.notes.append('field %s is also written at %s with something that is not another stream\'s %s' % (F, loc(n), F))
                            continue
                        # the same body takes over that stream's receiver as well (a splice), so the record moves with the Search
                        def base_bind(e):
                            while e.get('k') in ('Field', 'AddrOf', 'Deref', 'Unary') and e.get('e') is not None:
                                e = e['e']
                            return e.get('bind') if e.get('k') == 'Path' and e.get('res') == 'local' else None
                        src = base_bind(r['e'])
                        takes_rx = src is not None and any(
                            m['l']['k'] == 'Field' and m['r']['k'] == 'Field' and m['l'].get('name') == m['r'].get('name')
                            and 'Receiver<' in (m['r'].get('ty') or '') and base_bind(m['r']['e']) == src for m, _ in walk(h['body']) if m.get('k') == 'Assign')
                        if not takes_rx:
                            ok = False
                            self.notes.append('field %s is copied at %s from a stream whose receiver is not taken over there' % (F, loc(n)))
            if ok:
                good.append(F)
        return good

    def accepts(self, t):
        t = sem.strip_site(t)
        if t[0] == 'field' and t[1] == SELF and t[2] in self.record_fields:
            return True
        if self._handle_last_id(t) and not self.exposed:
            return True
        return False

    def why_not(self, t):
        t = sem.strip_site(t)
        if self._handle_last_id(t) and self.exposed:
            return ('the scrubbed ID is read from the handle\'s last_id at scrub time, but %s hands out `&mut` to that handle: any operation run through it in the '
                    'meantime has overwritten last_id, so another operation\'s ID is scrubbed and the Search\'s own ID and routing entry stay behind'
                    % ', '.join(p.rsplit('::', 1)[-1] + '()' for p in self.exposed))
        return 'the scrubbed ID %s is not the stream\'s record of the Search it is fed by (%s)' % (absx.fmt(t)[:60], '; '.join(self.notes[:2]) or 'no record field qualifies')
