"""What a path condition says about a *set* (HashSet / BTreeSet: a finite collection without duplicates), and what follows from it.

A rule that has to know "x is not a member of S on this path" must not ask whether the code spelled `!S.contains(&x)`: it asks
whether the path's condition ENTAILS non-membership.  The observations a path can have made of a set S in one state are

    contains(S, y) = b          y is / is not a member
    get(S, y) is Some / None    the same fact (std: `get` answers Some exactly for a member)
    is_empty(S) = b             S has no / at least one member
    len(S) op k                 the number of members, compared with an integer literal (either side, `==` `!=` `<` `<=` `>` `>=`)
    insert(S, y) = b            (the answer of the insert itself) y was not / was a member *before* that insert

and the theory used is that of finite sets, nothing else:

    is_empty(S)  <=>  len(S) = 0  <=>  for every x: not contains(S, x)
    contains(S, y) for some y  =>  not is_empty(S),  len(S) >= 1

A comparison of the element with anything else (a counter, a bound, another element) says nothing about membership, so it entails
nothing here - which is the point: `x > last || !S.contains(&x)` leaves the search on a path that has not found x absent.

All observations used for one verdict must be about the same state of S.  `before_first_change` keeps those made before the path
first modifies S (any call that is handed S and is not one of the observers above, any store to S); the boolean answer of that
first modifying call, when it is `insert`, is an observation of the state before it."""
import absx
from sem import strip_site

OBSERVERS = ('contains', 'get', 'is_empty', 'len')
INF = float('inf')

def _name(cal):
    return cal.rsplit('::', 1)[-1]

def _call_on(t, is_set, names, arity):
    return t[0] == 'call' and _name(t[1]) in names and len(t[2]) == arity and is_set(t[2][0])

def before_first_change(o, is_set, contains_set=None):
    """The (atom, truth) pairs of path o's condition that are observations of the set in the state it has when the path first
    modifies it (see the module text), plus ('pre-insert', y, b) for the answer of that first modification when it is an insert.
    An observation whose call also occurs after that point is left out: the interpreter identifies equal pure observations on a
    path, so its recorded truth would stand for two states.  (References are transparent in the term domain: a call handed `&S`
    or `&mut S` has S itself among its arguments.)  contains_set(place): a store to `place` overwrites the set as well."""
    ev = o.st.ev
    first = None
    for i, e in enumerate(ev):
        if e[0] == 'call' and any(is_set(a) for a in e[2]) and not (_name(e[1]) in OBSERVERS and is_set(e[2][0])):
            first = i
            break
        if e[0] == 'store-unknown' or (e[0] == 'store' and (_inside(e[1], is_set) or (contains_set is not None and contains_set(e[1])))):
            first = i           # (a store the interpreter could not follow may be one to the set)
            break
    end = len(ev) if first is None else first
    where = {}
    for i, e in enumerate(ev):
        if e[0] == 'call':
            where.setdefault(strip_site(('call', e[1], e[2], None)), []).append(i)
    facts = []
    for a, t in o.st.pc:
        c = a[1] if a[0] == 'is' else a
        obs = [c] if c[0] == 'call' else [z for z in (a[2], a[3]) if z[0] == 'call'] if a[0] == 'bin' else []
        obs = [z for z in obs if _name(z[1]) in OBSERVERS + ('insert',) and z[2] and is_set(z[2][0])]
        if not obs:
            continue
        at = [i for z in obs for i in where.get(strip_site(('call', z[1], z[2], None)), [])]
        if a[0] == 'call' and _name(a[1]) == 'insert':
            if first is not None and at == [first] and len(a[2]) == 2:
                facts.append((('pre-insert', a[2][1]), t))
            continue
        if at and all(i < end for i in at):
            facts.append((a, t))
    return facts

def _inside(place, is_set):
    """place is the set or a place within it"""
    while isinstance(place, tuple) and place:
        if is_set(place):
            return True
        if place[0] not in ('field', 'index', 'variant') or len(place) < 2:
            return False
        place = place[1]
    return False

def same_value(pc):
    """x ~ y: the same term (call sites aside), or joined by equalities the path condition found true (reflexive, symmetric,
    transitive closure)."""
    parent = {}
    def find(x):
        while parent.get(x, x) != x:
            x = parent[x]
        return x
    for a, t in pc:
        if t and a[0] == 'bin' and a[1] == 'Eq':
            x, y = find(strip_site(a[2])), find(strip_site(a[3]))
            if x != y:
                parent[x] = y
    return lambda x, y: find(strip_site(x)) == find(strip_site(y))

def summary(facts, is_set, same):
    """(members, non_members, (lo, hi)): the elements found in / not in the set and the bounds of its size that the observations
    `facts` establish."""
    yes, no, lo, hi, ne = [], [], 0, INF, []
    NEG = {'Eq': 'Ne', 'Ne': 'Eq', 'Lt': 'Ge', 'Ge': 'Lt', 'Le': 'Gt', 'Gt': 'Le'}
    FLIP = {'Eq': 'Eq', 'Ne': 'Ne', 'Lt': 'Gt', 'Gt': 'Lt', 'Le': 'Ge', 'Ge': 'Le'}
    for a, t in facts:
        if a[0] == 'pre-insert':
            (no if t else yes).append(a[1])                         # insert answers true exactly when the value was not present
        elif _call_on(a, is_set, ('contains',), 2):
            (yes if t else no).append(a[2][1])
        elif a[0] == 'is' and a[2] in ('Some', 'None') and _call_on(a[1], is_set, ('get',), 2):
            (yes if t == (a[2] == 'Some') else no).append(a[1][2][1])
        elif _call_on(a, is_set, ('is_empty',), 1):
            if t:
                hi = min(hi, 0)
            else:
                lo = max(lo, 1)
        elif a[0] == 'bin' and a[1] in NEG:
            op, l, r = a[1], a[2], a[3]
            if _call_on(r, is_set, ('len',), 1):
                op, l, r = FLIP[op], r, l
            if not (_call_on(l, is_set, ('len',), 1) and r[0] == 'lit' and isinstance(r[1], int) and not isinstance(r[1], bool)):
                continue
            op, k = (op if t else NEG[op]), r[1]
            if op == 'Eq':
                lo, hi = max(lo, k), min(hi, k)
            elif op == 'Lt':
                hi = min(hi, k - 1)
            elif op == 'Le':
                hi = min(hi, k)
            elif op == 'Gt':
                lo = max(lo, k + 1)
            elif op == 'Ge':
                lo = max(lo, k)
            else:
                ne.append(k)
    if yes:
        lo = max(lo, 1)
    changed = True
    while changed:          # len != k at an end of the interval
        changed = False
        for k in ne:
            if k == lo:
                lo, changed = lo + 1, True
            if k == hi:
                hi, changed = hi - 1, True
    return yes, no, (lo, hi)

def entails_absent(facts, pc, is_set, x):
    """(verdict, reason): do the observations `facts` of one state of the set entail that x is not a member?  Yes when x (or a
    value the path condition pc found equal to it) was found not to be a member, or when the set was found to have no member at
    all.  Observations that contradict one another (a member of a set found empty) describe no state: not taken as a yes."""
    same = same_value(pc)
    yes, no, (lo, hi) = summary(facts, is_set, same)
    if lo > hi or any(same(y, n) for y in yes for n in no):
        return False, 'the observations of the set on this path contradict one another'
    if any(same(x, n) for n in no):
        return True, 'found not to be a member'
    if hi == 0:
        return True, 'the set was found empty'
    return False, None
