"""Byte-rope model of an output buffer: *what* a function leaves in a `Vec<u8>` it writes to, however it gets it there.

An encoder that appends `identifier, length, content` in this order and one that pushes a placeholder, writes the content behind it
and patches or replaces the placeholder afterwards (`buf[pos] = x`, `insert`, `splice`, `split_off` + `extend`) leave the same
octets.  A rule that reads the order of calls tells them apart; a rule that reads the final buffer does not.  `RopeInterp` is the
abstract interpreter of absx.py with one more abstract value: a byte vector is a *rope*, the ordered tuple of the segments written
to it,

    ('pre', t)              what the buffer t held when the function was entered
    ('byte', t)             one octet, the value t
    ('bytes', t)            the octets of the byte sequence t (its length is the atom ('len', t))
    ('emit', callee, args)  what the sink function `callee` appends when called with the (non-buffer) arguments `args`
    ('many', src, el, segs) for every element `el` of the sequence `src`, in order, the segments `segs`
    ('carried', n)          (inside the analysed iteration of a loop only) whatever the earlier iterations have appended

and lengths / positions are *linear forms* over the lengths of those segments (('lin', ((atom, coefficient), ...), constant)).
A position is resolved by comparing linear forms: `pos` is the boundary before segment k iff `pos` and the sum of the lengths of
segments 0..k-1 are the same formal sum.  That is sound for every valuation of the atoms (the sums are then equal as numbers); a
position that is not formally such a sum is not resolved and the rope becomes unknown - the rule reading it fails closed.
The arithmetic is that of the integers: a `usize` subtraction that would wrap is a panic source (decided by the panic cone, C11),
not a different buffer content.

Nothing is executed; no solver: equality of formal sums is syntactic after normalisation."""
import absx, hirq
import facts as facts_mod
from absx import Out, St, UNIT
from facts import callee_of

BYTEVEC = 'alloc::vec::Vec<u8>'

def is_bytevec(ty):
    return hirq.strip_refs(ty or '') == BYTEVEC

# ---------------------------------------------------------------------------------------------------- linear forms

def mk_lin(d, c):
    items = tuple(sorted(((a, k) for a, k in d.items() if k != 0), key=repr))
    if not items:
        return ('lit', c)
    return ('lin', items, c)

def seg_len(seg):
    """length of one segment as a linear form (dict, const)"""
    if seg[0] == 'byte':
        return ({}, 1)
    if seg[0] == 'bytes':
        t = seg[1]
        if t[0] == 'lit' and isinstance(t[1], bytes):
            return ({}, len(t[1]))
        return ({('len', t): 1}, 0)
    return ({('seglen', seg): 1}, 0)

def segs_len(segs):
    d, c = {}, 0
    for s in segs:
        d2, c2 = seg_len(s)
        for a, k in d2.items():
            d[a] = d.get(a, 0) + k
        c += c2
    return d, c

def lin_of(t):
    """The linear form (dict atom -> coefficient, constant) of an integer term; any term that is not a sum, a difference, an integer
    literal or the length of a byte sequence is an atom of its own."""
    k = t[0]
    if k == 'lit' and isinstance(t[1], int) and not isinstance(t[1], bool):
        return {}, t[1]
    if k == 'lin':
        return dict(t[1]), t[2]
    if k == 'bin' and t[1] in ('Add', 'Sub'):
        (d1, c1), (d2, c2) = lin_of(t[2]), lin_of(t[3])
        sg = 1 if t[1] == 'Add' else -1
        d = dict(d1)
        for a, kk in d2.items():
            d[a] = d.get(a, 0) + sg * kk
        return {a: kk for a, kk in d.items() if kk != 0}, c1 + sg * c2
    if k == 'cast' and hirq.strip_refs(str(t[2] or '')) in ('usize', 'u64') and lin_is_length(t[1]):
        return lin_of(t[1])         # a length (0 <= n < 2^64) converted between usize and u64 is the same number
    if k == 'call' and t[1].rsplit('::', 1)[-1] == 'len' and len(t[2]) == 1:
        segs = as_segs(t[2][0], strict=True)
        if segs is not None:
            return segs_len(segs)
        return {('len', t[2][0]): 1}, 0
    return {t: 1}, 0

def lin_is_length(t):
    """t is a sum of segment lengths and non-negative constants (so it denotes a length, whatever the atoms are)"""
    d, c = lin_of(t)
    return c >= 0 and all(k > 0 and a[0] in ('len', 'seglen') for a, k in d.items())

def normal(t):
    d, c = lin_of(t)
    return mk_lin(d, c)

def as_segs(t, strict=False):
    """The segments of a byte-sequence value: a rope, a vector / array of octet terms, a byte string; any other term is one opaque
    'bytes' segment (None with strict=True)."""
    if t[0] == 'rope':
        return t[1]
    if t[0] in ('vec', 'array'):
        return tuple(('byte', x) for x in t[1])
    if t[0] == 'lit' and isinstance(t[1], bytes):
        return (('bytes', t),) if t[1] else ()
    if strict:
        return None
    return (('bytes', t),)

def boundary(segs, pos):
    """k such that `pos` is formally the total length of segs[:k]; None if there is none"""
    want = lin_of(pos)
    want = ({a: k for a, k in want[0].items() if k != 0}, want[1])
    for k in range(len(segs) + 1):
        if segs_len(segs[:k]) == want:
            return k
    return None

def mentions(t, pred):
    return bool(absx.leaves(t, pred))


class RopeInterp(absx.Interp):
    """absx.Interp + byte vectors as ropes.  `sinks`: the functions that, given a `&mut` byte buffer (a `Vec<u8>` or an `io::Write`
    sink it coerces to), append octets that are a function of their other arguments and do nothing else to it (what they append is
    decided by the rules that own them); a call of any other function with a tracked buffer makes the buffer unknown."""

    READERS = ('len', 'is_empty', 'capacity', 'reserve', 'reserve_exact', 'shrink_to_fit', 'as_slice', 'iter', 'first', 'last', 'get',
               'clone', 'to_vec', 'as_ptr', 'starts_with', 'ends_with', 'contains')

    def __init__(self, facts, body, sinks=(), **kw):
        super().__init__(facts, body, **kw)
        self.sinks = set(sinks)

    def param_env(self):
        env = super().param_env()
        for b, d in self.body.defs.items():
            if d['kind'] == 'param' and not d['proj'] and is_bytevec((d.get('pat') or {}).get('ty')) and (d['pat'].get('ty') or '').startswith('&mut'):
                env[b] = ('rope', (('pre', env[b]),))
        return env

    # ------------------------------------------------------------------ the tracked buffers
    def buf_local(self, e, st):
        """binding of the local byte vector the expression denotes (`buf`, `&mut tmp`, `&mut *buf`), or None"""
        p = hirq.peel_refs(e)
        if p['k'] == 'Path' and p.get('res') == 'local' and is_bytevec(p.get('ty')) and p['bind'] in st.env:
            v = st.env[p['bind']]
            if v[0] == 'rope' or v == ('vec', ()) or (v[0] in ('vec', 'array')):
                return p['bind']
        return None

    def segs_of(self, st, b):
        return as_segs(st.env[b])

    def put(self, st, b, segs, why=None):
        return st.set(b, ('rope', tuple(segs)) if segs is not None else ('unk', why or 'buffer'))

    # ------------------------------------------------------------------ arithmetic on lengths stays in normal form
    def ev_Binary(self, e, st):
        outs = super().ev_Binary(e, st)
        if e['op'] in ('Add', 'Sub'):
            res = []
            for o in outs:
                if o.kind == 'val' and o.val[0] == 'bin' and mentions(o.val, lambda x: x[0] == 'lin'):
                    res.append(Out('val', normal(o.val), o.st))
                else:
                    res.append(o)
            return res
        return outs

    # ------------------------------------------------------------------ calls that are handed a buffer
    def ev_Call(self, e, st):
        cal = callee_of(e)
        if cal is not None and e['f'].get('defkind', '') and not e['f'].get('defkind', '').startswith('Ctor'):
            idx = [i for i, a in enumerate(e['args']) if (a.get('ty') or '').startswith('&mut') and self.buf_local(a, st) is not None]
            if idx:
                return self.buffer_call(cal, e, e['args'], idx, st)
        return super().ev_Call(e, st)

    def buffer_call(self, cal, e, arg_nodes, idx, st):
        others = [a for i, a in enumerate(arg_nodes) if i not in idx]
        res, abn = self.seq(others, st)
        outs = list(abn)
        name = cal.rsplit('::', 1)[-1]
        for vals, s in res:
            bs = [self.buf_local(arg_nodes[i], s) for i in idx]
            if cal in self.sinks and len(idx) == 1 and bs[0] is not None:
                b = bs[0]
                seg = ('emit', cal, tuple(vals))
                s2 = self.put(s, b, self.segs_of(s, b) + (seg,)).event(('call', cal, (('local', b),) + tuple(vals), e))
                ty = e.get('ty') or '()'
                if ty == '()':
                    outs.append(Out('val', UNIT, s2))
                else:
                    outs.append(Out('val', ('call', cal, (('local', b),) + tuple(vals), e.get('id')), s2))
            elif cal == 'core::mem::take' and len(idx) == 1 and not vals and bs[0] is not None:
                # mem::take(&mut v): the result is what v held, v is left empty
                b = bs[0]
                outs.append(Out('val', ('rope', self.segs_of(s, b)), self.put(s, b, ()).event(('call', cal, (('local', b),), e))))
            elif cal == 'core::mem::swap' and len(idx) == 2 and not vals and None not in bs and bs[0] != bs[1]:
                x, y = self.segs_of(s, bs[0]), self.segs_of(s, bs[1])
                outs.append(Out('val', UNIT, self.put(self.put(s, bs[0], y), bs[1], x).event(('call', cal, (('local', bs[0]), ('local', bs[1])), e))))
            elif name in ('write', 'write_all') and len(idx) == 1 and len(vals) == 1 and bs[0] is not None and 'io::Write' in cal:
                # <Vec<u8> as io::Write>::write / write_all append the whole slice and cannot fail
                b = bs[0]
                s2 = self.put(s, b, self.segs_of(s, b) + as_segs(vals[0])).event(('call', cal, (('local', b),) + tuple(vals), e))
                okv = UNIT if name == 'write_all' else normal(('call', 'len', (vals[0],), None))
                outs.append(Out('val', ('ctor', 'Ok', (okv,)), s2))
            else:
                s2 = s
                for b in bs:
                    if b is not None:
                        s2 = self.put(s2, b, None, 'buffer handed to %s' % cal)
                outs.append(Out('val', ('call', cal, tuple(vals), e.get('id')), s2.event(('call', cal, tuple(vals), e))))
        return outs

    def ev_MethodCall(self, e, st):
        b = self.buf_local(e['recv'], st)
        if b is None:
            cal = callee_of(e) or ''
            idx = [i for i, a in enumerate(e['args']) if (a.get('ty') or '').startswith('&mut') and self.buf_local(a, st) is not None]
            if idx and not (cal.rsplit('::', 1)[-1] in ('len', 'is_empty')):
                # a method of something else that is handed a tracked buffer by `&mut`
                return self.buffer_call(cal, e, [e['recv']] + e['args'], [i + 1 for i in idx], st)
            return super().ev_MethodCall(e, st)
        cal = callee_of(e) or ('<method %s>' % e.get('name'))
        name = cal.rsplit('::', 1)[-1]
        res, abn = self.seq(e['args'], st)
        outs = list(abn)
        for vals, s in res:
            segs = self.segs_of(s, b)
            ev = lambda s_: s_.event(('call', cal, (('local', b),) + tuple(vals), e))
            if name == 'len' and not vals:
                d, c = segs_len(segs)
                outs.append(Out('val', mk_lin(d, c), s))
            elif name == 'is_empty' and not vals:
                d, c = segs_len(segs)
                outs.append(Out('val', absx.bin_term('Eq', mk_lin(d, c), ('lit', 0)), s))
            elif name == 'push' and len(vals) == 1:
                outs.append(Out('val', UNIT, ev(self.put(s, b, segs + (('byte', vals[0]),)))))
            elif name in ('extend', 'extend_from_slice', 'write_all', 'write') and len(vals) == 1 and not hirq.strip_refs(e['args'][0].get('ty') or '').startswith('core::option::Option<'):
                # every octet of the argument, in order, behind what is there (for a Vec<u8>, io::Write::write takes the whole slice)
                src = self.buf_local(e['args'][0], s)
                add = as_segs(vals[0])
                s2 = self.put(s, b, segs + add)
                if name in ('write_all', 'write'):
                    outs.append(Out('val', ('ctor', 'Ok', (UNIT if name == 'write_all' else normal(('call', 'len', (vals[0],), None)),)), ev(s2)))
                else:
                    outs.append(Out('val', UNIT, ev(s2)))
            elif name == 'append' and len(vals) == 1 and self.buf_local(e['args'][0], s) is not None:
                # a.append(&mut b): b's octets behind a's, b is left empty
                src = self.buf_local(e['args'][0], s)
                s2 = self.put(self.put(s, b, segs + self.segs_of(s, src)), src, ())
                outs.append(Out('val', UNIT, ev(s2)))
            elif name == 'clear' and not vals:
                outs.append(Out('val', UNIT, ev(self.put(s, b, ()))))
            elif name == 'insert' and len(vals) == 2:
                k = boundary(segs, vals[0])
                s2 = self.put(s, b, segs[:k] + (('byte', vals[1]),) + segs[k:] if k is not None else None, 'insert at a position that is not a segment boundary')
                outs.append(Out('val', UNIT, ev(s2)))
            elif name == 'truncate' and len(vals) == 1:
                k = boundary(segs, vals[0])
                outs.append(Out('val', UNIT, ev(self.put(s, b, segs[:k] if k is not None else None, 'truncate at a position that is not a segment boundary'))))
            elif name == 'split_off' and len(vals) == 1:
                # v.split_off(at): v keeps [0, at), the result is [at, len)
                k = boundary(segs, vals[0])
                if k is None:
                    outs.append(Out('val', ('unk', 'split_off'), ev(self.put(s, b, None, 'split_off at a position that is not a segment boundary'))))
                else:
                    outs.append(Out('val', ('rope', segs[k:]), ev(self.put(s, b, segs[:k]))))
            elif name in ('splice', 'drain') and len(vals) == (2 if name == 'splice' else 1):
                # v.splice(range, with): the octets of `range` are replaced by those of `with`; the removed ones are the result
                # (drain: replaced by nothing).  The replacement takes place whether or not the result is consumed.
                ij = self.range_bounds(segs, vals[0])
                if ij is None:
                    outs.append(Out('val', ('unk', name), ev(self.put(s, b, None, '%s over a range that does not lie on segment boundaries' % name))))
                else:
                    i, j = ij
                    add = as_segs(vals[1]) if name == 'splice' else ()
                    outs.append(Out('val', ('rope', segs[i:j]), ev(self.put(s, b, segs[:i] + add + segs[j:]))))
            elif name in self.READERS:
                outs.extend(self.call(cal, [('rope', segs)] + vals, e, s))
            else:
                # any other method may rewrite the buffer
                outs.append(Out('val', ('call', cal, tuple(vals), e.get('id')), ev(self.put(s, b, None, 'buffer modified by %s' % name))))
        return outs

    def range_bounds(self, segs, r):
        """(i, j): the range value r covers exactly segs[i:j]"""
        lo = hi = None
        nm = r[1].rsplit('::', 1)[-1] if r[0] in ('struct', 'call') else ''
        if r[0] == 'struct' and nm in ('Range', 'RangeFrom', 'RangeTo', 'RangeFull', 'RangeToInclusive'):
            fl = dict(r[2])
            lo = fl.get('start', ('lit', 0))
            hi = fl.get('end')
            if hi is not None and nm == 'RangeToInclusive':
                hi = ('bin', 'Add', hi, ('lit', 1))
        elif r[0] == 'call' and r[1].startswith('core::ops::range::RangeInclusive') and nm == 'new' and len(r[2]) == 2:
            lo, hi = r[2][0], ('bin', 'Add', r[2][1], ('lit', 1))
        else:
            return None
        i = boundary(segs, lo)
        j = len(segs) if hi is None else boundary(segs, hi)
        if i is None or j is None or j < i:
            return None
        return i, j

    # ------------------------------------------------------------------ stores into the buffer
    def assign(self, lhs, val, st, node):
        l = lhs
        if l['k'] == 'Index':
            b = self.buf_local(l['e'], st)
            if b is not None:
                outs = []
                for o in self.ev(l['idx'], st):
                    if o.kind != 'val':
                        outs.append(o); continue
                    segs = self.segs_of(o.st, b)
                    k = boundary(segs, o.val)
                    if k is not None and k < len(segs) and segs[k][0] == 'byte':
                        # buf[pos] = x where pos is the position of a single octet: that octet is now x
                        s2 = self.put(o.st, b, segs[:k] + (('byte', val),) + segs[k + 1:])
                    else:
                        s2 = self.put(o.st, b, None, 'store at a position that is not that of a single octet')
                    outs.append(Out('val', UNIT, s2.event(('store-index', b, o.val, val, node))))
                return outs
        return super().assign(lhs, val, st, node)

    # ------------------------------------------------------------------ loops that only append
    def ev_For(self, e, st):
        """A `for` over a sequence whose body, evaluated on a generic element from a state in which every tracked buffer already holds
        what the earlier iterations appended (an opaque segment), reaches the back edge on exactly one path having changed nothing but
        the tracked buffers, and those only by appending segments that do not depend on what was there: the loop as a whole appends,
        for every element in order, those segments.  (Induction over the iterations; the exits by `?` / `return` keep their own
        paths.)  Any other loop is left to the general treatment, whose cut-off paths (kind 'loop') a rule must fail closed on."""
        cands = []
        for n, _c in facts_mod.walk(e['body']):
            if n.get('k') == 'Path' and n.get('res') == 'local' and is_bytevec(n.get('ty')) and n['bind'] in st.env and n['bind'] not in cands:
                v = st.env[n['bind']]
                if v[0] == 'rope' or v == ('vec', ()):
                    cands.append(n['bind'])
        if not cands:
            return super().ev_For(e, st)
        outs = []
        for o in self.ev(e['iter'], st):
            if o.kind != 'val':
                outs.append(o); continue
            itv = o.val
            if self.literal_elems(itv) is not None:
                return super().ev_For(e, st)
            s0 = o.st
            base = {}
            for b in cands:
                m, s0 = s0.fresh('carried')
                base[b] = as_segs(s0.env[b]) + (('carried', m[2]),)
                s0 = s0.set(b, ('rope', base[b]))
            el, s1 = s0.fresh('elem')
            el = ('elem', itv, el[2])
            body = []
            for kind, s2 in self.match(e['pat'], el, s1):
                if kind != 'no':
                    body.extend(self.ev(e['body'], s2))
            lid = e.get('id')
            back = [x for x in body if x.kind == 'val' or (x.kind == 'cont' and (x.target is None or x.target == lid))]
            early = [x for x in body if x.kind == 'brk' and (x.target is None or x.target == lid)]
            ok = len(back) == 1 and not early
            delta = {}
            if ok:
                sb = back[0].st
                is_marker = lambda x: x[0] == 'carried'
                for b in cands:
                    v = sb.env.get(b, ('unk',))
                    if v[0] != 'rope' or v[1][:len(base[b])] != base[b] or mentions(v[1][len(base[b]):], is_marker):
                        ok = False; break
                    delta[b] = v[1][len(base[b]):]
                ok = ok and sb.heap == o.st.heap and all(sb.env.get(b2) == v2 for b2, v2 in o.st.env.items() if b2 not in cands)
            if not ok:
                return super().ev_For(e, st)
            env = dict(o.st.env)
            for b in cands:
                if delta[b]:
                    env[b] = ('rope', as_segs(o.st.env[b]) + (('many', itv, el, delta[b]),))
            outs.append(Out('val', UNIT, St(env, sb.heap, sb.ev, sb.pc, sb.ctr)))
            outs.extend(x for x in body if x is not back[0])
        return outs
