"""Is `Clone::clone` of a type the identity - does `x.clone()` denote the same value as `x`?

Decided from the Clone impls of the analysed workspace, on every run:
 * references, raw pointers, fn pointers, primitives: the clone is a copy of the same bits;
 * tuples, arrays, slices: element-wise;
 * `Arc<T>` / `Rc<T>`: the clone is another handle to the *same* object;
 * an ADT defined outside the workspace (std, tokio, url, native_tls, ..): trusted to honour std's Clone contract (a faithful copy) -
   provided the clone of every type argument is the identity (`Option<T>`, `Vec<T>`, `HashMap<K, V>` .. clone their elements);
 * an ADT of the workspace: the body of its `Clone::clone` (derived or hand-written - derived bodies are ordinary HIR) is evaluated
   by the abstract interpreter, with the clones it makes of its fields decided by this same function; the clone is the identity
   exactly when every path returns the receiver put together again - `*self`, `S { f: self.f, .. }` for every field, `V(self.V#0, ..)`
   on a path that found the receiver to be `V` - and does nothing else.  A hand-written impl that answers a constant
   (`StdStream::clone` -> `Invalid`) or resets a field (`Ldap::clone` -> `timeout: None`) is not, and neither is any type that
   contains one by value (`Option<StdStream>`, `LdapConnSettings`);
 * a type parameter / associated type: unknown at this site; trusted like an external type (the instantiated call sites are decided).
Recursive types are decided coinductively (a type under evaluation is assumed faithful: values are finite).

`why(facts, ty)` -> None if the clone is the identity, else a one-line reason."""
import re

PRIMS = {'bool', 'char', 'str', '()', '!', 'f32', 'f64'} | {s + w for s in 'iu' for w in ('8', '16', '32', '64', '128', 'size')}
SHARED_HANDLES = ('alloc::sync::Arc', 'alloc::rc::Rc', 'alloc::sync::Weak', 'alloc::rc::Weak',
                  # channel senders: a clone is another handle to the same channel, no message is copied
                  'tokio::sync::mpsc::unbounded::UnboundedSender', 'tokio::sync::mpsc::bounded::Sender', 'std::sync::mpsc::Sender')
CLONE_TRAIT = 'core::clone::Clone'
SELF = ('param', 'self')


def split_top(s, sep=','):
    """Split at the separators that are not nested in <>, (), []."""
    out, depth, cur = [], 0, ''
    i = 0
    while i < len(s):
        c = s[i]
        if c in '<([':
            depth += 1
        elif c in ')]' or (c == '>' and not (i > 0 and s[i - 1] == '-')):
            depth -= 1
        if c == sep and depth == 0:
            out.append(cur); cur = ''
        else:
            cur += c
        i += 1
    if cur.strip():
        out.append(cur)
    return [x.strip() for x in out]


def head_args(ty):
    """`a::B<X, Y>` -> ('a::B', ['X', 'Y'])."""
    i = ty.find('<')
    if i < 0 or not ty.endswith('>'):
        return ty, []
    return ty[:i], split_top(ty[i + 1:-1])


def short(ty):
    return re.sub(r'\b(?:[a-z_0-9]+::)+', '', ty)


def why(facts, ty):
    ty = (ty or '').strip()
    cache = facts.__dict__.setdefault('_clone_identity', {})
    busy = facts.__dict__.setdefault('_clone_busy', [])
    if ty in cache:
        return cache[ty]
    if ty in busy:
        return None                       # coinduction: under evaluation further up
    busy.append(ty)
    try:
        r = _why(facts, ty)
    finally:
        busy.pop()
    if not busy:
        cache[ty] = r                     # (only results that do not hang on a coinductive assumption are kept)
    return r


def _why(facts, ty):
    if not ty or ty in PRIMS or ty[0] in "&*{'" or ty.startswith(('fn(', 'for<', 'dyn ', 'impl ', 'unsafe ', 'extern ')):
        return None
    if ty.startswith('<'):
        return None                       # `<T as Trait>::Assoc`: not known here
    if ty.startswith('(') and ty.endswith(')'):
        return _first(facts, split_top(ty[1:-1]))
    if ty.startswith('[') and ty.endswith(']'):
        return why(facts, split_top(ty[1:-1], ';')[0])
    head, args = head_args(ty)
    if '::' not in head:
        return None                       # a type parameter
    if head in SHARED_HANDLES:
        return None
    if head.split('::')[0] in facts.crates:
        r = _workspace_adt(facts, head)
        if r is not None:
            return r
    return _first(facts, [a for a in args if not a.startswith("'")])


def _first(facts, tys):
    for t in tys:
        r = why(facts, t)
        if r is not None:
            return r
    return None


def clone_body_path(facts, head):
    """The def path of `<head<..> as Clone>::clone` in the analysed workspace, or None if the type has no Clone impl there."""
    for imp in facts.impls:
        if imp.get('trait_def') == CLONE_TRAIT and head_args(imp.get('self_ty') or '')[0] == head:
            p = imp['path'] + '::clone'
            if p in facts.hir_all:
                return p
    return None


def _workspace_adt(facts, head):
    import absx, hirq, sem
    p = clone_body_path(facts, head)
    if p is None:
        return None                       # not Clone: no value of it is ever cloned
    item = facts.items.get(head) or {}
    name = short(head)
    B = hirq.Body(facts, facts.hir_all[p])
    outs, _I = sem.paths(facts, B, combinators=True)
    if not outs:
        return '%s::clone has no path the analysis can follow' % name
    variants = [v['name'] for v in item.get('variants') or []]
    for o in outs:
        if o.kind not in ('val', 'ret'):
            return '%s::clone does not return on some path (%s)' % (name, o.kind)
        did = [e for e in o.st.ev if e[0] in ('store', 'store-unknown', 'spawn')
               or (e[0] == 'call' and not hirq.is_transparent(e[1]) and e[1].rsplit('::', 1)[-1] not in absx.PURE_OBSERVERS)]
        v = o.val
        bad = _not_self(facts, v, o, item, variants)
        if bad:
            return '%s::clone %s' % (name, bad)
        if did:
            e = did[0]
            return '%s::clone does something besides copying (%s %s)' % (name, e[0], (e[1] if isinstance(e[1], str) else absx.fmt(e[1]))[:60])
    return None


def _field_why(facts, v, want, fty, label):
    """v is what the clone puts where the receiver holds `want`: None if it is that value."""
    import absx
    if v == want:
        return None
    if v[0] == 'call' and v[1].rsplit('::', 1)[-1] == 'clone' and len(v[2]) == 1 and v[2][0] == want:
        inner = why(facts, fty)
        return 'is not the identity: %s (%s): %s' % (label, short(fty), inner or 'its clone is not shown to be faithful')
    return 'is not the identity: %s is %s, not the receiver\'s' % (label, absx.fmt(v)[:40])


def _not_self(facts, v, o, item, variants):
    """None if the term v, on path o, is the receiver put together again; else what is wrong."""
    import absx, sem
    if v == SELF:
        return None
    kind = item.get('kind')
    if kind == 'Struct' and v[0] in ('struct', 'ctor'):
        fields = item['variants'][0]['fields']
        base = v[3] if v[0] == 'struct' else None
        got = dict(v[2]) if v[0] == 'struct' else {str(i): x for i, x in enumerate(v[2])}       # a tuple struct's fields are 0, 1, ..
        if base is not None and base != SELF:
            return 'is not the identity: the remaining fields come from %s' % absx.fmt(base)[:40]
        for fl in fields:
            fname = fl['name']
            if fname not in got:
                if base == SELF:
                    continue
                return 'is not the identity: field %s is not copied' % fname
            r = _field_why(facts, got[fname], ('field', SELF, fname), fl['ty'], 'field ' + fname)
            if r:
                return r
        return None
    if kind == 'Enum' and v[0] in ('ctor', 'struct'):
        vname = v[1].rsplit('::', 1)[-1]
        var = next((x for x in item['variants'] if x['name'] == vname), None)
        if var is None:
            return 'returns %s' % absx.fmt(v)[:40]
        if sem.variant_truth(o.st.pc, lambda t: t == SELF, v[1], [hirq_short(x['path']) for x in item['variants']]) is not True \
                and sem.variant_truth(o.st.pc, lambda t: t == SELF, vname, variants) is not True:
            return 'returns %s whatever the receiver is' % absx.fmt(v)[:40]
        vals = list(v[2]) if v[0] == 'ctor' else [dict(v[2]).get(fl['name']) for fl in var['fields']]
        if len(vals) != len(var['fields']) or any(x is None for x in vals):
            return 'returns %s' % absx.fmt(v)[:40]
        for i, (fl, x) in enumerate(zip(var['fields'], vals)):
            wants = [('variant', SELF, v[1], i), ('vfield', SELF, v[1], fl['name'])]
            rs = [_field_why(facts, x, w, fl['ty'], 'payload %s of %s' % (fl['name'], vname)) for w in wants]
            if all(rs):
                return rs[0]
        return None
    return 'returns %s, not its receiver' % absx.fmt(v)[:40]


def hirq_short(d):
    import hirq
    return hirq.short_def(d)


CLONING_METHODS = ('clone', 'cloned', 'to_owned', 'to_vec')

def call_why(facts, cal, node):
    """For a call the interpreter would otherwise read as the identity on its receiver: None if it is, else why not.
    The type that is cloned is the type of the call expression (`Clone::clone(&self) -> Self`; `Option<&T>::cloned() -> Option<T>`,
    `ToOwned::to_owned`, `<[T]>::to_vec` clone what they yield)."""
    name = cal.rsplit('::', 1)[-1]
    if name not in CLONING_METHODS:
        return None
    return why(facts, node.get('ty') or '')
