"""Loading and normalising the fact files written by driver/ (engine E1).

Everything here is a pure function of the JSON facts; nothing executes analysed code.
"""
import json, os, re, sys

class Facts:
    def __init__(self, paths):
        self.crates = {}
        self.items = {}      # path -> item (impl blocks excluded: their printed path collides with the type's)
        self.items_all = []
        self.impls = []
        self.hir = {}        # path -> body record
        self.mir = {}        # path -> mir record
        self.binds = {}      # bind id -> (owner path, pattern node)
        for p in paths:
            with open(p) as f:
                d = json.load(f)
            self.crates[d['crate']] = d
            for it in d['items']:
                self.items_all.append(it)
                if it['kind'].startswith('Impl'):
                    self.impls.append(it)
                    continue
                if it['path'] in self.items and self.items[it['path']]['kind'] in ('Struct', 'Enum', 'Union', 'Fn', 'AssocFn'):
                    continue
                self.items[it['path']] = it
            for h in d['hir']:
                h['crate'] = d['crate']
                h['body'] = norm(h['body'])
                self.hir[h['path']] = h
            for m in d['mir']:
                m['crate'] = d['crate']
                self.mir[m['path']] = m
        self.nonces = {c: d.get('nonce') for c, d in self.crates.items()}
        self._inline_new_helpers()

    def _inline_new_helpers(self):
        """Functions that do not exist on the baseline tree (rules/refs/baseline_fns.txt) are helpers introduced by a later
        change: every call of one is expanded in place in its callers, so that the rules see the anchored bodies as a whole
        wherever the maintainer has drawn the function boundaries.  A new function all of whose uses could be expanded is
        dropped from `hir` (its code is accounted for in its callers); `hir_all` keeps everything."""
        self.hir_all = dict(self.hir)
        self.new_fns = set()
        base = os.path.join(os.path.dirname(os.path.abspath(__file__)), 'refs', 'baseline_fns.txt')
        if not os.path.exists(base) or os.environ.get('LDAP3_NO_INLINE'):
            return
        with open(base) as fh:
            known = {l.strip() for l in fh if l.strip() and not l.startswith('#')}
        # the names of an impl block's generic parameters are part of a def path (`EntryStream::<'a, 'b, S, A>::next`) but not of the
        # function's identity: paths are compared with the generic parameter lists blanked
        blank = lambda p: re.sub(r'::<[^<>]*(?:<[^<>]*>[^<>]*)*>', '::<>', p)
        known_blank = {blank(k) for k in known}
        self.new_fns = {p for p, r in self.hir.items() if p not in known and blank(p) not in known_blank and r.get('kind') in ('Fn', 'AssocFn')}
        # a private function that was merely renamed is not a new helper: a new function next to a vanished baseline function
        # of the same parent and signature is kept as a body of its own (role-based anchors find it under its new name)
        gone = [k for k in known if k not in self.hir and '::{' not in k]
        def parent(p):
            return p.rsplit('::', 1)[0]
        def sig(p):
            it = self.items.get(p) or {}
            return (tuple(it.get('inputs') or ()), it.get('output'))
        base_sigs = {}
        sigfile = base + '.sigs'
        if os.path.exists(sigfile):
            with open(sigfile) as fh:
                base_sigs = json.load(fh)
        renamed = set()
        for g in gone:
            cands = [n for n in sorted(self.new_fns) if parent(g) == parent(n) and g in base_sigs and list(base_sigs[g][0]) == list(sig(n)[0]) and base_sigs[g][1] == sig(n)[1]]
            if len(cands) > 1:
                # one vanished function, several new ones of its signature (the function renamed *and* wrapped: `fn a(x) { b(x)?.filter(..) }`
                # next to `fn b(x) { <the old body> }`): the one that took the vanished function's place is the one the others are not
                # called from; a candidate that another candidate calls is a helper of that one and is expanded into it like any new
                # function, so the anchored body is the composition.  (Candidates that do not call each other are all kept.)
                called = {t for c in cands for x, _c in walk(self.hir[c]['body']) if x.get('k') in ('Call', 'MethodCall') for t in [callee_of(x)] if t in cands and t != c}
                outer = [c for c in cands if c not in called]
                cands = outer or cands
            renamed.update(cands)
        self.new_fns -= renamed
        self.renamed_fns = sorted(renamed)
        if not self.new_fns:
            return
        pol = lambda cal: cal in self.new_fns
        out = {}
        for path, rec in self.hir_all.items():
            out[path] = inlined(self, rec, pol)
        # a new function still referenced (as a value, or recursively) after expansion stays a body of its own
        still = set()
        for path, rec in out.items():
            for n, _c in walk(rec['body']):
                if n.get('k') in ('Call', 'MethodCall') and callee_of(n) in self.new_fns and path not in self.new_fns:
                    still.add(callee_of(n))
                if n.get('k') == 'Path' and (n.get('inst') or n.get('def')) in self.new_fns and path not in self.new_fns:
                    still.add(n.get('inst') or n.get('def'))
        self.hir = {p: r for p, r in out.items() if p not in self.new_fns or p in still}
        self.inlined_fns = sorted(self.new_fns - still)

    def body(self, path):
        if path not in self.hir:
            raise AnchorMissing("body " + path)
        return self.hir[path]

    def find_bodies(self, pred):
        return [h for h in self.hir.values() if pred(h)]

    def item(self, path):
        if path not in self.items:
            raise AnchorMissing("item " + path)
        return self.items[path]

    def adt(self, path):
        it = self.item(path)
        if 'variants' not in it:
            raise AnchorMissing("adt " + path)
        return it

    def discr(self, enum_path):
        """variant name -> discriminant"""
        return {v['name']: v['discr'] for v in self.adt(enum_path)['variants']}


class AnchorMissing(Exception):
    pass


# ---------------------------------------------------------------------------------------
# Normalisation of desugarings.  After norm():
#   Try(e)            for `e?`
#   Await(e)          for `e.await`
#   For(pat, iter, body)
#   While(cond, body) for `while cond {}` / `while let`
#   DropTemps / Use / TypeAscr wrappers removed
#   BlockExpr{block} -> Block (keeps label/rules)
# Macro provenance is kept in sp[5].

def is_node(x):
    return isinstance(x, dict) and 'k' in x

def children(n):
    """Yield (role, child) for all node-valued children (expressions, blocks, patterns excluded)."""
    for key, v in n.items():
        if key in ('pat', 'params', 'sp', 'ty'):
            continue
        if is_node(v):
            yield key, v
        elif isinstance(v, list):
            for i, x in enumerate(v):
                if is_node(x):
                    yield (key, i), x
                elif isinstance(x, dict):
                    # arms / struct fields / stmts
                    for k2, y in x.items():
                        if k2 in ('pat', 'sp'):
                            continue
                        if is_node(y):
                            yield (key, i, k2), y

def norm(n):
    if isinstance(n, list):
        return [norm(x) for x in n]
    if not isinstance(n, dict):
        return n
    n = {k: norm(v) for k, v in n.items()}
    k = n.get('k')
    if k in ('DropTemps', 'Use', 'TypeAscr'):
        return n['e']
    if k == 'BlockExpr':
        b = n['block']
        b = dict(b)
        b['id'] = n.get('id')
        b['ty'] = n.get('ty')
        if 'label' in n:
            b['label'] = n['label']
        b['rules'] = n.get('rules')
        return b
    if k == 'Match':
        src = n.get('src', '')
        if src.startswith('TryDesugar'):
            # match Try::branch(e) { Continue(v) => v, Break(r) => return from_residual(r) }
            scrut = n['scrut']
            inner = scrut['args'][0] if scrut.get('k') == 'Call' and scrut.get('args') else scrut
            return {'k': 'Try', 'id': n.get('id'), 'sp': n.get('sp'), 'ty': n.get('ty'), 'e': inner}
        if src.startswith('AwaitDesugar'):
            scrut = n['scrut']
            inner = scrut['args'][0] if scrut.get('k') == 'Call' and scrut.get('args') else scrut
            return {'k': 'Await', 'id': n.get('id'), 'sp': n.get('sp'), 'ty': n.get('ty'), 'e': inner}
        if src.startswith('ForLoopDesugar'):
            # match into_iter(it) { mut iter => loop { match next(&mut iter) { None => break, Some(pat) => body } } }
            try:
                it = n['scrut']['args'][0]
                loop = n['arms'][0]['body']
                inner = loop['body']['stmts'][0]['e'] if loop['body']['stmts'] else loop['body']['expr']
                some_arm = [a for a in inner['arms'] if a['pat'].get('k') in ('PTupleStruct', 'PStruct') and (a['pat'].get('def') or '').endswith('::Some')][0]
                pat = some_arm['pat']
                if pat.get('k') == 'PTupleStruct':
                    pat = pat['pats'][0]
                else:
                    pat = pat['fields'][0]['pat']
                r = {'k': 'For', 'id': loop.get('id'), 'sp': n.get('sp'), 'ty': n.get('ty'),
                     'pat': pat, 'iter': it, 'body': some_arm['body']}
                if 'label' in loop:
                    r['label'] = loop['label']
                return r
            except (KeyError, IndexError, TypeError):
                return n
    if k == 'Match' and os.environ.get('LDAP3_NO_CANON') is None:
        r = canon_two_arm_match(n)
        if r is not None:
            return r
    if k == 'Loop' and not n.get('src', '').startswith('While') and os.environ.get('LDAP3_NO_CANON') is None:
        r = canon_loop_match(n)
        if r is not None:
            return canon_while_next(r)
    if k == 'Loop' and n.get('src', '').startswith('While'):
        # loop { if cond { body } else { break } }
        try:
            b = n['body']
            iff = b['expr'] if b.get('expr') else b['stmts'][0]['e']
            if iff.get('k') == 'If':
                r = {'k': 'While', 'id': n.get('id'), 'sp': n.get('sp'), 'ty': n.get('ty'),
                     'cond': iff['cond'], 'body': iff['then']}
                if 'label' in n:
                    r['label'] = n['label']
                return canon_while_next(r) if os.environ.get('LDAP3_NO_CANON') is None else r
        except (KeyError, IndexError, TypeError):
            pass
    return n


# ---------------------------------------------------------------------------------------
# Canonical forms of equivalent control constructs.  A rule must give the same verdict for
#   match e { P => A, <catch-all> => B }      and   if let P = e { A } else { B }
#   loop { match it.next() { None => break, Some(x) => body } }   and   while let Some(x) = it.next() { body }
#   while let Some(x) = it.next() { body }    and   for x in it { body }      (the remaining items of an iterator)
# so the first form of each pair is rewritten into the second when the facts are loaded.

def _catch_all(p):
    """Pattern that binds nothing and is the complement of its sibling arm: `_`, a unit variant (`None`), or a variant
    whose sub-patterns are all wildcards (`Err(_)`)."""
    k = p.get('k')
    if k == 'Wild':
        return True
    if k == 'PExpr' and p['e'].get('k') == 'PPath':
        return True
    if k == 'PTupleStruct':
        return all(x.get('k') == 'Wild' for x in p['pats'])
    if k == 'PStruct':
        return all(f['pat'].get('k') == 'Wild' for f in p['fields'])
    return False

def _pat_rank(p):
    v = (p.get('ctor_of') or p.get('def') or '') if p.get('k') in ('PTupleStruct', 'PStruct') else ''
    if p.get('k') == 'PExpr':
        v = p['e'].get('ctor_of') or p['e'].get('def') or ''
    last = v.rsplit('::', 1)[-1]
    return 0 if last in ('Some', 'Ok') else (2 if last in ('None', 'Err') else 1)

def canon_two_arm_match(n):
    if n.get('src', 'Normal') != 'Normal' or len(n['arms']) != 2 or any(a.get('guard') is not None for a in n['arms']):
        return None
    a, b = n['arms']
    if a['pat'].get('k') == 'Wild':
        return None                      # `_ => A, unreachable => B`
    if _catch_all(b['pat']) and not (_catch_all(a['pat']) and _pat_rank(a['pat']) > _pat_rank(b['pat'])):
        then, els = a, b
    elif _catch_all(a['pat']) and b['pat'].get('k') != 'Wild':
        then, els = b, a
    else:
        return None
    # both arms must test the same scrutinee exhaustively: the else arm is the complement only for two-variant enums or `_`
    if els['pat'].get('k') != 'Wild':
        def enum_of(p):
            d = p.get('ctor_of') or p.get('def') or ''
            if p.get('k') == 'PExpr':
                d = p['e'].get('ctor_of') or p['e'].get('def') or ''
            return d.rsplit('::', 1)[0], d.rsplit('::', 1)[-1]
        e1, v1 = enum_of(then['pat'])
        e2, v2 = enum_of(els['pat'])
        if not ((v1, v2) in (('Some', 'None'), ('None', 'Some'), ('Ok', 'Err'), ('Err', 'Ok'))):
            return None
    cond = {'k': 'LetExpr', 'id': (n.get('id') or '') + 'c', 'sp': n.get('sp'), 'ty': 'bool', 'pat': then['pat'], 'init': n['scrut']}
    return {'k': 'If', 'id': n.get('id'), 'sp': n.get('sp'), 'ty': n.get('ty'), 'cond': cond, 'then': then['body'], 'els': els['body'],
            'from_match': True}

def _is_plain_break(e, loop_id):
    if e is None:
        return False
    if e.get('k') == 'Block' and not e['stmts'] and e.get('expr') is not None:
        e = e['expr']
    if e.get('k') == 'Block' and len(e['stmts']) == 1 and e.get('expr') is None and e['stmts'][0]['k'] in ('Expr', 'Semi'):
        e = e['stmts'][0]['e']
    return e.get('k') == 'Break' and e.get('e') is None and e.get('target') in (None, loop_id)

def canon_loop_match(n):
    """loop { if let P = e { body } else { break } }  ->  while let P = e { body }"""
    b = n.get('body')
    if not b or b.get('k') != 'Block':
        return None
    if not b['stmts'] and b.get('expr') is not None:
        iff = b['expr']
    elif len(b['stmts']) == 1 and b.get('expr') is None and b['stmts'][0]['k'] in ('Expr', 'Semi'):
        iff = b['stmts'][0]['e']
    else:
        return None
    if iff.get('k') != 'If' or iff['cond'].get('k') != 'LetExpr' or not _is_plain_break(iff.get('els'), n.get('id')):
        return None
    r = {'k': 'While', 'id': n.get('id'), 'sp': n.get('sp'), 'ty': n.get('ty'), 'cond': iff['cond'], 'body': iff['then']}
    if 'label' in n:
        r['label'] = n['label']
    return r

def canon_while_next(w):
    """while let Some(p) = it.next() { body }  ->  for p in it { body }   (marked by_next: the iterator is borrowed, not consumed)"""
    c = w.get('cond')
    if not c or c.get('k') != 'LetExpr':
        return w
    p = c['pat']
    if p.get('k') != 'PTupleStruct' or not (p.get('ctor_of') or p.get('def') or '').endswith('::Some') or len(p['pats']) != 1:
        return w
    e = c['init']
    if e.get('k') != 'MethodCall' or e.get('name') != 'next' or e['args'] or not (
            (e.get('callee') or '').endswith('Iterator::next') or (e.get('inst') or '').endswith('Iterator>::next')):
        return w
    r = {'k': 'For', 'id': w.get('id'), 'sp': w.get('sp'), 'ty': w.get('ty'), 'pat': p['pats'][0], 'iter': e['recv'], 'body': w['body'], 'by_next': True}
    if 'label' in w:
        r['label'] = w['label']
    return r


# ---------------------------------------------------------------------------------------
# Traversal helpers

def walk(n, ctx=()):
    """Pre-order walk over all nodes; yields (node, ctx) where ctx is the tuple of
    (ancestor, role) pairs from the root."""
    yield n, ctx
    for role, c in children(n):
        yield from walk(c, ctx + ((n, role),))

def find(n, pred):
    return [(x, c) for x, c in walk(n) if pred(x)]

def calls(n, callee_pred=None):
    """All Call / MethodCall nodes under n (with ctx) whose resolved callee satisfies pred."""
    out = []
    for x, c in walk(n):
        if x.get('k') in ('Call', 'MethodCall'):
            cal = callee_of(x)
            if callee_pred is None or (cal is not None and callee_pred(cal)):
                out.append((x, c))
    return out

def callee_of(x):
    """Most specific resolved callee path of a call node (impl item if resolvable)."""
    return x.get('inst') or x.get('callee')

def call_args(x):
    """Arguments including the receiver (receiver first) for both call forms."""
    if x.get('k') == 'MethodCall':
        return [x['recv']] + x['args']
    return x['args']

def loc(n):
    sp = n.get('sp')
    if not sp:
        return '?'
    return '%s:%d' % (sp[0], sp[1])

def macro_of(n):
    sp = n.get('sp')
    if sp and len(sp) > 5:
        return sp[5]
    return None


# ---------------------------------------------------------------------------------------
# Pretty printer (diagnostics / development aid)

def pp_pat(p):
    if p is None:
        return '_'
    k = p.get('k')
    if k == 'Bind':
        s = p['name'] + '#' + p['bind']
        if 'sub' in p:
            s += '@' + pp_pat(p['sub'])
        return s
    if k == 'Wild':
        return '_'
    if k == 'PTuple':
        return '(' + ', '.join(pp_pat(x) for x in p['pats']) + ')'
    if k == 'PTupleStruct':
        return p.get('def', p.get('text', '?')) + '(' + ', '.join(pp_pat(x) for x in p['pats']) + ')'
    if k == 'PStruct':
        return p.get('def', '?') + '{' + ', '.join(f['name'] + ':' + pp_pat(f['pat']) for f in p['fields']) + ('..' if p.get('rest') else '') + '}'
    if k == 'POr':
        return ' | '.join(pp_pat(x) for x in p['pats'])
    if k == 'PExpr':
        e = p['e']
        if e.get('k') == 'PLit':
            return repr(e.get('v'))
        return e.get('def', e.get('text', '?'))
    if k in ('PRef', 'PBox', 'PDeref'):
        return '&' + pp_pat(p['pat'])
    if k == 'PRange':
        return 'range'
    if k == 'PSlice':
        return '[' + ', '.join([pp_pat(x) for x in p.get('before') or []] + (['%s..' % pp_pat(p['mid'])] if p.get('mid') else []) + [pp_pat(x) for x in p.get('after') or []]) + ']'
    if k == 'PGuard':
        return pp_pat(p['pat']) + ' if ..'
    return k or '?'

def pp(n, ind=0, out=None):
    top = out is None
    if out is None:
        out = []
    pad = '  ' * ind
    if not is_node(n):
        out.append(pad + repr(n))
        return out
    k = n['k']
    head = pad + k
    for key in ('name', 'op', 'callee', 'inst', 'def', 'lit', 'v', 'src', 'label', 'bind', 'res'):
        if key in n and not is_node(n[key]) and not isinstance(n[key], list):
            head += ' %s=%s' % (key, n[key])
    if 'ty' in n and n['ty']:
        head += '  :: ' + n['ty'][:80]
    if n.get('sp'):
        head += '  @%d' % n['sp'][1]
        if len(n['sp']) > 5:
            head += ' <' + n['sp'][5] + '>'
    out.append(head)
    if k == 'Block':
        for s in n['stmts']:
            if s['k'] == 'Let':
                out.append(pad + '  let ' + pp_pat(s['pat']) + ' =')
                if s.get('init'):
                    pp(s['init'], ind + 2, out)
                if s.get('els'):
                    out.append(pad + '  else')
                    pp(s['els'], ind + 2, out)
            elif s['k'] in ('Expr', 'Semi'):
                pp(s['e'], ind + 1, out)
            else:
                out.append(pad + '  ' + s['k'])
        if n.get('expr'):
            out.append(pad + '  =>')
            pp(n['expr'], ind + 1, out)
        return out
    if k == 'Match':
        pp(n['scrut'], ind + 1, out)
        for a in n['arms']:
            out.append(pad + '  arm ' + pp_pat(a['pat']) + (' if' if a.get('guard') else ''))
            if a.get('guard'):
                pp(a['guard'], ind + 2, out)
            pp(a['body'], ind + 2, out)
        return out
    if k == 'Struct':
        for f in n['fields']:
            out.append(pad + '  .' + f['name'] + ' =')
            pp(f['e'], ind + 2, out)
        if 'base' in n:
            out.append(pad + '  ..base')
            pp(n['base'], ind + 2, out)
        return out
    if k in ('For',):
        out.append(pad + '  pat ' + pp_pat(n['pat']))
    if k == 'Closure':
        out.append(pad + '  params ' + ', '.join(pp_pat(p) for p in n['params']))
    if k == 'LetExpr':
        out.append(pad + '  pat ' + pp_pat(n['pat']))
    for role, c in children(n):
        pp(c, ind + 1, out)
    return out

if __name__ == '__main__':
    import glob
    f = Facts(sorted(glob.glob(sys.argv[1] + '/*.facts.json')))
    for p in sys.argv[2:]:
        for path, h in f.hir.items():
            if p in path:
                print('=====', path)
                print('params', [pp_pat(x) for x in h['params']])
                print('\n'.join(pp(h['body'])))


# ---------------------------------------------------------------------------------------
# HIR-level inlining of helper functions
#
# A rule that inspects the body of an anchored function must not depend on whether a maintainer has moved
# part of that body into a private helper.  `inlined(facts, rec, policy)` returns a copy of the body record
# in which every call of a workspace function selected by `policy(callee_path)` is replaced by a labelled
# block that binds the callee's parameters to the arguments and evaluates the callee's body; `return e`
# inside the callee becomes `break 'inlined e`, `e?` carries the block as its propagation target
# ('ret_target'), an awaited call of an async fn is replaced as a whole.  Binding ids, node ids and closure
# defs of each inlined instance get a unique suffix, so two instances never alias.  Recursion is cut off.

import copy as _copy

def _rename(n, suf, ret_target, in_closure=False):
    """Rename ids in a cloned callee body (in place)."""
    if isinstance(n, list):
        for x in n:
            _rename(x, suf, ret_target, in_closure)
        return
    if not isinstance(n, dict):
        return
    k = n.get('k')
    for key in ('id', 'bind', 'target'):
        v = n.get(key)
        if isinstance(v, str) and '@' not in v:
            n[key] = v + suf
    if k == 'Closure' and isinstance(n.get('def'), str) and '@' not in n['def']:
        n['def'] = n['def'] + suf
    if not in_closure:
        if k == 'Ret':
            n['k'] = 'Break'
            n['target'] = ret_target
            n['inlined_ret'] = True
        elif k == 'Try':
            n['ret_target'] = ret_target
    sub_closure = in_closure or k == 'Closure'
    for key, v in n.items():
        if key in ('sp',):
            continue
        if isinstance(v, (dict, list)):
            _rename(v, suf, ret_target, sub_closure)

def _rename_defined_in(trees, suf):
    """Give the bindings / node ids / closures *defined inside* the given subtrees a fresh suffix (uses of outer ones are kept)."""
    binds, ids, defs = set(), set(), set()
    def collect(n):
        if isinstance(n, list):
            for x in n:
                collect(x)
        elif isinstance(n, dict):
            if n.get('k') == 'Bind' and isinstance(n.get('bind'), str):
                binds.add(n['bind'])
            if isinstance(n.get('id'), str):
                ids.add(n['id'])
            if n.get('k') == 'Closure' and isinstance(n.get('def'), str):
                defs.add(n['def'])
            for key, v in n.items():
                if key != 'sp' and isinstance(v, (dict, list)):
                    collect(v)
    def apply(n):
        if isinstance(n, list):
            for x in n:
                apply(x)
        elif isinstance(n, dict):
            if n.get('bind') in binds:
                n['bind'] = n['bind'] + suf
            for key in ('id', 'target', 'ret_target'):
                if n.get(key) in ids:
                    n[key] = n[key] + suf
            if n.get('k') == 'Closure' and n.get('def') in defs:
                n['def'] = n['def'] + suf
            for key, v in n.items():
                if key != 'sp' and isinstance(v, (dict, list)):
                    apply(v)
    collect(trees)
    apply(trees)

_inline_counter = [0]

def inlined(facts, rec, policy, max_depth=4):
    """Copy of body record `rec` with calls selected by `policy` expanded in place (see above)."""
    rec2 = dict(rec)
    rec2['params'] = _copy.deepcopy(rec['params'])
    rec2['body'] = _inline_node(facts, _copy.deepcopy(rec['body']), policy, (rec['path'],), max_depth)
    rec2['inlined'] = True
    return rec2

def _callee_rec(facts, n, policy, stack):
    cal = callee_of(n)
    if cal is None or cal in stack or cal not in facts.hir or not policy(cal):
        return None, None
    return cal, facts.hir[cal]

def _expand(facts, call, cal, crec, policy, stack, depth, awaited):
    _inline_counter[0] += 1
    suf = '@i%d' % _inline_counter[0]
    body = _copy.deepcopy(crec['body'])
    params = _copy.deepcopy(crec['params'])
    if awaited:
        # async fn: the body record is the coroutine closure; its block is the function body
        if body.get('k') != 'Closure':
            return None
        body = body['body']
    elif body.get('k') == 'Closure' and 'async fn body' in (body.get('ty') or ''):
        # an async fn called without .await at this site: the call evaluates the arguments and moves them into the future, nothing
        # else; the body runs where the future is driven.  `helper(a, b)` is therefore `{ let p = a; let q = b; async move { body } }`
        # for every async fn (that is its desugaring): the parameters are bound here, the value of the block is the coroutine
        # closure of the helper (`return` / `?` inside it leave the coroutine, so they are not retargeted)
        blk_id = 'inl' + suf
        _rename(body, suf, blk_id)
        _rename(params, suf, blk_id, in_closure=True)
        args = call_args(call)
        if len(params) != len(args):
            return None
        stmts = [{'k': 'Let', 'pat': p, 'init': a, 'sp': call.get('sp'), 'inlined_param': True} for p, a in zip(params, args)]
        if depth > 0:
            body['body'] = _inline_node(facts, body['body'], policy, stack + (cal,), depth - 1)
        return {'k': 'Block', 'id': blk_id, 'sp': call.get('sp'), 'ty': body.get('ty'), 'stmts': stmts, 'expr': body,
                'inlined_from': cal, 'inlined_future': True, 'rules': None}
    blk_id = 'inl' + suf
    _rename(body, suf, blk_id)
    _rename(params, suf, blk_id, in_closure=True)
    args = call_args(call)
    stmts = []
    for p, a in zip(params, args):
        stmts.append({'k': 'Let', 'pat': p, 'init': a, 'sp': call.get('sp'), 'inlined_param': True})
    inner = _inline_node(facts, body, policy, stack + (cal,), depth - 1) if depth > 0 else body
    inner = _unroll_literal_for(inner, {p['bind']: a for p, a in zip(params, args) if p.get('k') == 'Bind' and 'sub' not in p})
    return {'k': 'Block', 'id': blk_id, 'sp': call.get('sp'), 'ty': inner.get('ty'), 'stmts': stmts, 'expr': inner,
            'label': blk_id, 'inlined_from': cal, 'rules': None}

def _peel_iter(e):
    while True:
        if e.get('k') == 'AddrOf':
            e = e['e']
        elif e.get('k') == 'Unary' and e.get('op') == 'Deref':
            e = e['e']
        elif e.get('k') == 'MethodCall' and e.get('name') in ('iter', 'into_iter', 'copied', 'cloned') and not e['args']:
            e = e['recv']
        else:
            return e

def _unroll_literal_for(n, param_args):
    """Inside an expanded helper: `for x in ids { body }` where `ids` is a parameter bound to an array literal at this call
    site (`release(&[a, b])`) is replaced by one copy of the body per element, in order.  Bodies containing break/continue
    of that loop are left alone."""
    if isinstance(n, list):
        return [_unroll_literal_for(x, param_args) for x in n]
    if not isinstance(n, dict):
        return n
    for key, v in list(n.items()):
        if key != 'sp' and isinstance(v, (dict, list)):
            n[key] = _unroll_literal_for(v, param_args)
    if n.get('k') == 'For':
        it = _peel_iter(n['iter'])
        if it.get('k') == 'Path' and it.get('res') == 'local' and it.get('bind') in param_args:
            arr = _peel_iter(param_args[it['bind']])
            if arr.get('k') == 'Array' and not any(x.get('k') in ('Break', 'Continue') and x.get('target') in (None, n.get('id')) for x, _c in walk(n['body'])):
                stmts = []
                for i, el in enumerate(arr['elems']):
                    _inline_counter[0] += 1
                    suf = '@u%d' % _inline_counter[0]
                    body = _copy.deepcopy(n['body'])
                    pat = _copy.deepcopy(n['pat'])
                    _rename_defined_in([pat, body], suf)
                    blk = {'k': 'Block', 'id': 'unr' + suf, 'sp': n.get('sp'), 'ty': '()', 'rules': None, 'expr': body,
                           'stmts': [{'k': 'Let', 'pat': pat, 'init': _copy.deepcopy(el), 'sp': n.get('sp'), 'inlined_param': True}]}
                    stmts.append({'k': 'Semi', 'e': blk})
                return {'k': 'Block', 'id': (n.get('id') or '') + 'u', 'sp': n.get('sp'), 'ty': '()', 'rules': None, 'stmts': stmts, 'expr': None, 'unrolled_for': True}
    return n

def _inline_node(facts, n, policy, stack, depth):
    if isinstance(n, list):
        return [_inline_node(facts, x, policy, stack, depth) for x in n]
    if not isinstance(n, dict):
        return n
    if n.get('k') == 'Await' and depth > 0 and isinstance(n.get('e'), dict) and n['e'].get('k') in ('Call', 'MethodCall'):
        # an awaited call of an async helper is expanded as a whole (the body runs here); only the call's own operands are visited
        # first, so that the call is not taken for a future handed on as a value (below)
        cal, crec = _callee_rec(facts, n['e'], policy, stack)
        if crec is not None and crec['body'].get('k') == 'Closure':
            call = n['e']
            for key, v in list(call.items()):
                if key != 'sp' and isinstance(v, (dict, list)):
                    call[key] = _inline_node(facts, v, policy, stack, depth)
            r = _expand(facts, call, cal, crec, policy, stack, depth, awaited=True)
            if r is not None:
                r['ty'] = n.get('ty')
                return r
            return n
    for key, v in list(n.items()):
        if key == 'sp':
            continue
        if isinstance(v, (dict, list)):
            n[key] = _inline_node(facts, v, policy, stack, depth)
    k = n.get('k')
    if depth <= 0:
        return n
    if k in ('Call', 'MethodCall'):
        cal, crec = _callee_rec(facts, n, policy, stack)
        if crec is not None:
            r = _expand(facts, n, cal, crec, policy, stack, depth, awaited=False)
            if r is not None:
                r['ty'] = n.get('ty')
                return r
    return n
