"""F7 generalised to threshold predicates: exact decision of a function of ONE integer variable whose every branch condition
is a comparison between a constant and the variable (possibly negated) shifted right by a constant.

Such a condition is piecewise constant in the variable and can only change truth value at finitely many *change points*
(c << s, ((c+1) << s) and their negations).  absx enumerates the paths of the function symbolically; here the path conditions are
evaluated at every change point and its neighbours (by substituting the literal and folding - nothing is executed).  Between two
consecutive change points all conditions, hence the path taken and the shape of its result, are constant; so agreement with a
reference function at all change points (the reference's own change points included) is agreement everywhere."""
import re
import absx

def subst(t, var, val):
    if t == var:
        return ('lit', val)
    if not isinstance(t, tuple) or not t:
        return t
    k = t[0]
    if k == 'bin':
        return absx.bin_term(t[1], subst(t[2], var, val), subst(t[3], var, val))
    if k == 'neg':
        x = subst(t[1], var, val)
        return ('lit', -x[1]) if x[0] == 'lit' and isinstance(x[1], int) else ('neg', x)
    if k == 'not':
        return absx.neg_term(subst(t[1], var, val))
    if k == 'bitnot':
        x = subst(t[1], var, val)
        return ('lit', ~x[1]) if x[0] == 'lit' and isinstance(x[1], int) else ('bitnot', x)
    if k == 'cast':
        x = subst(t[1], var, val)
        return x if x[0] == 'lit' else ('cast', x, t[2])
    if k == 'lit':
        return t
    return tuple(subst(x, var, val) if isinstance(x, tuple) else x for x in t)

def shifted_var_form(t, var):
    """t is var | neg(var) | cast(..) | (X >> lit) | (X << lit)?  -> returns cumulative right shift or None"""
    s = 0
    while True:
        if t == var:
            return s
        if t[0] in ('neg', 'bitnot') and t[1] == var:
            return s
        if t[0] == 'cast':
            t = t[1]; continue
        if t[0] == 'bin' and t[1] == 'Shr' and t[3][0] == 'lit' and isinstance(t[3][1], int):
            s += t[3][1]
            t = t[2]; continue
        return None

def atom_ok(a, var):
    """comparison of a shifted variable with a literal (either side)"""
    if a[0] == 'not':
        return atom_ok(a[1], var)
    if a[0] == 'bin' and a[1] in ('Eq', 'Ne', 'Lt', 'Le', 'Gt', 'Ge'):
        for x, y in ((a[2], a[3]), (a[3], a[2])):
            if y[0] == 'lit' and isinstance(y[1], int) and shifted_var_form(x, var) is not None:
                return True
    return False

def change_points(atoms, var, lo, hi, extra=()):
    pts = set(extra)
    for a in atoms:
        while a[0] == 'not':
            a = a[1]
        for x, y in ((a[2], a[3]), (a[3], a[2])):
            if y[0] == 'lit' and isinstance(y[1], int):
                s = shifted_var_form(x, var)
                if s is None:
                    continue
                for c in (y[1], y[1] + 1, y[1] - 1):
                    for v in (c << s, (c << s) - 1, (c << s) + 1, -(c << s), -(c << s) - 1, -(c << s) + 1):
                        pts.add(v)
    pts |= {lo, lo + 1, hi, hi - 1, 0, 1, -1}
    return sorted(p for p in pts if lo <= p <= hi)

def path_holds(o, var, v):
    """truth of the whole path condition at var = v; None if some atom does not fold to a literal"""
    for a, t in o.st.pc:
        r = subst(a, var, v)
        if r == ('lit', True) or r == ('lit', False):
            if r[1] != t:
                return False
        else:
            return None
    return True


# ---------------------------------------------------------------------------------------------------- step functions
# A *step function* of the variable is a term that is piecewise constant in it and can change value only at a change point of a
# threshold comparison inside it or at a power of two: comparisons of the shifted variable with constants; ilog2 / checked_ilog2 /
# leading_zeros of the shifted variable (floor(log2 (x >> s)) changes exactly where x reaches a power of two); and any arithmetic,
# cast, comparison or Option test over step functions and constants (a function of piecewise constant arguments is piecewise constant
# with no new change points).  Sizing code - "how many octets will the length / the identifier take" - is of this kind, however it
# is spelled: `if n < 128 {..}`, `n.ilog2() / 8 + 1`, `(usize::BITS - n.leading_zeros() + 7) / 8`, a shift-and-count loop unrolled.

STEP_CALLS = ('ilog2', 'checked_ilog2', 'leading_zeros')
CMP = ('Eq', 'Ne', 'Lt', 'Le', 'Gt', 'Ge')
POW2 = sorted({x for k in range(0, 65) for x in ((1 << k) - 1, 1 << k, (1 << k) + 1)})

class Panics(Exception):
    """the folded term panics at this value (ilog2 of zero, division by zero)"""

def int_call(t):
    """(function name, integer type) of a call term of one of core's inherent integer functions of one argument"""
    if t[0] == 'call' and t[1].startswith('core::num::<impl ') and len(t[2]) == 1:
        return t[1].rsplit('::', 1)[-1], t[1][len('core::num::<impl '):].split('>')[0]
    return None

def mentions(t, var):
    if t == var:
        return True
    return isinstance(t, tuple) and any(mentions(x, var) for x in t if isinstance(x, tuple))

def pure_shift(t, var):
    """t is the variable itself, converted between integer types and / or shifted right by constants"""
    while True:
        if t == var:
            return True
        if t[0] == 'cast':
            t = t[1]; continue
        if t[0] == 'bin' and t[1] == 'Shr' and t[3][0] == 'lit' and isinstance(t[3][1], int):
            t = t[2]; continue
        return False

def range_atom(t):
    """(x, lo, hi) of the test `x matches the range pattern lo..=hi` with integer bounds (None: open end); None for other terms"""
    if t[0] == 'matches' and isinstance(t[2], str):
        m = re.match(r'range (-?\d+|None)\.\.=(-?\d+|None)$', t[2])
        if m:
            return t[1], (None if m.group(1) == 'None' else int(m.group(1))), (None if m.group(2) == 'None' else int(m.group(2)))
    return None

def range_as_comparisons(t):
    """the comparisons with constants a range test amounts to"""
    x, lo, hi = range_atom(t)
    return [('bin', 'Ge', x, ('lit', lo))] * (lo is not None) + [('bin', 'Le', x, ('lit', hi))] * (hi is not None)

def fold(t, var, val):
    """The term with the variable replaced by the integer `val`, folded exactly: arithmetic of the integers (bin_term), `as` casts
    modulo the width of the target type, ilog2 / checked_ilog2 / leading_zeros of a known number, Option tests and payloads of a
    known constructor.  Raises Panics where the analysed code would panic whatever the build profile."""
    if t == var:
        return ('lit', val)
    if not isinstance(t, tuple) or not t:
        return t
    k = t[0]
    if k == 'lit':
        return t
    if k == 'bin':
        a, b = fold(t[2], var, val), fold(t[3], var, val)
        if t[1] in ('Div', 'Rem') and b[0] == 'lit' and b[1] == 0 and not isinstance(b[1], bool):
            raise Panics('division by zero')
        return absx.bin_term(t[1], a, b)
    if k == 'cast':
        x = fold(t[1], var, val)
        rng = absx.INT_RANGE.get(str(t[2] or '').replace('&', '').strip())
        if x[0] == 'lit' and isinstance(x[1], int) and rng is not None:
            return ('lit', (int(x[1]) - rng[0]) % (rng[1] - rng[0] + 1) + rng[0])
        return ('cast', x, t[2])
    if k == 'not':
        return absx.neg_term(fold(t[1], var, val))
    if k in ('neg', 'bitnot'):
        x = fold(t[1], var, val)
        if x[0] == 'lit' and isinstance(x[1], int):
            return ('lit', -x[1] if k == 'neg' else ~x[1])
        return (k, x)
    if k == 'call':
        args = tuple(fold(x, var, val) for x in t[2])
        ic = int_call(t)
        if ic is not None and ic[0] in STEP_CALLS and args[0][0] == 'lit' and isinstance(args[0][1], int) and not isinstance(args[0][1], bool):
            x = args[0][1]
            if ic[0] == 'leading_zeros':
                rng = absx.INT_RANGE.get(ic[1])
                if rng is not None:
                    bits = (rng[1] - rng[0] + 1).bit_length() - 1
                    return ('lit', bits - (x & ((1 << bits) - 1)).bit_length())
            else:
                r = absx.int_log2(x)
                if ic[0] == 'checked_ilog2':
                    return ('ctor', 'Some', (('lit', r),)) if r is not None else ('ctor', 'None', ())
                if r is None:
                    raise Panics('ilog2 of %d' % x)
                return ('lit', r)
        return ('call', t[1], args) + tuple(t[3:])
    if k == 'is':
        x = fold(t[1], var, val)
        if x[0] == 'ctor':
            return ('lit', x[1] == t[2])
        return ('is', x) + tuple(t[2:])
    if k == 'variant':
        x = fold(t[1], var, val)
        if x[0] == 'ctor' and x[1] == t[2] and isinstance(t[3], int) and t[3] < len(x[2]):
            return x[2][t[3]]
        return ('variant', x) + tuple(t[2:])
    if k == 'matches' and range_atom(t) is not None:
        _, lo, hi = range_atom(t)
        x = fold(t[1], var, val)
        if x[0] == 'lit' and isinstance(x[1], int) and not isinstance(x[1], bool):
            return ('lit', (lo is None or lo <= x[1]) and (hi is None or x[1] <= hi))
        return ('matches', x, t[2])
    return tuple(fold(x, var, val) if isinstance(x, tuple) else x for x in t)

def step_ok(t, var):
    """t is a step function of var (see above); a term that does not mention var must be a constant"""
    if not mentions(t, var):
        try:
            return fold(t, var, 0)[0] == 'lit'
        except Panics:
            return False
    if t == var:
        return False
    k = t[0]
    if k == 'bin':
        if t[1] in CMP and atom_ok(t, var):
            return True
        return step_ok(t[2], var) and step_ok(t[3], var)
    if k in ('cast', 'not', 'neg', 'bitnot', 'is', 'variant'):
        return step_ok(t[1], var)
    if k == 'call':
        ic = int_call(t)
        return ic is not None and ic[0] in STEP_CALLS and (pure_shift(t[2][0], var) or step_ok(t[2][0], var))
    if k == 'ctor':
        return all(step_ok(x, var) for x in t[2])
    if k == 'matches' and range_atom(t) is not None:
        return all(atom_ok(c, var) for c in range_as_comparisons(t)) or step_ok(t[1], var)
    return False

def step_points(terms, var, lo, hi, extra=()):
    """every point at which one of the step functions `terms` of var can change value, with its neighbours"""
    atoms = []
    def rec(t):
        if not isinstance(t, tuple) or not t:
            return
        if t[0] == 'bin' and t[1] in CMP and atom_ok(t, var):
            atoms.append(t)
            return
        if t[0] == 'matches' and range_atom(t) is not None:
            atoms.extend(c for c in range_as_comparisons(t) if atom_ok(c, var))
        for x in t:
            if isinstance(x, tuple):
                rec(x)
    for t in terms:
        rec(t)
    return change_points(atoms, var, lo, hi, extra=list(extra) + POW2)
