"""F7 generalised to threshold predicates: exact decision of a function of ONE integer variable whose every branch condition
is a comparison between a constant and the variable (possibly negated) shifted right by a constant.

Such a condition is piecewise constant in the variable and can only change truth value at finitely many *change points*
(c << s, ((c+1) << s) and their negations).  absx enumerates the paths of the function symbolically; here the path conditions are
evaluated at every change point and its neighbours (by substituting the literal and folding - nothing is executed).  Between two
consecutive change points all conditions, hence the path taken and the shape of its result, are constant; so agreement with a
reference function at all change points (the reference's own change points included) is agreement everywhere."""
import absx

def subst(t, var, val):
    if t == var:
        return ('lit', val)
    if not isinstance(t, tuple) or not t:
        return t
    k = t[0]
    if k == 'bin':
        return absx.bin_term(t[1], subst(t[2], var, val), subst(t[3], var, val))
    if k == 'neg':
        x = subst(t[1], var, val)
        return ('lit', -x[1]) if x[0] == 'lit' and isinstance(x[1], int) else ('neg', x)
    if k == 'not':
        return absx.neg_term(subst(t[1], var, val))
    if k == 'bitnot':
        x = subst(t[1], var, val)
        return ('lit', ~x[1]) if x[0] == 'lit' and isinstance(x[1], int) else ('bitnot', x)
    if k == 'cast':
        x = subst(t[1], var, val)
        return x if x[0] == 'lit' else ('cast', x, t[2])
    if k == 'lit':
        return t
    return tuple(subst(x, var, val) if isinstance(x, tuple) else x for x in t)

def shifted_var_form(t, var):
    """t is var | neg(var) | cast(..) | (X >> lit) | (X << lit)?  -> returns cumulative right shift or None"""
    s = 0
    while True:
        if t == var:
            return s
        if t[0] in ('neg', 'bitnot') and t[1] == var:
            return s
        if t[0] == 'cast':
            t = t[1]; continue
        if t[0] == 'bin' and t[1] == 'Shr' and t[3][0] == 'lit' and isinstance(t[3][1], int):
            s += t[3][1]
            t = t[2]; continue
        return None

def atom_ok(a, var):
    """comparison of a shifted variable with a literal (either side)"""
    if a[0] == 'not':
        return atom_ok(a[1], var)
    if a[0] == 'bin' and a[1] in ('Eq', 'Ne', 'Lt', 'Le', 'Gt', 'Ge'):
        for x, y in ((a[2], a[3]), (a[3], a[2])):
            if y[0] == 'lit' and isinstance(y[1], int) and shifted_var_form(x, var) is not None:
                return True
    return False

def change_points(atoms, var, lo, hi, extra=()):
    pts = set(extra)
    for a in atoms:
        while a[0] == 'not':
            a = a[1]
        for x, y in ((a[2], a[3]), (a[3], a[2])):
            if y[0] == 'lit' and isinstance(y[1], int):
                s = shifted_var_form(x, var)
                if s is None:
                    continue
                for c in (y[1], y[1] + 1, y[1] - 1):
                    for v in (c << s, (c << s) - 1, (c << s) + 1, -(c << s), -(c << s) - 1, -(c << s) + 1):
                        pts.add(v)
    pts |= {lo, lo + 1, hi, hi - 1, 0, 1, -1}
    return sorted(p for p in pts if lo <= p <= hi)

def path_holds(o, var, v):
    """truth of the whole path condition at var = v; None if some atom does not fold to a literal"""
    for a, t in o.st.pc:
        r = subst(a, var, v)
        if r == ('lit', True) or r == ('lit', False):
            if r[1] != t:
                return False
        else:
            return None
    return True
