"""A map all of whose keys are known, as an association list (a value domain for exact literal evaluation with absx).

`summary` is an absx summary (pass it in `summaries=[assocmap.summary]`).  A map created on the evaluated path by `new` /
`with_capacity` / `default` is the term ('assocmap', n); the heap holds, under ('assoc', n), the tuple of its keys in insertion
order - or None once something without a model has touched the map (*poisoned*: `contents` answers None and a rule that needs
the content fails closed) - and the value of key k in the cell ('cell', ('assoc', n, k)) (see absx.vec_read: a reference to a value
of the map is that cell term, so a Vec method on `map.get_mut(k).unwrap()` / `map.entry(k).or_default()`, directly or through a
`&mut` local, reads and writes the value in the map).

Keys are literals (strings, octet strings, integers; `&k`, `k.clone()`, `to_owned` ... are transparent in the term domain): equal
literals are equal keys, different literals different keys - which is what Eq + Hash / Ord of those types say.  A call with a key
that is not a literal has no model and poisons the map.

One model per std function (HashMap and BTreeMap alike; each is the function's documented behaviour for every map and key):
  insert(k, v)             the map holds v under k afterwards; returns Some(the value k had) / None if it had none
  get(k)                   Some(the value under k) / None;      get_mut(k)   Some(a reference to it) / None
  contains_key(k)          whether k has a value;                len() / is_empty()   the number of keys / whether there is none
  remove(k)                Some(the value k had), k has none afterwards / None
  entry(k)                 the entry of k; on it:
    or_insert(v) / or_insert_with(f) / or_default()   if k has no value it gets v / f() / Default::default() (f is not called otherwise);
                                                      a reference to the value under k
    and_modify(f)          f(&mut value) if k has one; the entry again
Anything else that is handed the map, an entry of it or a reference into it poisons the map.
"""
import absx, hirq

MAPS = ('std::collections::hash::map::HashMap::<', 'alloc::collections::btree::map::BTreeMap::<')
ENTRIES = ('std::collections::hash::map::Entry::<', 'alloc::collections::btree::map::entry::Entry::<', 'alloc::collections::btree::map::Entry::<')
DEFAULTS = ('<std::collections::hash::map::HashMap<K, V, S> as core::default::Default>::default', '<alloc::collections::btree::map::BTreeMap<K, V> as core::default::Default>::default',
            '<alloc::collections::btree::map::BTreeMap<K, V, A> as core::default::Default>::default')
# `&self` / by-value conversions after which a reference to a cell still names the cell
REBORROWS = ('as_mut', 'borrow_mut', 'deref_mut', 'into', 'from')

def is_map(t):
    return isinstance(t, tuple) and len(t) == 2 and t[0] == 'assocmap'

def key_of(t):
    """the literal a key term denotes, or None"""
    return t if t[0] == 'lit' and isinstance(t[1], (str, bytes, int)) and not isinstance(t[1], bool) else None

def cell(m, k):
    return ('cell', ('assoc', m[1], k))

def keys(st, m):
    return st.heap.get(('assoc', m[1]))

def contents(st, m):
    """[(key term, value term)] of the map term m in state st, in insertion order; None if m is not a tracked map or was poisoned"""
    if not is_map(m):
        return None
    ks = keys(st, m)
    if ks is None:
        return None
    return [(k, st.heap.get(cell(m, k), ('unk', 'cell'))) for k in ks]

def mentioned(t, acc):
    """the numbers of the tracked maps a term mentions: as the map, an entry of it, or a reference into it"""
    if not isinstance(t, tuple) or not t:
        return acc
    if t[0] == 'assocmap' and len(t) == 2:
        acc.add(t[1]); return acc
    if t[0] == 'cell' and len(t) == 2 and isinstance(t[1], tuple) and t[1] and t[1][0] == 'assoc':
        acc.add(t[1][1]); return acc
    if t[0] == 'mapentry':
        acc.add(t[1][1]); return acc
    if isinstance(t[0], str) and t[0] in ('lit', 'fn', 'closure', 'const', 'param'):
        return acc
    for x in t:
        if isinstance(x, tuple):
            mentioned(x, acc)
    return acc

def poison(st, ns, why, node):
    for n in sorted(ns):
        st = st.store(('assoc', n), None).event(('map-poisoned', n, why, node))
    return st

def summary(I, cal, args, node, st):
    name = cal.rsplit('::', 1)[-1]
    Out = absx.Out
    if (cal.startswith(MAPS) and name in ('new', 'with_capacity') and not any(is_map(a) for a in args)) or cal in DEFAULTS:
        t, s2 = st.fresh('assocmap')
        m = ('assocmap', t[2])
        return [Out('val', m, s2.store(('assoc', m[1]), ()))]
    if cal.startswith(MAPS) and args and is_map(args[0]) and keys(st, args[0]) is not None:
        m, ks = args[0], keys(st, args[0])
        k = key_of(args[1]) if len(args) >= 2 else None
        some = lambda v: ('ctor', 'Some', (v,))
        NONE = ('ctor', 'None', ())
        if name in ('len', 'is_empty') and len(args) == 1:
            return [Out('val', ('lit', len(ks) if name == 'len' else not ks), st)]
        if k is not None and len(args) == 2 and name in ('get', 'get_mut', 'contains_key', 'remove', 'entry'):
            has = k in ks
            if name == 'contains_key':
                return [Out('val', ('lit', has), st)]
            if name == 'get':
                return [Out('val', some(st.heap[cell(m, k)]) if has else NONE, st)]
            if name == 'get_mut':
                return [Out('val', some(cell(m, k)) if has else NONE, st)]
            if name == 'entry':
                return [Out('val', ('mapentry', m, k), st)]
            if not has:
                return [Out('val', NONE, st)]
            old = st.heap[cell(m, k)]
            s2 = st.store(('assoc', m[1]), tuple(x for x in ks if x != k)).store(cell(m, k), ('unk', 'removed')).event(('call', cal, tuple(args), node))
            return [Out('val', some(old), s2)]
        if k is not None and len(args) == 3 and name == 'insert':
            old = some(st.heap[cell(m, k)]) if k in ks else NONE
            s2 = st.store(cell(m, k), args[2])
            if k not in ks:
                s2 = s2.store(('assoc', m[1]), ks + (k,))
            return [Out('val', old, s2.event(('call', cal, tuple(args), node)))]
    if cal.startswith(ENTRIES) and args and args[0][0] == 'mapentry' and keys(st, args[0][1]) is not None:
        _e, m, k = args[0]
        ks = keys(st, m)
        if name in ('or_insert', 'or_insert_with', 'or_default') and len(args) == (1 if name == 'or_default' else 2):
            if k in ks:
                return [Out('val', cell(m, k), st)]
            if name == 'or_insert':
                inits = [Out('val', args[1], st)]
            elif name == 'or_insert_with':
                inits = I.apply(args[1], [], node, st)
            else:
                # the value type: the referent of the `&mut V` the method returns
                inits = [Out('val', absx.default_value(hirq.strip_refs(node.get('ty') or '')), st)]
            outs = []
            for o in inits:
                if o.kind != 'val':
                    outs.append(o); continue
                ks2 = keys(o.st, m)
                if ks2 is None:
                    outs.append(Out('val', ('unk', 'value of a poisoned map'), o.st)); continue
                s2 = o.st.store(cell(m, k), o.val).store(('assoc', m[1]), ks2 + (k,)).event(('call', cal, tuple(args), node))
                outs.append(Out('val', cell(m, k), s2))
            return outs
        if name == 'and_modify' and len(args) == 2 and args[1][0] in ('closure', 'fn'):
            if k not in ks:
                return [Out('val', args[0], st)]
            return [Out('val', args[0], o.st) if o.kind == 'val' else o for o in I.apply(args[1], [cell(m, k)], node, st)]
    # a reference into a tracked map handed to a conversion that is transparent in the term domain: a re-borrow is the reference
    # still, anything else (clone, iter, to_vec, as_slice ...) reads what the cell holds now
    if len(args) == 1 and args[0][0] == 'cell' and args[0] in st.heap and mentioned(args[0], set()) and hirq.is_transparent(cal):
        if name in REBORROWS:
            return [Out('val', args[0], st)]
        src = node.get('recv') if node.get('k') == 'MethodCall' else (node.get('args') or [None])[0]
        if not (name in ('into_iter', 'iter_mut') and str((src or {}).get('adj_ty') or (src or {}).get('ty') or '').startswith('&mut ')):
            return [Out('val', st.heap[args[0]], st)]
        # (an iterator of `&mut` items over the value: what is done through the items would not reach the map - no model)
    ns = set()
    for a in args:
        mentioned(a, ns)
    ns = {n for n in ns if st.heap.get(('assoc', n)) is not None}
    direct = any(is_map(a) or a[0] == 'mapentry' or a[0] == 'cell' for a in args if isinstance(a, tuple) and a)
    if ns and not direct:
        # a function the interpreter has a model of (Option / Result combinators, iterator adaptors: closures they are given are
        # evaluated by the interpreter) or evaluates itself (an inlined workspace function) does to the map what that evaluation shows
        # (handed on inside another value - Some(reference), a tuple -, not the map / entry / reference itself)
        r = absx.builtin_summary(I, cal, args, node, st)
        if r is not None:
            return r
    if ns:
        if I.inline(cal):
            return None
        # no model: whatever this call does to the map(s) it is handed is not known
        s2 = poison(st, ns, cal, node)
        return [Out('val', ('call', cal, tuple(args), node.get('id')), s2.event(('call', cal, tuple(args), node)))]
    return None
