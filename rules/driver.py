"""Path enumeration of the driver loop's select! arms (shared by the properties anchored in conn.rs).

An arm is evaluated by the abstract interpreter with its binding as the symbolic value ARM; the driver struct is SELF.
Helpers introduced by a refactor are already expanded (facts.py), logging is skipped (absx), so a rule written over these
paths sees what the arm does, not how it is spelled."""
import absx, hirq, sem, anchors
from facts import walk

ARM = ('param', 'ARM')
SELF = ('param', 'self')

def _is_self_unbound(t):
    return t[0] == 'unbound' and len(t) > 2 and t[2] == 'self'

def norm_self(t):
    """`self` captured by the coroutine shows up unbound inside an arm: name it."""
    if isinstance(t, tuple):
        if t and _is_self_unbound(t):
            return SELF
        return tuple(norm_self(x) for x in t)
    return t

_establishing = []

def idset_member_range(C):
    """The invariant of the in-use set's members that C05's allocator rules establish (every member is in 1..=i32::MAX: see
    props/C05.py, J), as the interpreter's `member_range` hook - so that every rule reading an arm's paths sees a `retain` on the
    set as the removals it amounts to, also when its predicate tests magnitudes (`|&x| x != id && x > 0` releases `id` and nothing
    else).  Asked for only when the loop has such a retain; None when C05's obligations for J do not all hold (nothing is assumed
    then).  Computed once per Conn."""
    if not hasattr(C, '_idset_range'):
        C._idset_range = None
        from facts import callee_of
        if not _establishing and any(n['k'] == 'MethodCall' and (callee_of(n) or '').endswith('::retain') and C.is_idset_place(n['recv']) for n, _c in walk(C.loop.root)):
            import importlib, engine
            _establishing.append(C)
            try:
                sub = engine.Ctx('C05', C.facts, None)
                importlib.import_module('props.C05').run(sub)
                C._idset_range = getattr(sub, 'idset_member_range', None)
            except Exception:
                C._idset_range = None       # J not established: nothing is assumed about the members (a magnitude test stays undecided)
            finally:
                _establishing.pop()
    rng = C._idset_range
    if rng is None:
        return None
    return lambda node: rng if node.get('k') == 'MethodCall' and C.is_idset_place(node['recv']) else None

def arm_paths(C, role, field_hook=None, locals_=None, **kw):
    """The enumerated paths of the select! arm `role`.  `locals_` ({binding id: term}) gives locals of the enclosing function that
    are declared outside the arm the value they are to have when the arm is entered (a flag the loop carries: a rule evaluates the
    arm from each value it argues about); without it such a local reads as ('unbound', binding, name)."""
    f = C.facts
    L = C.loop
    arm = C.arms[role]
    if 'member_range' not in kw:
        kw['member_range'] = idset_member_range(C)
    I = absx.Interp(f, L, field_hook=field_hook, result_combinators=True, **kw)
    env = I.param_env()
    # the coroutine rebinding `let self = self;`
    for b, d in L.defs.items():
        if d['kind'] == 'let' and d.get('src') is not None and d['src'].get('k') == 'Path' and d['src'].get('res') == 'local' and d['src']['bind'] in env and not d['proj']:
            env[b] = env[d['src']['bind']]
    env.update(locals_ or {})
    st = absx.St(env)
    outs = []
    for kind, s2 in I.match(arm['pat'], ARM, st):
        if kind != 'no':
            outs += I.ev(arm['body'], s2)
    return outs, I

def map_calls(C, o, which, names=None):
    """(index, method name, args, node) of the calls on a routing map ('result' / 'search') or the in-use set ('idset')."""
    out = []
    for i, cal, args, node in sem.calls(o, lambda c: True):
        if node.get('k') != 'MethodCall':
            continue
        r = node['recv']
        hit = C.is_idset_place(r) if which == 'idset' else C.is_map_place(r, which)
        name = cal.rsplit('::', 1)[-1]      # the event's method: a `retain` is recorded as the removals it amounts to (absx)
        if hit and (names is None or name in names):
            out.append((i, name, args, node))
    return out

def sends(o, sender_ty):
    return [(i, args, node) for i, cal, args, node in sem.calls(o, lambda c: c.rsplit('::', 1)[-1] == 'send') if sem.recv_ty(node) == sender_ty]


# the response arm's binding is Option<Result<(id, (protocolOp, controls)), io::Error>>: the decoded message and its ID
MSG = ('variant', ('variant', ARM, 'Some', 0), 'Ok', 0)
DECODED_ID = ('field', MSG, '0')
LOOKUPS = ('get', 'get_mut', 'remove', 'remove_entry')

def routing_lookups(C, o, key=None):
    """The lookups a path makes in the routing maps (under `key`, when given), in event order:
    [(event index, 'result' | 'search', method name, the call's term, found)] - found is what the path condition says about the
    answer being Some: True (an entry was there: its sender is the payload), False, or None when the path never tested it."""
    out = []
    for which in ('result', 'search'):
        for i, name, args, node in map_calls(C, o, which, LOOKUPS):
            if len(args) < 2 or (key is not None and args[1] != key):
                continue
            term = ('call', o.st.ev[i][1], tuple(args), node.get('id'))
            out.append((i, which, name, term, absx.pc_variant(o.st.pc, lambda t, term=term: t == term, 'Some')))
    return sorted(out, key=lambda x: x[0])

def found_before(C, o, i, key, which=None):
    """Some lookup under `key` (in the map `which`, when given) made before event i of the path found an entry: from there on the
    path runs under "an operation is registered under this ID" - however the code that follows is nested (inside the `Some` arm,
    or after a `match` / `let .. else` whose `None` alternative left the arm)."""
    return any(j < i and fnd is True and (which is None or w == which) for j, w, _n, _t, fnd in routing_lookups(C, o, key))

def replies_to_registered(C, o, key, which, taken_out=False):
    """[(event index, node)] of the reply sends of a path that go to the operation registered under `key` in the map `which`: the
    receiver of the send is the very sender a lookup under that key found (with taken_out: found and removed)."""
    T = anchors.T_RESULT_SENDER if which == 'result' else anchors.T_ITEM_SENDER
    hits = []
    for i, args, node in sends(o, T):
        for j, w, name, term, fnd in routing_lookups(C, o, key):
            if j < i and w == which and fnd is True and args[0] == ('variant', term, 'Some', 0) and (not taken_out or name == 'remove'):
                hits.append((i, node))
                break
    return hits


def net_registration(C, o, which, key):
    """What a path of an arm does, in sum, to the routing entry of `key` in the map `which` ('result' / 'search'), given that the
    entry existed when the path began: 'kept' (never removed, or taken out and put back - the same sender under the same key),
    'dropped' (removed and not put back), 'replaced' (something else was stored under the key)."""
    state, taken = 'kept', []
    for i, name, args, node in map_calls(C, o, which):
        k = args[1] if len(args) > 1 else None
        if name in ('remove', 'remove_entry') and k == key:
            state = 'dropped'
            taken.append(('call', [e for e in o.st.ev if e[0] == 'call' and e[3] is node][0][1], tuple(args), node.get('id')))
        elif name == 'insert' and k == key:
            v = args[2] if len(args) > 2 else None
            same = any(v == ('variant', t, 'Some', 0) or (v is not None and sem.has(v, lambda x, t=t: x == ('variant', t, 'Some', 0)) and v[0] == 'call' and v[1].endswith('::clone')) for t in taken)
            state = 'kept' if (same and state == 'dropped') else 'replaced'
        elif name in ('clear', 'drain', 'retain'):
            state = 'dropped'
    return state


def never_taken(L, I, node):
    """The analysis shows that `node` (a site of the loop body L that lies on no enumerated path of its arm) sits in a branch that
    is taken on no path: some enclosing `if` / `match` was evaluated by the interpreter I - on every path that reaches it - without
    ever entering the branch the node is in.  The interpreter skips a branch only when the test is decided (a literal, a pattern
    that cannot match the constructor at hand - `if let Some(x) = None` -, an atom the path condition already fixes); whatever it
    cannot decide it forks on.  So this is "dead on every path", not "not looked at": when no enclosing construct was evaluated at
    all (code behind a loop bound, behind a panic) the answer is False and the caller fails closed."""
    for anc, role in reversed(L.context(node)):
        br = None
        if anc['k'] == 'If' and role in ('then', 'els'):
            br = anc.get(role)
        elif anc['k'] == 'Match' and isinstance(role, tuple) and role[0] == 'arms' and role[-1] == 'body':
            br = anc['arms'][role[1]]['body']
        if br is not None and id(anc) in I.visited:
            return id(br) not in I.visited
    return False
