"""Path enumeration of the driver loop's select! arms (shared by the properties anchored in conn.rs).

An arm is evaluated by the abstract interpreter with its binding as the symbolic value ARM; the driver struct is SELF.
Helpers introduced by a refactor are already expanded (facts.py), logging is skipped (absx), so a rule written over these
paths sees what the arm does, not how it is spelled."""
import absx, hirq, sem, anchors
from facts import walk, callee_of

ARM = ('param', 'ARM')
SELF = ('param', 'self')

def _is_self_unbound(t):
    return t[0] == 'unbound' and len(t) > 2 and t[2] == 'self'

def norm_self(t):
    """`self` captured by the coroutine shows up unbound inside an arm: name it."""
    if isinstance(t, tuple):
        if t and _is_self_unbound(t):
            return SELF
        return tuple(norm_self(x) for x in t)
    return t

_establishing = []

def idset_member_range(C):
    """The invariant of the in-use set's members that C05's allocator rules establish (every member is in 1..=i32::MAX: see
    props/C05.py, J), as the interpreter's `member_range` hook - so that every rule reading an arm's paths sees a `retain` on the
    set as the removals it amounts to, also when its predicate tests magnitudes (`|&x| x != id && x > 0` releases `id` and nothing
    else).  Asked for only when the loop has such a retain; None when C05's obligations for J do not all hold (nothing is assumed
    then).  Computed once per Conn."""
    if not hasattr(C, '_idset_range'):
        C._idset_range = None
        from facts import callee_of
        if not _establishing and any(n['k'] == 'MethodCall' and (callee_of(n) or '').endswith('::retain') and C.is_idset_place(n['recv']) for n, _c in walk(C.loop.root)):
            import importlib, engine
            _establishing.append(C)
            try:
                sub = engine.Ctx('C05', C.facts, None)
                importlib.import_module('props.C05').run(sub)
                C._idset_range = getattr(sub, 'idset_member_range', None)
            except Exception:
                C._idset_range = None       # J not established: nothing is assumed about the members (a magnitude test stays undecided)
            finally:
                _establishing.pop()
    rng = C._idset_range
    if rng is None:
        return None
    return lambda node: rng if node.get('k') == 'MethodCall' and C.is_idset_place(node['recv']) else None

def arm_paths(C, role, field_hook=None, locals_=None, answer=None, **kw):
    """The enumerated paths of the select! arm `role`.  `locals_` ({binding id: term}) gives locals of the enclosing function that
    are declared outside the arm the value they are to have when the arm is entered (a flag the loop carries: a rule evaluates the
    arm from each value it argues about); without it such a local reads as ('unbound', binding, name).  `answer` fixes what the
    arm's future completed with (a constructor term such as None or Some(Err(e))) instead of the symbolic value ARM: the arm's
    pattern and every test of the handler on it are then decided."""
    f = C.facts
    L = C.loop
    arm = C.arms[role] if isinstance(role, str) else role
    if 'member_range' not in kw:
        kw['member_range'] = idset_member_range(C)
    I = absx.Interp(f, L, field_hook=field_hook, result_combinators=True, **kw)
    env = I.param_env()
    # the coroutine rebinding `let self = self;`
    for b, d in L.defs.items():
        if d['kind'] == 'let' and d.get('src') is not None and d['src'].get('k') == 'Path' and d['src'].get('res') == 'local' and d['src']['bind'] in env and not d['proj']:
            env[b] = env[d['src']['bind']]
    env.update(locals_ or {})
    st = absx.St(env)
    outs = []
    for kind, s2 in I.match(arm['pat'], ARM if answer is None else answer, st):
        if kind != 'no':
            outs += I.ev(arm['body'], s2)
    return outs, I


# ---------------------------------------------------------------------------------------------------------------------------
# What tokio::select! does with the value a branch's future completes with.  The macro's expansion is in the typed HIR of the
# loop body: a poll closure with one piece of code per branch -
#     if disabled & mask == mask { continue }                 (the branch is switched off for this call of select!)
#     let out = match Future::poll(fut, cx) { Ready(out) => out, Pending => { is_pending = true; continue } };
#     disabled |= mask;
#     match &out { <the branch's pattern> => {}, _ => continue }
#     return Ready(Out::_n(out));
# - and, after the poll loop, `if is_pending { Pending } else { Ready(Out::Disabled) }`; outside the closure
#     match output { Out::_n(<pattern>) => <handler>, .., Out::Disabled => <else branch, or a panic when there is none> }.
# So a value that the branch's pattern does not match never reaches a handler: the branch is only switched off for this call, the
# other branches go on being polled, and `else` runs only when every branch is switched off in the same call.  Nothing of this is
# assumed here: the branch's piece of the poll closure is *interpreted* with the answer of `Future::poll` fixed to Ready(<value>),
# and what comes out - `return Ready(Out::_n(value))` or `continue` - is read off the enumerated paths.
POLL = 'core::future::future::Future::poll'
NONE = ('ctor', 'None', ())

def main_loop(C):
    """the `loop` that holds the select! of the driver"""
    m = C.arms['request']['match']
    for n, c in walk(C.loop.root):
        if n['k'] == 'Loop' and any(x is m for x, _ in walk(n)):
            return n
    return None

def _arm(C, role):
    return C.arms[role] if isinstance(role, str) else role

def branch_code(C, role):
    """The code of the poll closure that polls the branch `role` and decides what becomes of its answer: the one match arm of the
    expansion that builds `Out::_n` for this branch's n and for no other (by what it constructs, not by the names the macro uses)."""
    from facts import AnchorMissing
    k = _arm(C, role)['index']
    def builds(e):
        out = set()
        for n, c in walk(e):
            if n['k'] == 'Call':
                cal = callee_of(n) or ''
                if '__tokio_select_util::Out::_' in cal:
                    out.add(cal.rsplit('_', 1)[1])
        return out
    cands = []
    def rec(n):
        if isinstance(n, dict):
            if n.get('k') == 'Match':
                for a in n['arms']:
                    if builds(a['body']) == {str(k)}:
                        cands.append(a['body'])
                        return      # the outermost arm that is about this branch alone
            for v in n.values():
                rec(v)
        elif isinstance(n, list):
            for v in n:
                rec(v)
    rec(C.loop.root)
    if len(cands) != 1:
        raise AnchorMissing('select! expansion: the poll code of branch %d was not found (%d candidates)' % (k, len(cands)))
    return cands[0]

def select_answer(C, role, answer):
    """[(fate, path)] - what the select! of the driver loop does when the future of the branch `role` completes with `answer`:
    'delivered' (the poll closure returns Ready(Out::_n(answer)): the handler runs), 'consumed' (the branch was polled, got the
    answer and the closure went on to the next branch: the answer reaches no handler), 'unread' (anything else: fail closed).
    Paths on which the branch was not polled at all (switched off on entry) are left out."""
    f = C.facts
    k = _arm(C, role)['index']
    code = branch_code(C, role)
    def polled(I, cal, args, node, st):
        if node.get('k') == 'Call' and (node.get('f') or {}).get('def') == POLL:
            return [absx.Out('val', ('ctor', 'Poll::Ready', (answer,)), st.event(('polled', k)))]
        return None
    I = absx.Interp(f, C.loop, summaries=[polled], result_combinators=True)
    res = []
    for o in I.ev(code, absx.St({})):
        if not any(e[0] == 'polled' for e in o.st.ev):
            if o.kind != 'cont':
                res.append(('unread', o))
            continue
        v = o.val
        if o.kind == 'ret' and v[0] == 'ctor' and v[1].endswith('Poll::Ready') and len(v[2]) == 1 and v[2][0][0] == 'ctor' \
                and v[2][0][1].endswith('Out::_%d' % k) and v[2][0][2] == (answer,):
            res.append(('delivered', o))
        elif o.kind == 'cont':
            res.append(('consumed', o))
        else:
            res.append(('unread', o))
    return res

def else_branch(C):
    """(exists, leaves the loop): the `Out::Disabled` arm of the select!'s outer match - the user's `else` branch, or the panic the
    macro puts there when there is none - evaluated"""
    m = C.arms['request']['match']
    ml = main_loop(C)
    for a in m['arms']:
        p = a['pat']
        d = (p.get('e') or {}).get('def') or p.get('def') or ''
        if d.endswith('__tokio_select_util::Out::Disabled'):
            outs = absx.Interp(C.facts, C.loop, result_combinators=True).ev(a['body'], absx.St({}))
            live = [o for o in outs if o.kind != 'div']
            return bool(live), bool(live) and all(leaves_driver_loop(C, o, ml) for o in live)
    return False, False

def leaves_driver_loop(C, o, ml=None):
    """the path of an arm ends the driver loop: `return`, or `break` out of the loop that holds the select!"""
    ml = ml if ml is not None else main_loop(C)
    return o.kind == 'ret' or (o.kind == 'brk' and (o.target is None or (ml is not None and o.target == ml.get('id'))))

def answer_fate(C, role, answer):
    """{'consumed': [paths of the poll code], 'unread': [..], 'handler': [paths of the handler run on the answer] | None}"""
    fates = select_answer(C, role, answer)
    out = {'consumed': [o for k, o in fates if k == 'consumed'], 'unread': [o for k, o in fates if k == 'unread'], 'handler': None,
           'delivered': [o for k, o in fates if k == 'delivered']}
    if out['delivered']:
        out['handler'] = [o for o in arm_paths(C, role, answer=answer)[0]]
    return out

def why_not_left(C, role):
    """The explanation that goes with a consumed answer: when `else` can run at all."""
    has_else, else_leaves = else_branch(C)
    me = _arm(C, role)
    names = {id(a): r for r, a in C.arms.items() if isinstance(a, dict)}
    never = []
    pre = hirq.select_preconditions(main_loop(C) or C.loop.root)
    for r, a in C.arms.items():
        for arm in (a if isinstance(a, list) else [a]):
            if arm is me:
                continue
            cond = pre[arm['index']] if arm['index'] < len(pre) else None
            always_on = cond is not None and cond['k'] == 'Lit' and cond.get('v') is True
            refutable = any(k == 'consumed' for k, _o in select_answer(C, arm, ('param', 'ANS')))
            if always_on and not refutable:
                never.append(names.get(id(arm), 'other'))
    if not has_else:
        return 'the select! has no `else` branch'
    if never:
        return ('the `else` branch runs only when every branch is switched off in the same call, and the %s branch%s can never be (irrefutable pattern, '
                'no precondition): `else` is dead code' % (' / '.join(sorted(never)), 'es' if len(never) > 1 else ''))
    return 'the `else` branch runs only once every other branch has been switched off in the same call as well (each of their channels closed): not while a handle is alive'

def map_calls(C, o, which, names=None):
    """(index, method name, args, node) of the calls on a routing map ('result' / 'search') or the in-use set ('idset')."""
    out = []
    for i, cal, args, node in sem.calls(o, lambda c: True):
        if node.get('k') != 'MethodCall':
            continue
        r = node['recv']
        hit = C.is_idset_place(r) if which == 'idset' else C.is_map_place(r, which)
        name = cal.rsplit('::', 1)[-1]      # the event's method: a `retain` is recorded as the removals it amounts to (absx)
        if hit and (names is None or name in names):
            out.append((i, name, args, node))
    return out

def payload_ty(sender_ty):
    """the message type of a channel endpoint type `S<T>`"""
    return sender_ty[sender_ty.index('<') + 1:-1] if '<' in sender_ty and sender_ty.endswith('>') else None

def hands_over(node, sender_ty):
    """node is a delivery call, by role: a method call on a value of the sender type that is given a message of the channel's own
    message type by value (args[1] of the call event) - `send`, `try_send`, `blocking_send`, `send_timeout`, whatever the channel
    flavour calls it.  What the call's *failure* means is a separate question (delivery_failure_means)."""
    if node.get('k') != 'MethodCall' or sem.recv_ty(node) != sender_ty:
        return False
    args = node.get('args') or []
    return bool(args) and (args[0].get('ty') or '') == payload_ty(sender_ty)

def sends(o, sender_ty):
    """[(event index, args, node)] of the delivery calls of a path on a sender of the given type (args[0] the sender, args[1] the message)"""
    return [(i, args, node) for i, cal, args, node in sem.calls(o, lambda c: True) if hands_over(node, sender_ty) and len(args) >= 2]

# What the failure of a delivery call says about the receiving end.  One line per library function, from its documentation
# (tokio 1.x, sync::mpsc / sync::oneshot):
#   UnboundedSender::send(&self, T) -> Result<(), SendError<T>>      "fails only if the receive half has been closed or dropped"; never waits
#   Sender::send(&self, T) -> impl Future<Output = Result<(), SendError<T>>>   waits for capacity; resolves to Err only when the receiver is closed
#   Sender::try_send(&self, T) -> Result<(), TrySendError<T>>        Err(Full(T)) when the queue has no room, Err(Closed(T)) when the receiver is gone
#   Sender::send_timeout                                              Err(Timeout(T)) when no room became free in time, Err(Closed(T))
#   Sender::blocking_send                                             blocks the thread (panics inside a runtime); Err only when closed
#   oneshot::Sender::send(self, T) -> Result<(), T>                  Err only when the receiver was dropped (or closed)
DELIVERY = {
    'tokio::sync::mpsc::unbounded::UnboundedSender::<T>::send': ('closed', False),
    'tokio::sync::mpsc::bounded::Sender::<T>::send': ('closed', True),
    'tokio::sync::mpsc::bounded::Sender::<T>::try_send': ('full-or-closed', False),
    'tokio::sync::mpsc::bounded::Sender::<T>::send_timeout': ('timeout-or-closed', True),
    'tokio::sync::mpsc::bounded::Sender::<T>::blocking_send': ('closed', True),
    'tokio::sync::oneshot::Sender::<T>::send': ('closed', False),
}

def delivery_failure_means(callee):
    """(what an Err of the delivery call `callee` means: 'closed' = only that the receiver is gone | 'full-or-closed' | .. | None when
    the function is not in the table, whether the call can make the caller wait)"""
    return DELIVERY.get(callee, (None, None))


# the response arm's binding is Option<Result<(id, (protocolOp, controls)), io::Error>>: the decoded message and its ID
MSG = ('variant', ('variant', ARM, 'Some', 0), 'Ok', 0)
DECODED_ID = ('field', MSG, '0')
LOOKUPS = ('get', 'get_mut', 'remove', 'remove_entry')

def routing_lookups(C, o, key=None):
    """The lookups a path makes in the routing maps (under `key`, when given), in event order:
    [(event index, 'result' | 'search', method name, the call's term, found)] - found is what the path condition says about the
    answer being Some: True (an entry was there: its sender is the payload), False, or None when the path never tested it."""
    out = []
    for which in ('result', 'search'):
        for i, name, args, node in map_calls(C, o, which, LOOKUPS):
            if len(args) < 2 or (key is not None and args[1] != key):
                continue
            term = ('call', o.st.ev[i][1], tuple(args), node.get('id'))
            out.append((i, which, name, term, absx.pc_variant(o.st.pc, lambda t, term=term: t == term, 'Some')))
    return sorted(out, key=lambda x: x[0])

def found_before(C, o, i, key, which=None):
    """Some lookup under `key` (in the map `which`, when given) made before event i of the path found an entry: from there on the
    path runs under "an operation is registered under this ID" - however the code that follows is nested (inside the `Some` arm,
    or after a `match` / `let .. else` whose `None` alternative left the arm)."""
    return any(j < i and fnd is True and (which is None or w == which) for j, w, _n, _t, fnd in routing_lookups(C, o, key))

def replies_to_registered(C, o, key, which, taken_out=False):
    """[(event index, node)] of the reply sends of a path that go to the operation registered under `key` in the map `which`: the
    receiver of the send is the very sender a lookup under that key found (with taken_out: found and removed)."""
    T = anchors.T_RESULT_SENDER if which == 'result' else anchors.T_ITEM_SENDER
    hits = []
    for i, args, node in sends(o, T):
        for j, w, name, term, fnd in routing_lookups(C, o, key):
            if j < i and w == which and fnd is True and args[0] == ('variant', term, 'Some', 0) and (not taken_out or name == 'remove'):
                hits.append((i, node))
                break
    return hits


def net_registration(C, o, which, key):
    """What a path of an arm does, in sum, to the routing entry of `key` in the map `which` ('result' / 'search'), given that the
    entry existed when the path began: 'kept' (never removed, or taken out and put back - the same sender under the same key),
    'dropped' (removed and not put back), 'replaced' (something else was stored under the key)."""
    state, taken = 'kept', []
    for i, name, args, node in map_calls(C, o, which):
        k = args[1] if len(args) > 1 else None
        if name in ('remove', 'remove_entry') and k == key:
            state = 'dropped'
            taken.append(('call', [e for e in o.st.ev if e[0] == 'call' and e[3] is node][0][1], tuple(args), node.get('id')))
        elif name == 'insert' and k == key:
            v = args[2] if len(args) > 2 else None
            same = any(v == ('variant', t, 'Some', 0) or (v is not None and sem.has(v, lambda x, t=t: x == ('variant', t, 'Some', 0)) and v[0] == 'call' and v[1].endswith('::clone')) for t in taken)
            state = 'kept' if (same and state == 'dropped') else 'replaced'
        elif name in ('clear', 'drain', 'retain'):
            state = 'dropped'
    return state


def never_taken(L, I, node):
    """The analysis shows that `node` (a site of the loop body L that lies on no enumerated path of its arm) sits in a branch that
    is taken on no path: some enclosing `if` / `match` was evaluated by the interpreter I - on every path that reaches it - without
    ever entering the branch the node is in.  The interpreter skips a branch only when the test is decided (a literal, a pattern
    that cannot match the constructor at hand - `if let Some(x) = None` -, an atom the path condition already fixes); whatever it
    cannot decide it forks on.  So this is "dead on every path", not "not looked at": when no enclosing construct was evaluated at
    all (code behind a loop bound, behind a panic) the answer is False and the caller fails closed."""
    for anc, role in reversed(L.context(node)):
        br = None
        if anc['k'] == 'If' and role in ('then', 'els'):
            br = anc.get(role)
        elif anc['k'] == 'Match' and isinstance(role, tuple) and role[0] == 'arms' and role[-1] == 'body':
            br = anc['arms'][role[1]]['body']
        if br is not None and id(anc) in I.visited:
            return id(br) not in I.visited
    return False
