"""F8: extraction of a PEG from nom combinator code (typed HIR) and comparison with a reference PEG.

Grammar algebra (tuples):
    ('lit', bytes) ('class', name) ('ref', fn path) ('seq', [g..]) ('alt', [g..]) ('star', g) ('plus', g) ('opt', g)
    ('check', g, what)      g followed by a semantic acceptance test (map_res / verify on a non-byte parser)
    ('unknown', why)
Semantic actions (map closures, the value computed after a let-chain) are dropped here; they are checked by F2.
"""
from facts import callee_of, loc, walk
import hirq

NOM_PRIMS = {
    'nom::character::complete::digit1': ('plus', ('class', 'digit')),
    'nom::number::complete::be_u8': ('class', 'any'),
}

class Extractor:
    def __init__(self, facts, module_prefix):
        self.facts = facts
        self.prefix = module_prefix
        self.prims_used = set()
        self.classes = {}       # class name -> predicate descriptor (fn path or closure node)
        self.checks = []        # (fn path, what, node)
        self.chains = {}        # fn path -> [{'g': grammar, 'bind': binding of the parsed value | None, 'app': application node}] of a let-chain body

    def fn_grammar(self, path):
        rec = self.facts.hir[path]
        self.cur = path
        g = self.block_grammar(rec['body'], rec['params'])
        if g[0] == 'unknown':
            # not a combinator expression / let-chain: a parser written by hand.  Its grammar is read off its enumerated paths:
            # what the remainder it returns is made of (see path_grammar)
            g2 = self.path_grammar(path)
            if g2 is not None:
                return g2
        return g

    # ------------------------------------------------------------------ hand-written parser bodies
    def path_grammar(self, path):
        """The grammar of a parser function read off the paths of the abstract interpreter instead of its statements: on every
        accepting path the function returns `Ok((rest, value))`; `rest` is a term that says which parsers (or prefix splits) were
        applied to the input parameter, in which order - that sequence is what the function consumes, wherever the statements
        that compute the *value* (loops, folds, lets) stand.  A path that answers an error although every parser of the chain
        succeeded is a semantic rejection: the sequence is wrapped in ('check', .., 'by-hand').  None when the paths cannot be
        read this way (the caller keeps the 'unknown' of the statement reading: fails closed)."""
        import absx
        rec = self.facts.hir[path]
        if len(rec['params']) != 1:
            return None
        B = hirq.Body(self.facts, rec)
        I = absx.Interp(self.facts, B, for_once=True)
        I.carry_vecs = True
        try:
            outs = I.run()
        except absx.TooManyPaths:
            return None
        inp = [('param', d['name']) for b, d in B.defs.items() if d['kind'] == 'param' and not d['proj']]
        if len(inp) != 1:
            return None
        chains, errs = [], []
        for o in outs:
            v = o.val
            if o.kind in ('val', 'ret') and v[0] == 'ctor' and v[1] == 'Ok' and len(v[2]) == 1 and v[2][0][0] == 'tuple' and len(v[2][0][1]) == 2:
                ch = self.cursor_chain(v[2][0][1][0], inp[0], B)
                if ch is None:
                    return None
                chains.append(ch)
            elif o.kind in ('val', 'ret') and (v[0] == 'tryerr' or (v[0] == 'ctor' and v[1] == 'Err')):
                errs.append(v)
            else:
                return None         # a panic, an unfinished loop, a value that is not a parser result
        if not chains or any(repr([g for g, a in c]) != repr([g for g, a in chains[0]]) for c in chains[1:]):
            return None
        # an error path that propagates the failure of one of the chain's own parser applications (`?`) is that parser failing:
        # the sequence fails there.  Every other error path rejects input the chain would have consumed: a semantic rejection
        apps = {a for c in chains for g, a in c if a is not None}
        rejects = [v for v in errs if not (v[0] == 'tryerr' and v[1] in apps)]
        g = flat(('seq', [g for g, a in chains[0]])) if chains[0] else None
        if g is None:
            return None
        if rejects:
            self.checks.append((self.cur, 'by-hand', rec['body']))
            g = ('check', g, 'by-hand')
        return g

    def cursor_chain(self, t, inp, B):
        """[(grammar element, term of the parser application | None) ...] consumed between the input parameter and the remainder
        term t; None if t is not such a term"""
        if t == inp:
            return []
        ps = prefix_split(t)
        if ps is not None:
            cur, pred, role, one_or_more = ps
            if role != 'rest':
                return None
            head = self.cursor_chain(cur, inp, B)
            name = self.pred_class(pred, B)
            if head is None or name is None:
                return None
            app = t[1][1] if t[1][0] == 'variant' else None
            return head + [(('plus' if one_or_more else 'star', ('class', name)), app)]
        # the remainder of a parser application: `(.0 of the Ok payload of  <parser>(cursor))`
        if t[0] == 'field' and t[2] == '0' and t[1][0] == 'variant' and t[1][2] == 'Ok' and t[1][3] == 0 and t[1][1][0] == 'call':
            app = t[1][1]
            if app[1] == '<indirect>' and len(app[2]) == 2:
                head = self.cursor_chain(app[2][1], inp, B)
                node = B.by_id.get(app[3])
                if head is None or node is None or node.get('k') != 'Call':
                    return None
                g = self.comb(node['f'])
                return None if g[0] == 'unknown' else head + [(g, app)]
            if app[1].startswith(self.prefix) and len(app[2]) == 1:
                head = self.cursor_chain(app[2][0], inp, B)
                return None if head is None else head + [(('ref', app[1]), app)]
        return None

    def pred_class(self, pred, B):
        if pred[0] == 'fn':
            self.classes[pred[1]] = ('fn', pred[1])
            return pred[1]
        if pred[0] == 'closure':
            node = next((n for n in B.nodes if n['k'] == 'Closure' and n.get('def') == pred[1]), None)
            if node is not None:
                self.classes[pred[1]] = ('closure', node)
                return pred[1]
        return None

    # a function / closure body that parses its (single) input parameter
    def block_grammar(self, b, params):
        inp = [x[0] for p in params for x in hirq.pat_bindings(p)]
        if b['k'] != 'Block':
            return self.apply_grammar(b, inp)
        top = b is self.facts.hir[self.cur]['body']      # the function's own body (not a closure inside a combinator expression)
        if top:
            self.chains[self.cur] = []
        seq = []
        cur = set(inp)
        for s in b['stmts']:
            if s['k'] != 'Let' or s.get('init') is None:
                if s['k'] == 'Item':
                    continue
                ge = s.get('e') if s['k'] in ('Expr', 'Semi') else None
                if ge is not None and ge['k'] == 'If' and ge.get('els') is None and hirq.diverges(ge['then']) and \
                        any(n['k'] == 'Ret' for n, c in walk(ge['then'])):
                    # `if <condition on what was parsed so far> { return Err(..) }`: a semantic rejection
                    seq.append(('guard', ge['cond']))
                    continue
                return ('unknown', 'statement %s in a parser body' % s['k'])
            init = s['init']
            if init['k'] == 'Try':
                g = self.apply_grammar(init['e'], cur)
                if g[0] == 'unknown':
                    return g
                # the remainder is the first component of the bound tuple; the value binding names this element for guards
                pat = s['pat']
                vb = pat['pats'][1]['bind'] if (pat['k'] == 'PTuple' and len(pat['pats']) == 2 and pat['pats'][1]['k'] == 'Bind') else None
                if top:
                    self.chains[self.cur].append({'g': flat(g), 'bind': vb, 'app': init['e'],
                                                  'unused': pat['k'] == 'PTuple' and len(pat['pats']) == 2 and pat['pats'][1]['k'] == 'Wild'})
                if vb is not None:
                    g = ('bound', vb, g)
                seq.append(g)
                if pat['k'] == 'PTuple' and pat['pats'] and pat['pats'][0]['k'] == 'Bind':
                    cur = {pat['pats'][0]['bind']}
                else:
                    return ('unknown', 'let pattern of a parser application is not (rest, value)')
            else:
                # a let that does not parse (computing a value): ignored here, checked by F2
                if any(n['k'] == 'Try' for n, c in walk(init)):
                    return ('unknown', 'parser application nested in a value expression')
        tail = b.get('expr')
        if tail is None:
            return ('unknown', 'parser body without a value')
        if tail['k'] == 'Call' and hirq.short_def(tail['f'].get('def', '')) == 'Ok' and seq:
            t = tail['args'][0]
            if t['k'] == 'Tup' and t['elems'] and hirq.local_of(t['elems'][0]) in cur:
                return flat(('seq', seq))
            return ('unknown', 'the remainder returned is not the last parser\'s remainder')
        g = self.apply_grammar(tail, cur)
        if seq:
            return flat(('seq', seq + [g]))
        return g

    # `<parser expr>(input)`
    def apply_grammar(self, e, inputs):
        if e['k'] == 'Block' and not e['stmts'] and e.get('expr') is not None:
            e = e['expr']
        if e['k'] != 'Call':
            return ('unknown', 'expected a parser application, found ' + e['k'])
        if len(e['args']) != 1 or hirq.local_of(e['args'][0]) not in inputs:
            return ('unknown', 'parser applied to something other than the current input at %s' % loc(e))
        cal = callee_of(e)
        if cal is not None:
            return self.named(cal, e)
        return self.comb(e['f'])

    def named(self, cal, node):
        if cal.startswith(self.prefix):
            return ('ref', cal)
        if cal in NOM_PRIMS:
            self.prims_used.add(cal)
            return NOM_PRIMS[cal]
        return ('unknown', 'call to ' + cal)

    # a parser-valued expression
    def comb(self, e):
        k = e['k']
        if k == 'Path':
            d = e.get('inst') or e.get('def')
            return self.named(d, e)
        if k == 'Closure':
            return self.block_grammar(e['body'], e['params'])
        if k != 'Call':
            return ('unknown', 'parser expression ' + k)
        cal = callee_of(e) or ''
        a = e['args']
        self.prims_used.add(cal)
        if cal == 'nom::branch::alt':
            if a[0]['k'] != 'Tup':
                return ('unknown', 'alt argument')
            return ('alt', [self.comb(x) for x in a[0]['elems']])
        if cal == 'nom::sequence::delimited':
            return flat(('seq', [self.comb(x) for x in a]))
        if cal == 'nom::sequence::preceded':
            return flat(('seq', [self.comb(x) for x in a]))
        if cal in ('nom::sequence::terminated', 'nom::sequence::pair', 'nom::sequence::tuple', 'nom::sequence::separated_pair'):
            els = a[0]['elems'] if (cal.endswith('::tuple') and a and a[0]['k'] == 'Tup') else a
            return flat(('seq', [self.comb(x) for x in els]))
        if cal == 'nom::combinator::peek':
            return ('peek', self.comb(a[0]))          # zero-width lookahead: must match here, consumes nothing
        if cal in ('nom::multi::many0', 'nom::multi::fold_many0'):
            return ('star', self.comb(a[0]))
        if cal == 'nom::multi::many1':
            return ('plus', self.comb(a[0]))
        if cal == 'nom::combinator::opt':
            return ('opt', self.comb(a[0]))
        if cal in ('nom::combinator::recognize', 'nom::combinator::map'):
            return self.comb(a[0])
        if cal == 'nom::combinator::map_res':
            self.checks.append((self.cur, 'map_res', a[1]))
            return ('check', self.comb(a[0]), 'map_res', a[1], callee_of(a[0]) if a[0].get('k') == 'Call' else None)
        if cal == 'nom::combinator::verify':
            inner = self.comb(a[0])
            if inner == ('class', 'any'):
                name = self.class_name(a[1])
                return ('class', name)
            self.checks.append((self.cur, 'verify', a[1]))
            return ('check', inner, 'verify', a[1], callee_of(a[0]) if a[0].get('k') == 'Call' else None)
        if cal in ('nom::bytes::complete::tag', 'nom::bytes::streaming::tag'):
            v = hirq.const_eval(self.facts, a[0])
            if isinstance(v, str):
                v = v.encode()
            if not isinstance(v, bytes):
                return ('unknown', 'tag argument')
            return ('lit', v)
        if cal in ('nom::bytes::complete::take_while', 'nom::bytes::complete::take_while1'):
            name = self.class_name(a[0])
            return ('star' if cal.endswith('take_while') else 'plus', ('class', name))
        return ('unknown', 'combinator ' + cal)

    # ------------------------------------------------------------------ value semantics (what a parser RETURNS)
    # The grammar reading above says which bytes a parser expression consumes.  The reading below says, for the same expression,
    # what its OUTPUT is as a function of those bytes.  Value algebra (every node carries the grammar of the parts it speaks of):
    #   ('text',)                    the bytes this very expression consumed (a sub-slice of the input)
    #   ('byte',)                    the one byte this expression consumed, as a u8
    #   ('fn', path)                 the output of the local parser function `path` (see fn_value) applied here
    #   ('sub', k, [g..], V)         of the parts g.. applied in sequence, the output V of part k; the others are dropped
    #   ('tuple', [k..], [g..], [V..])   the outputs of the parts k.. of the sequence g.., as a tuple
    #   ('alt', [g..], [V..])        the output of whichever alternative matched
    #   ('opt', g, V)                Some(V) when g matched, None otherwise
    #   ('list', g, V)               the vector of the outputs V of the repeated g, in input order
    #   ('fold', g, V, init, step)   step folded over the outputs V of the repeated g, in input order, from init()
    #   ('map', f, g, V) / ('mapres', f, g, V)      f applied to the output V of g (map_res: f's Ok payload)
    #   ('peek', g, V)               the output V of g matched at this position; nothing is consumed
    #   ('unit',)  ('computed', expr node, [(g, V, binding)..])   a let-chain's own value: `()` / an expression over its steps' outputs
    #   ('unknown', why)
    # One line per nom combinator, each stated for all inputs on which the combinator succeeds (nom 7 sources):
    #   tag(t): Ok((rest, matched)) where matched = input[..t.len()] (== t);  take_while(1)(p), digit1: Ok((rest, longest prefix));
    #   be_u8: the first byte;  recognize(p): runs p, returns input[..consumed by p];  verify(p, f): p's output unchanged;
    #   preceded(a, b): b's output;  terminated(a, b): a's output;  delimited(a, b, c): b's output;  pair / tuple: all outputs;
    #   separated_pair(a, s, b): (a's, b's);  opt(p): Some(output) / None;  many0 / many1(p): Vec of p's outputs;
    #   fold_many0(p, init, f): f folded over p's outputs;  map(p, f): f(output);  map_res(p, f): f(output)?;  peek(p): p's output,
    #   input not advanced;  alt((..)): the output of the first alternative that succeeds.
    def _quiet(self, fn, *a):
        """run a grammar extraction for its result only (the registers P1 / P2 read are left as they were)"""
        saved = (list(self.checks), dict(self.chains), getattr(self, 'cur', None), set(self.prims_used), dict(self.classes))
        try:
            return fn(*a)
        finally:
            self.checks[:] = saved[0]
            self.chains = saved[1]
            self.cur = saved[2]
            self.prims_used = saved[3]
            self.classes = saved[4]

    def fn_value(self, path):
        """output of the parser function `path` (a combinator expression or a let-chain; a parser written by hand has no value
        reading here: ('unknown', ..), the rules that need it fail closed)"""
        memo = self.__dict__.setdefault('_fn_values', {})
        if path not in memo:
            rec = self.facts.hir[path]
            memo[path] = ('unknown', 'recursive parser function')
            memo[path] = self._quiet(self.block_value, rec['body'], rec['params'])
        return memo[path]

    def block_value(self, b, params):
        inp = [x[0] for p in params for x in hirq.pat_bindings(p)]
        if b['k'] != 'Block':
            return self.apply_value(b, inp)
        steps = []
        cur = set(inp)
        for s in b['stmts']:
            if s['k'] != 'Let' or s.get('init') is None:
                if s['k'] == 'Item':
                    continue
                ge = s.get('e') if s['k'] in ('Expr', 'Semi') else None
                if ge is not None and ge['k'] == 'If' and ge.get('els') is None and hirq.diverges(ge['then']):
                    continue                 # a rejection: does not change what an accepting path returns
                return ('unknown', 'statement %s in a parser body' % s['k'])
            init = s['init']
            if init['k'] == 'Try':
                g = self.apply_grammar(init['e'], cur)
                v = self.apply_value(init['e'], cur)
                if g[0] == 'unknown':
                    return g
                pat = s['pat']
                vb = pat['pats'][1]['bind'] if (pat['k'] == 'PTuple' and len(pat['pats']) == 2 and pat['pats'][1]['k'] == 'Bind') else None
                steps.append((flat(g), v, vb))
                if pat['k'] == 'PTuple' and pat['pats'] and pat['pats'][0]['k'] == 'Bind':
                    cur = {pat['pats'][0]['bind']}
                else:
                    return ('unknown', 'let pattern of a parser application is not (rest, value)')
            elif any(n['k'] == 'Try' for n, c in walk(init)):
                return ('unknown', 'parser application nested in a value expression')
        tail = b.get('expr')
        if tail is None:
            return ('unknown', 'parser body without a value')
        gs = [g for g, v, vb in steps]
        if tail['k'] == 'Call' and hirq.short_def(tail['f'].get('def', '')) == 'Ok' and steps:
            t = tail['args'][0]
            if not (t['k'] == 'Tup' and len(t['elems']) == 2 and hirq.local_of(t['elems'][0]) in cur):
                return ('unknown', 'the remainder returned is not the last parser\'s remainder')
            val = t['elems'][1]
            if val['k'] == 'Tup' and not val['elems']:
                return ('unit',)
            lb = hirq.local_of(val) if val['k'] == 'Path' else None          # the binding itself: not a reference to / deref of it
            hit = [k for k, (g, v, vb) in enumerate(steps) if vb is not None and vb == lb]
            if len(hit) == 1:
                return ('sub', hit[0], gs, steps[hit[0]][1])
            return ('computed', val, steps)
        g = self.apply_grammar(tail, cur)
        v = self.apply_value(tail, cur)
        if g[0] == 'unknown':
            return g
        return ('sub', len(steps), gs + [flat(g)], v) if steps else v

    def apply_value(self, e, inputs):
        if e['k'] == 'Block' and not e['stmts'] and e.get('expr') is not None:
            e = e['expr']
        if e['k'] != 'Call':
            return ('unknown', 'expected a parser application, found ' + e['k'])
        if len(e['args']) != 1 or hirq.local_of(e['args'][0]) not in inputs:
            return ('unknown', 'parser applied to something other than the current input at %s' % loc(e))
        cal = callee_of(e)
        if cal is not None:
            return self.named_value(cal)
        return self.value(e['f'])

    def named_value(self, cal):
        if cal.startswith(self.prefix):
            return ('fn', cal)
        if cal == 'nom::character::complete::digit1':
            return TEXT
        if cal == 'nom::number::complete::be_u8':
            return BYTE
        return ('unknown', 'call to ' + cal)

    def value(self, e):
        """output of the parser-valued expression e (the value counterpart of comb)"""
        k = e['k']
        if k == 'Path':
            return self.named_value(e.get('inst') or e.get('def'))
        if k == 'Closure':
            return self.block_value(e['body'], e['params'])
        if k != 'Call':
            return ('unknown', 'parser expression ' + k)
        cal = callee_of(e) or ''
        a = e['args']
        G = lambda x: flat(self.comb(x))
        if cal == 'nom::branch::alt':
            if a[0]['k'] != 'Tup':
                return ('unknown', 'alt argument')
            return ('alt', [G(x) for x in a[0]['elems']], [self.value(x) for x in a[0]['elems']])
        if cal in ('nom::sequence::delimited', 'nom::sequence::preceded', 'nom::sequence::terminated'):
            keep = {'delimited': 1, 'preceded': 1, 'terminated': 0}[cal.rsplit('::', 1)[1]]
            if len(a) != (3 if cal.endswith('delimited') else 2):
                return ('unknown', 'arity of ' + cal)
            return ('sub', keep, [G(x) for x in a], self.value(a[keep]))
        if cal in ('nom::sequence::pair', 'nom::sequence::tuple', 'nom::sequence::separated_pair'):
            els = a[0]['elems'] if (cal.endswith('::tuple') and a and a[0]['k'] == 'Tup') else a
            if cal.endswith('::tuple') and not (a and a[0]['k'] == 'Tup'):
                return ('unknown', 'tuple argument')
            keep = [0, 2] if cal.endswith('separated_pair') else list(range(len(els)))
            return ('tuple', keep, [G(x) for x in els], [self.value(els[k_]) for k_ in keep])
        if cal == 'nom::combinator::peek':
            return ('peek', G(a[0]), self.value(a[0]))
        if cal in ('nom::multi::many0', 'nom::multi::many1'):
            return ('list', G(a[0]), self.value(a[0]))
        if cal == 'nom::multi::fold_many0':
            return ('fold', G(a[0]), self.value(a[0]), a[1], a[2])
        if cal == 'nom::combinator::opt':
            return ('opt', G(a[0]), self.value(a[0]))
        if cal == 'nom::combinator::recognize':
            return TEXT
        if cal == 'nom::combinator::verify':
            return self.value(a[0])
        if cal in ('nom::combinator::map', 'nom::combinator::map_res'):
            return ('map' if cal.endswith('::map') else 'mapres', a[1], G(a[0]), self.value(a[0]))
        if cal in ('nom::bytes::complete::tag', 'nom::bytes::streaming::tag',
                   'nom::bytes::complete::take_while', 'nom::bytes::complete::take_while1'):
            return TEXT
        return ('unknown', 'combinator ' + cal)

    def step_value(self, path, entry):
        """output of one step `let (rest, x) = <parser>(rest)?;` of the let-chain of function `path` (an entry of self.chains[path])"""
        app = entry['app']
        cal = callee_of(app)
        return self.named_value(cal) if cal is not None else self.value_of(app['f'], path)

    def value_of(self, e, path):
        """output of the parser-valued expression e that stands in the body of function `path`"""
        def go():
            self.cur = path
            return self.value(e)
        return self._quiet(go)

    def class_name(self, pred):
        if pred['k'] == 'Path':
            d = pred.get('inst') or pred.get('def')
            self.classes[d] = ('fn', d)
            return d
        if pred['k'] == 'Closure':
            name = pred.get('def')
            self.classes[name] = ('closure', pred)
            return name
        return 'unknown-predicate'


TEXT = ('text',)
BYTE = ('byte',)

def show_value(v):
    k = v[0]
    if k == 'text': return 'the consumed bytes'
    if k == 'byte': return 'the consumed byte'
    if k == 'fn': return 'output of %s()' % v[1].split('::')[-1]
    if k == 'sub': return '[%s] -> part %d: %s' % (' '.join(show(g) for g in v[2]), v[1] + 1, show_value(v[3]))
    if k == 'tuple': return '(%s)' % ', '.join(show_value(x) for x in v[3])
    if k == 'alt': return 'one of (%s)' % ' / '.join(show_value(x) for x in v[2])
    if k == 'opt': return 'Option of %s' % show_value(v[2])
    if k == 'list': return 'Vec of %s' % show_value(v[2])
    if k == 'fold': return 'fold over %s' % show_value(v[2])
    if k in ('map', 'mapres'): return '%s(closure, %s)' % ('map' if k == 'map' else 'map_res', show_value(v[3]))
    if k == 'peek': return 'peek of %s' % show_value(v[2])
    if k == 'unit': return '()'
    if k == 'computed': return 'an expression computed from the parsed parts'
    return '?? %s' % (v[1] if len(v) > 1 else '')

def text_part(v, g, fn_value, only_empty, depth=0):
    """Decides whether the output v of a parser with grammar g is a slice of the input, and which one.
    Returns (part, whole, why): `part` is the sub-grammar of g whose consumed bytes the output is *exactly*, on every input the
    parser accepts (None: the output is no such slice, `why` says what it is instead); `whole` is True when those are all the
    bytes g consumed.  fn_value(path) -> (value, grammar) of a local parser function; only_empty(g) -> True iff g can consume
    nothing but the empty string (decided on its language; undecided = False, so the answer errs towards "not the whole")."""
    if depth > 40:
        return None, False, 'parser functions nested too deeply'
    k = v[0]
    if k == 'text':
        return g, True, ''
    if k == 'fn':
        fv, fg = fn_value(v[1])
        part, whole, why = text_part(fv, fg, fn_value, only_empty, depth + 1)
        name = v[1].split('::')[-1]
        if part is None:
            return None, False, '%s() returns %s' % (name, why or show_value(fv))
        if whole:
            return ('ref', v[1]), True, ''
        return part, False, '%s() consumes `%s` but returns only the bytes of its part `%s`' % (name, show(fg), show(part))
    if k == 'sub':
        idx, parts, inner = v[1], v[2], v[3]
        part, whole, why = text_part(inner, parts[idx], fn_value, only_empty, depth + 1)
        if part is None:
            return None, False, why
        others = [p for j, p in enumerate(parts) if j != idx and not only_empty(p)]
        if whole and not others:
            return g, True, ''
        return part, False, why or 'of the sequence `%s` only the bytes of `%s` are returned, those of `%s` are consumed and dropped' % (
            ' '.join(show(p) for p in parts), show(part), ' '.join(show(p) for p in others))
    if k == 'alt':
        res = [text_part(x, gx, fn_value, only_empty, depth + 1) for gx, x in zip(v[1], v[2])]
        bad = [r for r in res if not r[1]]
        if not bad:
            return g, True, ''
        return None, False, bad[0][2] or 'an alternative returns something other than the bytes it consumed'
    return None, False, show_value(v)

def prefix_split(t):
    """Library model, stated once: terms that denote one half of "the input split after its longest prefix of bytes satisfying a
    predicate".  Returns (input term, predicate term, 'taken' | 'rest', at-least-one) or None.
      * nom `take_while(p)(s)` = Ok((rest, taken)): taken is the longest prefix of s whose bytes satisfy p, rest what follows; it
        never fails (`take_while1` fails when taken would be empty - the sequence then fails like any parser of the chain);
      * `s.split_at(s.iter().take_while(p).count())` = (taken, rest): Iterator::take_while yields the elements before the first
        one that fails p and count() counts them, so the split point is the length of that same longest prefix (<= s.len())."""
    if t[0] != 'field' or t[2] not in ('0', '1'):
        return None
    b = t[1]
    if b[0] == 'variant' and b[2] == 'Ok' and b[3] == 0 and b[1][0] == 'call' and b[1][1] == '<indirect>' and len(b[1][2]) == 2:
        fv, cur = b[1][2]
        if fv[0] == 'call' and fv[1] in ('nom::bytes::complete::take_while', 'nom::bytes::complete::take_while1') and len(fv[2]) == 1:
            return cur, fv[2][0], ('rest' if t[2] == '0' else 'taken'), fv[1].endswith('1')
    if b[0] == 'call' and b[1].endswith('::split_at') and b[1].startswith('core::slice::') and len(b[2]) == 2:
        cur, n = b[2]
        if n[0] == 'call' and n[1] == 'core::iter::traits::iterator::Iterator::count' and len(n[2]) == 1:
            tw = n[2][0]
            if tw[0] == 'call' and tw[1] == 'core::iter::traits::iterator::Iterator::take_while' and len(tw[2]) == 2 and tw[2][0] == cur:
                return cur, tw[2][1], ('taken' if t[2] == '0' else 'rest'), False
    return None

def flat(g):
    if g[0] == 'bound':
        return ('bound', g[1], flat(g[2]))
    if g[0] == 'seq':
        out = []
        for x in g[1]:
            x = flat(x)
            if x[0] == 'bound' and x[2][0] == 'seq':
                x = x[2]              # the value binding of a whole sub-sequence is of no use to a guard
            if x[0] == 'seq':
                out.extend(x[1])
            else:
                out.append(x)
        return ('seq', out) if len(out) != 1 else out[0]
    if g[0] in ('star', 'plus', 'opt', 'peek'):
        return (g[0], flat(g[1]))
    if g[0] == 'check':
        return ('check', flat(g[1])) + tuple(g[2:])
    if g[0] == 'alt':
        return ('alt', [flat(x) for x in g[1]])
    return g

def show(g):
    k = g[0]
    if k == 'bound':
        return show(g[2])
    if k == 'guard':
        return '&guard'
    if k == 'lit':
        return repr(g[1].decode('latin1'))
    if k == 'class':
        return '<%s>' % g[1].split('::')[-1]
    if k == 'ref':
        return g[1].split('::')[-1]
    if k == 'seq':
        return ' '.join(show(x) for x in g[1])
    if k == 'alt':
        return '(' + ' / '.join(show(x) for x in g[1]) + ')'
    if k in ('star', 'plus', 'opt'):
        return '(' + show(g[1]) + ')' + {'star': '*', 'plus': '+', 'opt': '?'}[k]
    if k == 'check':
        return '{' + show(g[1]) + '}!' + g[2]
    if k == 'peek':
        return '&(' + show(g[1]) + ')'
    return '??' + str(g[1])

def first_byte(g, rules, depth=0):
    """first literal byte of g if it is statically a single literal byte, else None"""
    if depth > 8:
        return None
    if g[0] == 'bound':
        return first_byte(g[2], rules, depth + 1)
    if g[0] == 'lit' and g[1]:
        return g[1][0]
    if g[0] == 'seq' and g[1]:
        return first_byte(g[1][0], rules, depth + 1)
    if g[0] == 'check':
        return first_byte(g[1], rules, depth + 1)
    if g[0] == 'ref' and g[1] in rules:
        return first_byte(rules[g[1]], rules, depth + 1)
    return None

def equal(a, b, rules_a, rules_b, classmap):
    """Structural equality; `alt` is compared unordered when every alternative but at most one starts with a distinct literal byte."""
    if a[0] == 'bound':
        return equal(a[2], b, rules_a, rules_b, classmap)
    if b[0] == 'bound':
        return equal(a, b[2], rules_a, rules_b, classmap)
    if a[0] != b[0]:
        return False, '%s vs %s' % (show(a), show(b))
    k = a[0]
    if k == 'lit':
        return (a[1] == b[1]), '%s vs %s' % (show(a), show(b))
    if k == 'class':
        return (classmap.get(a[1]) == b[1]), 'class %s is %s, expected %s' % (a[1], classmap.get(a[1]), b[1])
    if k == 'ref':
        return (a[1].split('::')[-1] == b[1]), '%s vs %s' % (show(a), show(b))
    if k in ('star', 'plus', 'opt'):
        return equal(a[1], b[1], rules_a, rules_b, classmap)
    if k == 'check':
        return equal(a[1], b[1], rules_a, rules_b, classmap)
    if k == 'seq':
        if len(a[1]) != len(b[1]):
            return False, '%s vs %s' % (show(a), show(b))
        for x, y in zip(a[1], b[1]):
            ok, why = equal(x, y, rules_a, rules_b, classmap)
            if not ok:
                return ok, why
        return True, ''
    if k == 'alt':
        if len(a[1]) != len(b[1]):
            return False, '%s vs %s' % (show(a), show(b))
        fa = [first_byte(x, rules_a) for x in a[1]]
        distinct = len([x for x in fa if x is None]) <= 1 and len({x for x in fa if x is not None}) == len([x for x in fa if x is not None])
        if distinct:
            rest = list(b[1])
            for x in a[1]:
                hit = None
                for y in rest:
                    if equal(x, y, rules_a, rules_b, classmap)[0]:
                        hit = y
                        break
                if hit is None:
                    return False, 'alternative %s has no counterpart in %s' % (show(x), show(b))
                rest.remove(hit)
            return True, ''
        for x, y in zip(a[1], b[1]):
            ok, why = equal(x, y, rules_a, rules_b, classmap)
            if not ok:
                return ok, 'ordered choice differs: ' + why
        return True, ''
    return False, 'unknown construct %s' % (a,)


# ---------------------------------------------------------------------------------------
# Language-level comparison.  Two grammars that draw the function boundaries differently (an alternative split into two
# functions or merged into one with optional parts and a guard) are compared through a normal form: the set of atom sequences
# a rule denotes when every non-recursive reference is expanded, optional parts are taken or not, and guards filter the
# combinations (a guard is a boolean combination of is_some()/is_none() on the values of optional parts, evaluated on each
# combination).  Atoms: single literal bytes, byte classes, repetitions and checked groups (with the normal form of their
# body), references to recursive rules (by name).

class NoNormalForm(Exception):
    pass

def rule_graph(rules, name_of):
    g = {}
    def refs(x, out):
        if x[0] == 'ref':
            out.add(name_of(x[1]))
        elif x[0] == 'bound':
            refs(x[2], out)
        elif x[0] in ('seq', 'alt'):
            for y in x[1]:
                refs(y, out)
        elif x[0] in ('star', 'plus', 'opt', 'check', 'peek'):
            refs(x[1], out)
    for n, body in rules.items():
        out = set()
        refs(body, out)
        g[name_of(n)] = out
    return g

def recursive_rules(rules, name_of=lambda n: n):
    g = rule_graph(rules, name_of)
    rec = set()
    for n in g:
        seen, stack = set(), list(g.get(n, ()))
        while stack:
            m = stack.pop()
            if m == n:
                rec.add(n); break
            if m in seen:
                continue
            seen.add(m)
            stack.extend(g.get(m, ()))
    return rec

def _guard_true(facts, cond, present):
    k = cond['k']
    if k == 'Binary' and cond['op'] in ('And', 'Or'):
        a, b = _guard_true(facts, cond['l'], present), _guard_true(facts, cond['r'], present)
        return (a and b) if cond['op'] == 'And' else (a or b)
    if k == 'Unary' and cond.get('op') == 'Not':
        return not _guard_true(facts, cond['e'], present)
    if k == 'MethodCall' and cond['name'] in ('is_none', 'is_some') and not cond['args']:
        b = hirq.local_of(cond['recv'])
        if b in present:
            return present[b] == (cond['name'] == 'is_some')
    raise NoNormalForm('guard condition outside is_some()/is_none() of optional parts')

_VERDICTS = {}

def closure_verdict(facts, node, what, env, arg):
    """What the acceptance test of a `verify` / `map_res` says when it is applied to `arg` with the values in env (binding ->
    term) for the locals it captures: True (accepts) / False (rejects) / None (not decided: depends on what was parsed, or not
    evaluable).  Evaluated by the abstract interpreter on the closure's HIR; exact on literals."""
    import absx
    if node is None or node.get('k') != 'Closure':
        return None
    key = (id(node), what, tuple(sorted(env.items())), arg)
    if key in _VERDICTS:
        return _VERDICTS[key]
    owner = node['def'].rsplit('::{closure', 1)[0]
    while owner not in facts.hir and '::{closure' in owner:
        owner = owner.rsplit('::{closure', 1)[0]
    res = None
    if owner in facts.hir:
        B = hirq.Body(facts, facts.hir[owner])
        I = absx.Interp(facts, B)
        I.exact_seqs = True         # the empty list an empty `many0` yields is a known sequence
        try:
            outs = I.apply_closure(('closure', node['def']), [arg], absx.St(dict(env)), node)
        except absx.TooManyPaths:
            outs = None
        verdicts = set()
        for o in outs or ():
            v = o.val
            if o.kind not in ('val', 'ret'):
                verdicts.add(None)
            elif what == 'verify':
                verdicts.add(True if v == absx.TRUE else False if v == absx.FALSE else None)
            else:
                verdicts.add(True if (v[0] == 'ctor' and v[1] == 'Ok') else False if (v[0] == 'ctor' and v[1] == 'Err') else None)
        if len(verdicts) == 1:
            res = verdicts.pop()
    _VERDICTS[key] = res
    return res

def _unbound(g):
    while g[0] == 'bound':
        g = g[2]
    return g

def language(facts, g, lookup, rec, classmap, depth=0, env=None):
    """set of tuples of atoms.  env: binding -> literal term of the values chosen so far in the enclosing sequences (the literal an
    alternative of literals matched): an acceptance test that only looks at those is decided instead of kept as an opaque check."""
    if depth > 60:
        raise NoNormalForm('expansion too deep')
    env = env or {}
    k = g[0]
    if k == 'bound':
        return language(facts, g[2], lookup, rec, classmap, depth, env)
    if k == 'lit':
        return {tuple(('b', x) for x in g[1])}
    if k == 'class':
        name = classmap.get(g[1], g[1]) if classmap is not None else g[1]
        return {(('c', name),)}
    if k == 'ref':
        n = g[1].split('::')[-1]
        if n in rec:
            return {(('r', n),)}
        body = lookup(n)
        if body is None:
            raise NoNormalForm('reference to an unknown rule ' + n)
        return language(facts, body, lookup, rec, classmap, depth + 1)          # a function body sees its own bindings only
    if k in ('star', 'plus'):
        inner = language(facts, g[1], lookup, rec, classmap, depth + 1, env)
        if not (inner - {()}):
            # nothing (or only the empty string) can be repeated: the repetition matches the empty string - `plus` only if its
            # body does
            return {()} if (k == 'star' or () in inner) else set()
        return {((k, frozenset(inner)),)}
    if k == 'check':
        inner = language(facts, g[1], lookup, rec, classmap, depth + 1, env)
        node = g[3] if len(g) > 3 else None
        if not inner:
            return set()
        # a test that does not look at what was parsed (only at values fixed earlier in the sequence) is decided here ...
        v = closure_verdict(facts, node, g[2], env, ('param', '#parsed'))
        # ... and so is a test that only the empty repetition can reach: it sees the one value an empty `many0` yields, the empty
        # vector (many0 only: a fold_many0 yields its initial accumulator, whatever that is)
        if v is None and inner == {()} and _unbound(g[1])[0] == 'star' and len(g) > 4 and g[4] == 'nom::multi::many0':
            v = closure_verdict(facts, node, g[2], env, ('vec', ()))
        if v is True:
            return inner
        if v is False:
            return set()
        return {(('check', '', frozenset(inner)),)}
    if k == 'opt':
        return {()} | language(facts, g[1], lookup, rec, classmap, depth + 1, env)
    if k == 'peek':
        # a lookahead only restricts when an optional part is taken; the set of sequences is compared without it (what it
        # costs or saves is decided by pegcommit on the PEG reading)
        return {()}
    if k == 'alt':
        out = set()
        for x in g[1]:
            out |= language(facts, x, lookup, rec, classmap, depth + 1, env)
        return out
    if k == 'seq':
        combos = [((), {})]          # (atoms so far, what is known of the bound parts: presence of an optional part / the literal matched)
        for el in g[1]:
            nxt = []
            if el[0] == 'guard':
                for atoms, pres in combos:
                    if not _guard_true(facts, el[1], pres):       # the guard rejects when its condition holds
                        nxt.append((atoms, pres))
                combos = nxt
                continue
            bind = el[1] if el[0] == 'bound' else None
            inner = el[2] if el[0] == 'bound' else el
            lits = [inner] if inner[0] == 'lit' else inner[1] if (inner[0] == 'alt' and all(x[0] == 'lit' for x in inner[1])) else None
            memo = {}
            for atoms, pres in combos:
                # the values fixed so far that a later acceptance test may consult: the literal a bound alternative of literals matched
                env2 = dict(env)
                env2.update({b: ('lit', v) for b, v in pres.items() if isinstance(v, bytes)})
                ek = tuple(sorted(env2.items()))
                if ek not in memo:
                    if inner[0] == 'opt' and bind is not None:
                        memo[ek] = [((), False)] + [(t, True) for t in language(facts, inner[1], lookup, rec, classmap, depth + 1, env2)]
                    elif bind is not None and lits is not None:
                        memo[ek] = [(tuple(('b', c) for c in x[1]), bytes(x[1])) for x in lits]
                    else:
                        memo[ek] = [(t, None) for t in language(facts, inner, lookup, rec, classmap, depth + 1, env2)]
                for t, p in memo[ek]:
                    pr = pres if p is None else dict(pres, **{bind: p})
                    nxt.append((atoms + t, pr))
            combos = nxt
            if len(combos) > 5000:
                raise NoNormalForm('too many combinations')
        return {atoms for atoms, _p in combos}
    if k == 'guard':
        raise NoNormalForm('guard outside a sequence')
    raise NoNormalForm('construct %s' % (g,))

def show_seq(t):
    out = []
    for a in t:
        if a[0] == 'b':
            out.append(chr(a[1]) if 32 <= a[1] < 127 else '\\x%02x' % a[1])
        elif a[0] == 'c':
            out.append('<%s>' % str(a[1]).split('::')[-1])
        elif a[0] == 'r':
            out.append(' %s ' % a[1])
        elif a[0] in ('star', 'plus'):
            out.append('(%s)%s' % ('|'.join(sorted(show_seq(x) for x in a[1]))[:160], '*' if a[0] == 'star' else '+'))
        else:
            out.append('{%s}' % '|'.join(sorted(show_seq(x) for x in a[2]))[:160])
    return ''.join(out)
