"""C19 - control and extended-operation values round-trip through their codecs."""
from facts import walk, callee_of, call_args, loc
import hirq, anchors, absx
from shapes import *

EXPLANATION = ("Encoders: every `From<X> for RawControl` / `From<X> for Exop` is abstractly evaluated (all paths) and the OID constant, "
               "the default criticality and the ASN.1 shape of the encoded value - with the struct field feeding each slot and the "
               "presence condition of each optional element - are compared with the defining RFC (2696, 4533, 4527, 4528, 3876, 4370, "
               "5805, 3296, 3062, 4532, 4511, draft relax); CriticalControl sets criticality on the wrapped control's own encoding. "
               "Decoders: PagedResults, SyncState, SyncDone, parse_syncinfo, ReadEntryResp, PasswordModifyResp, WhoAmIResp, StartTxnResp - "
               "which child ordinal / tag feeds which field, required class/tag checks, the EntryState and SyncInfo choice tables and the "
               "RFC 4533 defaults (refreshDone TRUE, refreshDeletes FALSE). Envelope (Z13/Z14 encoder, Z.* decoder; the same rule functions as C02 S13/S14 and C03 T3): a control list is encoded as [0]{SEQ{OCTET type, BOOLEAN TRUE only-if critical, OCTET value only-if present}*} and decoded per control in *any* position of the list (loop-carried state included) as child 0 -> type, BOOLEAN -> criticality = content != 0, absent criticality -> false, absent value -> None. "
               "Not decided: byte-level equality of arbitrary cookies; lber's serialisation (C07).")
TRUSTED = ['lber serialisation of a shape (C07)', 'RFC tables transcribed in this module']
UNDECIDED = ['byte-level equality of arbitrary field contents', 'EndTxnResp (not in the property\'s list of response values)']
ASSUMPTIONS = []

def inline_policy(c):
    return c.endswith('core::default::Default>::default') or c in ('ldap3::controls_impl::read_entry::from_read_entry',) \
        or 'From<ldap3::controls_impl::content_sync::RefreshMode> for i64' in c

def F(p, *names):
    return field_of(param(p), *names)
def some_of(pred):
    return lambda t, env: t[0] == 'variant' and t[2] == 'Some' and t[3] == 0 and pred(t[1], env)
def is_some_pc(pred):
    def f(pc):
        for a, t in pc:
            if a[0] == 'is' and a[2] in ('Some', 'None') and pred(a[1], {}):
                return t if a[2] == 'Some' else (not t)
        return None
    return f
def truthy_pc(pred, negate=False):
    def f(pc):
        for a, t in pc:
            if pred(a, {}):
                return (not t) if negate else t
        return None
    return f
def known_bool(pred):
    """the boolean field itself, or the literal the path condition pins it to (`if x { .. true .. }`)"""
    def f(t, env):
        if pred(t, env):
            return True
        if t[0] == 'lit' and isinstance(t[1], bool):
            for a, tr in env.get('pc', ()):
                if pred(a, env):
                    return tr == t[1]
        return False
    return f
def sync_mode(t, env):
    for a, tr in env['pc']:
        if a[0] == 'is' and a[2] == 'RefreshMode::RefreshOnly':
            return t == ('lit', 1 if tr else 3)        # RFC 4533: refreshOnly (1), refreshAndPersist (3)
    return False

RAW, NONE = 'raw', 'none'
ENCODERS = [
    # (substring of the impl path, struct, expected OID, default criticality, value spec)
    ('paged_results::PagedResults> for', 'ctl', '1.2.840.113556.1.4.319', False, SEQ(INT(F('pr', 'size')), OCT(F('pr', 'cookie')))),
    ('content_sync::SyncRequest> for', 'ctl', '1.3.6.1.4.1.4203.1.9.1.1', False,
     SEQ(ENUM(sync_mode), OPT(is_some_pc(F('sr', 'cookie')), OCT(some_of(F('sr', 'cookie'))), 'cookie'),
         OPT(truthy_pc(F('sr', 'reload_hint')), BOOL(known_bool(F('sr', 'reload_hint'))), 'reloadHint'))),
    ('read_entry::PreRead<S>> for', 'ctl', None, False, SEQ(MANY(F('pr', '0', 'attrs'), OCT(elem())))),
    ('read_entry::PostRead<S>> for', 'ctl', None, False, SEQ(MANY(F('pr', '0', 'attrs'), OCT(elem())))),
    ('assertion::Assertion<S>> for', 'ctl', '1.3.6.1.1.12', False,
     ANY(lambda t, env: t[0] == 'variant' and t[2] == 'Ok' and t[1][0] == 'call' and t[1][1] == 'ldap3::filter::parse' and F('assn', 'filter')(t[1][2][0], env))),
    ('matched_values::MatchedValues<S>> for', 'ctl', '1.2.826.0.1.3344810.2.3', False,
     ANY(lambda t, env: t[0] == 'variant' and t[2] == 'Ok' and t[1][0] == 'call' and t[1][1] == 'ldap3::filter::parse_matched_values' and F('assn', 'filter')(t[1][2][0], env))),
    ('proxy_auth::ProxyAuth> for', 'ctl', '2.16.840.1.113730.3.4.18', True, (RAW, F('pa', 'authzid'))),
    ('txn::TxnSpec<\'a>> for ldap3::controls_impl::RawControl', 'ctl', '1.3.6.1.1.21.2', True, (RAW, F('txn', 'txn_id'))),
    ('manage_dsa_it::ManageDsaIt> for', 'ctl', '2.16.840.1.113730.3.4.2', False, NONE),
    ('relax_rules::RelaxRules> for', 'ctl', '1.3.6.1.4.1.4203.666.5.12', False, NONE),
    ('whoami::WhoAmI> for', 'exop', '1.3.6.1.4.1.4203.1.11.3', None, NONE),
    ('starttls::StartTLS> for', 'exop', '1.3.6.1.4.1.1466.20037', None, NONE),
    ('txn::StartTxn> for', 'exop', '1.3.6.1.1.21.1', None, NONE),
    ('txn::EndTxn<\'a>> for', 'exop', '1.3.6.1.1.21.3', None,
     SEQ(OPT(truthy_pc(F('et', 'commit'), negate=True), BOOL(lit(False)), 'commit'), OCT(F('et', 'txn_id')))),
    ('passmod::PasswordModify<\'a>> for', 'exop', '1.3.6.1.4.1.4203.1.11.1', None,
     SEQ(OPT(is_some_pc(F('pm', 'user_id')), P('OCT', 'C', 0, some_of(F('pm', 'user_id'))), 'userIdentity'),
         OPT(is_some_pc(F('pm', 'old_pass')), P('OCT', 'C', 1, some_of(F('pm', 'old_pass'))), 'oldPasswd'),
         OPT(is_some_pc(F('pm', 'new_pass')), P('OCT', 'C', 2, some_of(F('pm', 'new_pass'))), 'newPasswd'))),
]
READ_ENTRY_OIDS = {'ldap3::controls_impl::read_entry::PreRead::<S>::new': '1.3.6.1.1.13.1', 'ldap3::controls_impl::read_entry::PostRead::<S>::new': '1.3.6.1.1.13.2'}

def calls_in(t):
    return [x[1].rsplit('::', 1)[-1] for x in absx.leaves(t, lambda x: x[0] == 'call')]
def nths(t):
    return sorted({x[3] for x in absx.leaves(t, lambda x: x[0] == 'nth')})
def has_arg(t, callee_suffix, pred):
    return any(pred(a) for x in absx.leaves(t, lambda x: x[0] == 'call' and x[1].endswith(callee_suffix)) for a in x[2][1:])

def run(ctx):
    f = ctx.facts
    # ------------------------------------------------------------------ encoders
    froms = [p for p in f.hir if p.endswith('::from') and 'core::convert::From<' in p and ('for ldap3::controls_impl::RawControl' in p or 'for ldap3::exop_impl::Exop' in p)]
    done = 0
    for sub, kind, oid, crit, spec in ENCODERS:
        cands = [p for p in froms if sub in p]
        if len(cands) != 1:
            ctx.fail('anchor-missing', 'encoder ' + sub, '', 'expected one From impl matching %s, found %d' % (sub, len(cands))); continue
        p = cands[0]
        B = hirq.Body(f, f.hir[p])
        ctx.analysed['bodies'].add(p)
        outs = [o for o in absx.Interp(f, B, unroll=1, inline=inline_policy, for_once=True, combinators=True).run() if o.kind in ('val', 'ret')]
        short = sub.split('>')[0].split('<')[0]
        ctx.add('X.encoder-paths', short, loc(B.root), len(outs) >= 1, 'no returning path')
        seen_opt = set()
        all_none = True
        for o in outs:
            v = o.val
            if v[0] != 'struct':
                ctx.fail('X.encoder-result', short, loc(B.root), 'encoder does not return a struct literal: %s' % absx.fmt(v)[:60]); continue
            fl = dict(v[2])
            name = fl.get('ctype') if kind == 'ctl' else fl.get('name')
            if kind == 'exop':
                name = name[2][0] if name and name[0] == 'ctor' and name[1] == 'Some' else ('unk',)
            if oid is not None:
                ctx.add('X.oid', short, loc(B.root), name == ('lit', oid), 'OID is %s, the defining RFC says %s' % (absx.fmt(name), oid))
            else:
                ctx.add('X.oid', short, loc(B.root), F('pr', '0', 'oid')(name, {}), 'OID does not come from the ReadEntry constructed by new()')
            if kind == 'ctl':
                ctx.add('X.criticality', short, loc(B.root), fl.get('crit') == ('lit', crit), 'default criticality is %s, expected %s' % (absx.fmt(fl.get('crit', ('unk',))), crit))
            val = fl.get('val', ('unk',))
            sig = ','.join(('' if t else '!') + absx.fmt(a)[:24] for a, t in o.st.pc)[:80] or 'plain'
            if spec == NONE:
                ctx.add('X.value', '%s|%s' % (short, sig), loc(B.root), val == ('ctor', 'None', ()), 'value must be absent, found %s' % absx.fmt(val)[:60])
            elif isinstance(spec, tuple) and spec[0] == RAW:
                ok = val[0] == 'ctor' and val[1] == 'Some' and spec[1](val[2][0], {})
                ctx.add('X.value', '%s|%s' % (short, sig), loc(B.root), ok, 'value must be the raw bytes of the field, found %s' % absx.fmt(val)[:60])
            else:
                if short.startswith('passmod') and val == ('ctor', 'None', ()):
                    # RFC 3062: the whole requestValue is omitted when no field is given
                    none3 = all(is_some_pc(F('pm', n))(o.st.pc) is False for n in ('user_id', 'old_pass', 'new_pass'))
                    ctx.add('X.value', '%s|%s' % (short, sig), loc(B.root), none3, 'requestValue omitted although a field is present')
                    continue
                all_none = False
                # the whole encoded buffer: `buf[..]` (any spelling of the copy) or the buffer itself
                ok = val[0] == 'ctor' and val[1] == 'Some' and val[2][0][0] == 'index' and val[2][0][1][0] == 'encoded' and val[2][0][2][0] == 'struct' and val[2][0][2][1].endswith('RangeFull')
                enc = val[2][0][1] if ok else None
                if not ok and val[0] == 'ctor' and val[1] == 'Some' and val[2][0][0] == 'encoded':
                    ok, enc = True, val[2][0]
                if not ok:
                    ctx.fail('X.value', '%s|%s' % (short, sig), loc(B.root), 'value is not Some(<whole encoded buffer>): %s' % absx.fmt(val)[:80]); continue
                env = {'elems': [], 'pc': o.st.pc}
                mism = compare(to_shape(enc[1]), spec, o.st.pc, env)
                ctx.add('X.value', '%s|%s' % (short, sig), loc(B.root), not mism, '; '.join(mism)[:400] or 'matches the RFC')
                if spec[0] == 'C':
                    for r in spec[3]:
                        if r[0] == 'OPT':
                            seen_opt.add((r[3], r[1](o.st.pc)))
        if isinstance(spec, tuple) and spec[0] == 'C':
            for r in spec[3]:
                if r[0] == 'OPT':
                    ctx.add('X.optional-both-ways', '%s|%s' % (short, r[3]), loc(B.root), (r[3], True) in seen_opt and (r[3], False) in seen_opt,
                            'optional element %s is not both present and absent depending on its field' % r[3])
        done += 1
    ctx.floor('X', 'encoders', done, 15)
    for p, oid in READ_ENTRY_OIDS.items():
        B = hirq.Body(f, f.body(p))
        ctx.analysed['bodies'].add(p)
        st = [n for n, c in walk(B.root) if n['k'] == 'Struct' and n.get('def', '').endswith('ReadEntry')]
        ok = len(st) == 1
        if ok:
            fl = {x['name']: x['e'] for x in st[0]['fields']}
            ok = hirq.const_eval(f, fl['oid']) == oid and B.origin(fl['attrs']) == (('param', 'attrs'), ())
        ctx.add('X.read-entry-oid', p.split('::')[-3], loc(B.root), ok, 'ReadEntry is not built with OID %s and the caller\'s attribute list' % oid)
    # CriticalControl
    cc = [p for p in f.hir if 'From<ldap3::controls_impl::CriticalControl<T>>' in p and p.endswith('::from')]
    B = hirq.Body(f, f.body(anchors.one('From<CriticalControl<T>>', cc)))
    ctx.analysed['bodies'].add(B.path)
    for o in absx.Interp(f, B).run():
        base = ('field', ('param', 'cc'), 'control')
        ok = o.val == base and o.st.heap.get(('field', base, 'crit')) == ('lit', True)
        ctx.add('X.critical-wrapper', 'CriticalControl', loc(B.root), ok, 'CriticalControl must encode the wrapped control and set crit = true')

    # ------------------------------------------------------------------ decoders
    def parse_paths(path, **kw):
        B = hirq.Body(f, f.body(path))
        ctx.analysed['bodies'].add(path)
        return B, [o for o in absx.Interp(f, B, unroll=1, **kw).run() if o.kind in ('val', 'ret') and o.val[0] == 'struct']
    CP = 'ldap3::controls_impl::ControlParser>::parse'
    # PagedResults
    B, outs = parse_paths('<ldap3::controls_impl::paged_results::PagedResults as ' + CP)
    ctx.floor('Y', 'PagedResults::parse success paths', len(outs), 1)
    for o in outs:
        fl = dict(o.val[2])
        size, cookie = fl.get('size', ('unk',)), fl.get('cookie', ('unk',))
        ok = nths(size) == [0] and all(c in calls_in(size) for c in ('parse_tag', 'expect_constructed', 'parse_uint', 'expect_primitive', 'match_id', 'match_class')) \
            and has_arg(size, 'match_id', lambda a: a == ('lit', 2)) and has_arg(size, 'match_class', lambda a: a == ('ctor', 'TagClass::Universal', ()))
        ctx.add('Y.paged.size', 'child 0', loc(B.root), ok, 'size is not parse_uint of child 0 as universal INTEGER primitive: %s' % absx.fmt(size)[:100])
        ctx.add('Y.paged.cookie', 'child 1', loc(B.root), nths(cookie) == [1] and 'expect_primitive' in calls_in(cookie), 'cookie is not the content of child 1')
        ctx.add('Y.paged.input', 'val', loc(B.root), 'parse_tag' in calls_in(size) and absx.leaves(size, lambda x: x == ('param', 'val')) != [], 'the parsed bytes are not the control value')
    # SyncState
    B, outs = parse_paths('<ldap3::controls_impl::content_sync::SyncState as ' + CP)
    table = {}
    for o in outs:
        fl = dict(o.val[2])
        stt = fl.get('state', ('unk',))
        code = [a[3][1] for a, t in o.st.pc if t and a[0] == 'bin' and a[1] == 'Eq' and a[3][0] == 'lit' and 'parse_uint' in calls_in(a[2]) and nths(a[2]) == [0]]
        if stt[0] == 'ctor' and code:
            table[code[0]] = stt[1]
            src = [a[2] for a, t in o.st.pc if t and a[0] == 'bin' and a[1] == 'Eq' and 'parse_uint' in calls_in(a[2])][0]
            ctx.add('Y.syncstate.state-source', str(code[0]), loc(B.root), has_arg(src, 'match_id', lambda a: a == ('lit', 10)) and has_arg(src, 'match_class', lambda a: a == ('ctor', 'TagClass::Universal', ())),
                    'state is not read from child 0 as universal ENUMERATED')
        ctx.add('Y.syncstate.uuid', absx.fmt(stt), loc(B.root), nths(fl.get('entry_uuid', ('unk',))) == [1] and 'expect_primitive' in calls_in(fl['entry_uuid']), 'entryUUID is not the content of child 1')
        ck = fl.get('cookie', ('unk',))
        ctx.add('Y.syncstate.cookie', absx.fmt(stt) + ('|some' if ck != ('ctor', 'None', ()) else '|none'), loc(B.root),
                ck == ('ctor', 'None', ()) or (ck[0] == 'ctor' and ck[1] == 'Some' and nths(ck) == [2] and 'expect_primitive' in calls_in(ck)), 'cookie is not the optional content of child 2')
    want = {0: 'EntryState::Present', 1: 'EntryState::Add', 2: 'EntryState::Modify', 3: 'EntryState::Delete'}     # RFC 4533 2.3
    ctx.add('Y.syncstate.state-table', 'EntryState', loc(B.root), table == want, 'state table %s, RFC 4533: %s' % (table, want))
    # SyncDone (for loop over the components)
    B, outs = parse_paths('<ldap3::controls_impl::content_sync::SyncDone as ' + CP, for_once=True)
    seen = set()
    for o in outs:
        fl = dict(o.val[2])
        ids = [a[3] for a, t in o.st.pc if t and a[0] == 'bin' and a[1] == 'Eq' and a[2][0] in ('field', 'vfield') and a[2][-1] == 'id']
        ck, rd = fl.get('cookie'), fl.get('refresh_deletes')
        # what the components seen so far have left in the two accumulators (loop-carried state of the component loop)
        cin = [e[2] for e in o.st.ev if e[0] == 'loop-carried' and e[3]['k'] == 'For']
        if ('lit', 4) in ids:
            seen.add('cookie')
            ok = ck[0] == 'ctor' and ck[1] == 'Some' and absx.leaves(ck, lambda x: x[0] == 'elem') and len(cin) == 2 and rd in cin and rd in (absx.TRUE, absx.FALSE)
            ctx.add('Y.syncdone.cookie', 'OCTET STRING', loc(B.root), ok, 'an OCTET STRING component must become the cookie and leave refreshDeletes as it was')
        elif ('lit', 1) in ids:
            seen.add('flag')
            idx = absx.leaves(rd, lambda x: x[0] == 'index')
            ok = rd[0] == 'not' and len(idx) == 1 and idx[0][2] == ('lit', 0) and rd[1] == ('bin', 'Eq', idx[0], ('lit', 0)) and len(cin) == 2 and ck in cin and ck[0] == 'carried'
            ctx.add('Y.syncdone.refresh-deletes', 'BOOLEAN', loc(B.root), ok, 'a BOOLEAN component must become refreshDeletes = content[0] != 0 and leave the cookie as it was')
    empty = [o for o in absx.Interp(f, B, unroll=1).run() if o.kind in ('val', 'ret') and o.val[0] == 'struct' and dict(o.val[2]).get('cookie') == ('ctor', 'None', ()) and dict(o.val[2]).get('refresh_deletes') == ('lit', False)]
    ctx.add('Y.syncdone.defaults', 'empty sequence', loc(B.root), bool(empty), 'an empty SyncDone value must decode to (no cookie, refreshDeletes FALSE)')
    for need in ('cookie', 'flag'):
        ctx.add('Y.syncdone.coverage', need, loc(B.root), need in seen, 'no decoder path for the %s component' % need)
    # parse_syncinfo
    check_syncinfo(ctx, f)
    # the control envelope both ways (shared rule functions)
    from props import C02, C03
    C02.check_envelope(ctx, f, 'Z')
    C03.check_parse_controls(ctx, f, 'Z')
    # ReadEntryResp
    B = hirq.Body(f, f.body('<ldap3::controls_impl::read_entry::ReadEntryResp as ' + CP))
    ctx.analysed['bodies'].add(B.path)
    outs = [o for o in absx.Interp(f, B).run() if o.kind in ('val', 'ret') and o.val[0] == 'struct']
    for o in outs:
        fl = dict(o.val[2])
        se = fl.get('attrs', ('unk',))[1] if fl.get('attrs', ('unk',))[0] == 'field' else None
        ok = se is not None and se[0] == 'call' and se[1] == 'ldap3::search::SearchEntry::construct' and fl.get('bin_attrs') == ('field', se, 'bin_attrs') and fl['attrs'][2] == 'attrs'
        ok = ok and 'parse_tag' in calls_in(se) and absx.leaves(se, lambda x: x == ('param', 'val')) != []
        ctx.add('Y.readentry', 'attrs/bin_attrs', loc(B.root), ok, 'ReadEntryResp is not SearchEntry::construct of the parsed value (C15 decides construct)')
    ctx.floor('Y', 'ReadEntryResp paths', len(outs), 1)
    # PasswordModifyResp
    B, outs = parse_paths('<ldap3::exop_impl::passmod::PasswordModifyResp as ldap3::exop_impl::ExopParser>::parse')
    for o in outs:
        g = dict(o.val[2]).get('gen_pass', ('unk',))
        ok = nths(g) == [0] and 'from_utf8' in calls_in(g) and 'expect_primitive' in calls_in(g) and has_arg(g, 'match_id', lambda a: a == ('lit', 0)) \
            and has_arg(g, 'match_class', lambda a: a == ('ctor', 'TagClass::Context', ()))
        ctx.add('Y.passmod.genpasswd', '[0]', loc(B.root), ok, 'genPasswd is not the UTF-8 content of child 0 required to be [0] context primitive (RFC 3062)')
    ctx.floor('Y', 'PasswordModifyResp paths', len(outs), 1)
    for path, field in (('<ldap3::exop_impl::whoami::WhoAmIResp as ldap3::exop_impl::ExopParser>::parse', 'authzid'),
                        ('<ldap3::exop_impl::txn::StartTxnResp as ldap3::exop_impl::ExopParser>::parse', 'txn_id')):
        B, outs = parse_paths(path)
        for o in outs:
            g = dict(o.val[2]).get(field, ('unk',))
            fu = absx.leaves(g, lambda x: x[0] == 'call' and x[1].endswith('from_utf8'))
            ok = len(fu) == 1 and fu[0][2][0] == ('param', 'val') and not nths(g)
            ctx.add('Y.whole-value-utf8', path.split('::')[-3] if False else field, loc(B.root), ok, '%s is not the whole response value as UTF-8' % field)
        ctx.floor('Y', field + ' paths', len(outs), 1)


def check_syncinfo(ctx, f):
    p = 'ldap3::controls_impl::content_sync::parse_syncinfo'
    B = hirq.Body(f, f.body(p))
    ctx.analysed['bodies'].add(p)
    outs = absx.Interp(f, B, unroll=2).run()
    got = {}
    for o in outs:
        if o.kind not in ('val', 'ret') or o.val[0] not in ('ctor', 'struct'):
            continue
        v = o.val
        # the CHOICE tag examined on this path
        ids = [a[3][1] for a, t in o.st.pc if t and a[0] == 'bin' and a[1] == 'Eq' and a[3][0] == 'lit' and a[2][0] in ('field', 'vfield') and a[2][-1] == 'id' and 'parse_tag' in calls_in(a[2])]
        if not ids:
            continue
        cid = ids[-1]
        name = v[1]
        flag = None
        if v[0] == 'struct':
            fl = dict(v[2])
            fv = fl.get('refresh_done', fl.get('refresh_deletes'))
            flag = eval_under(o.st, fv)
            # only the paths on which no component was present give the defaults
            if fl.get('cookie') != ('ctor', 'None', ()) or absx.leaves(fv, lambda x: x[0] == 'index'):
                continue
        got.setdefault(cid, set()).add((name, flag))
    want = {0: {('SyncInfo::NewCookie', None)}, 1: {('SyncInfo::RefreshDelete', True)}, 2: {('SyncInfo::RefreshPresent', True)}, 3: {('SyncInfo::SyncIdSet', False)}}
    for cid in sorted(set(got) | set(want)):
        ctx.add('Y.syncinfo.choice', '[%d]' % cid, loc(B.root), got.get(cid) == want.get(cid),
                'syncInfoValue [%d] decodes to %s with default flag; RFC 4533: %s (refreshDone DEFAULT TRUE, refreshDeletes DEFAULT FALSE)' % (cid, sorted(got.get(cid, []), key=str), sorted(want.get(cid, []), key=str)))
    # outer framing: responseName [0] must equal the Sync Info OID, value in [1], message must be IntermediateResponse (25)
    oid_ok = any(n['k'] == 'Binary' and n['op'] == 'Ne' and hirq.const_eval(f, n['r']) == '1.3.6.1.4.1.4203.1.9.1.4' for n, c in walk(B.root))
    ctx.add('Y.syncinfo.oid', 'responseName', loc(B.root), oid_ok, 'the intermediate response name is not compared with 1.3.6.1.4.1.4203.1.9.1.4')
    m25 = any(n['k'] == 'MethodCall' and n['name'] == 'match_id' and hirq.const_eval(f, n['args'][0]) == 25 for n, c in walk(B.root))
    ctx.add('Y.syncinfo.intermediate', '25', loc(B.root), m25, 'the entry is not required to be an IntermediateResponse (25)')
    # per-component table inside [1..3]: OCTET STRING -> cookie, BOOLEAN -> flag, SET -> uuids
    comp = {}
    for n, c in walk(B.root):
        if n['k'] == 'Match':
            for a in n['arms']:
                g = a.get('guard')
                if g is None:
                    continue
                tys = [hirq.short_def(x.get('ctor_of') or x.get('def') or '') for x, _ in walk(g) if x['k'] == 'Path' and 'universal::Types::' in (x.get('def') or '')]
                asg = [hirq.local_of(x['l']) for x, _ in walk(a['body']) if x['k'] == 'Assign']
                names = [B.defs[b]['name'] for b in asg if b in B.defs]
                if tys and names:
                    comp[tys[0]] = names[0]
    want_c = {'Types::OctetString': 'sync_cookie', 'Types::Boolean': 'flag', 'Types::Set': 'uuids'}
    ctx.add('Y.syncinfo.components', 'cookie/flag/uuids', loc(B.root), comp == want_c, 'component table %s, expected %s' % (comp, want_c))

def eval_under(st, t):
    if t is None:
        return None
    if t[0] == 'lit':
        return t[1]
    if t[0] == 'not':
        r = eval_under(st, t[1])
        return None if r is None else (not r)
    k = st.known(t)
    return k
