"""C19 - control and extended-operation values round-trip through their codecs."""
from facts import walk, callee_of, call_args, loc
import sem, hirq, anchors, absx
from shapes import *

EXPLANATION = ("Encoders: every `From<X> for RawControl` / `From<X> for Exop` is abstractly evaluated once per member of the finite partition of its input - every Option field of X Some / None x every bool field true / false, all combinations, the fields fixed to variant / literal knowledge - (all paths of each member) and the OID constant, "
               "the default criticality and the ASN.1 shape of the encoded value - with the struct field feeding each slot and the "
               "presence condition of each optional element - are compared with the defining RFC (2696, 4533, 4527, 4528, 3876, 4370, "
               "5805, 3296, 3062, 4532, 4511, draft relax); CriticalControl sets criticality on the wrapped control's own encoding. "
               "Decoders: PagedResults, SyncState, SyncDone, parse_syncinfo, ReadEntryResp, PasswordModifyResp, WhoAmIResp, StartTxnResp - "
               "which child ordinal / tag feeds which field, required class/tag checks, the EntryState and SyncInfo choice tables and the "
               "RFC 4533 defaults (refreshDone TRUE, refreshDeletes FALSE). Integer fields of response values (PagedResults size, the SyncState ENUMERATED): the decoder is interpreted with the component's content octets fixed to literal strings of every length 0..12 (distinct, high-bit, all-ones, zero-padded) and the field must be the big-endian value modulo the cast to the field's type - whichever function reads the octets (parse_uint, a local helper, a loop in place). Y.opaque-octets-total: a component its RFC defines as opaque octets (transaction identifier, generated password, cookies, UUIDs) is decoded by a total function - a decoder that applies a UTF-8 test has a returning path for the test failing. Y.optional-absent: for every OPTIONAL / DEFAULT component of a response value's RFC shape the decoder has a returning path on which the cursor read at that position was not taken to have yielded an element (a read whose None flows into expect / unwrap leaves no such path). Envelope (Z13/Z14 encoder, Z.* decoder; the same rule functions as C02 S13/S14 and C03 T3): for every member of the partition control list Some / None x criticality true / false x value Some / None a control list is encoded as [0]{SEQ{OCTET type, BOOLEAN TRUE only-if critical, OCTET value only-if present}*} and the list decoder, interpreted exactly on every literal list of 0..3 controls over the ways the two optional components can be written (C03 T3), returns one entry per element in the order of the elements (a control list survives the envelope unchanged: same controls, same order), each with its own element's type, criticality = content octet != 0 (absent: false) and value (absent: None). "
               "Z15 the control list of an entry / referral reaches the caller (C10's Q2). Z16 a value of any content length is framed exactly: the one length writer under every encoder emits the minimal definite form for every length (C07's B2m threshold partition). "
               "Not decided: byte-level equality of arbitrary cookies; the rest of lber's serialisation (C07).")
TRUSTED = ['lber serialisation of a shape (C07)', 'RFC tables transcribed in this module']
UNDECIDED = ['byte-level equality of arbitrary field contents', 'EndTxnResp (not in the property\'s list of response values)']
ASSUMPTIONS = []
SHARED = [('C03', ('T1.dispatch',), 'Y0.response-name-and-value'),
          # "a control list survives the message envelope unchanged": for the messages of a Search that are not its result - entries and
          # continuation references - the decoded control list travels next to the protocolOp through the item channel; what the stream
          # hands out must be (tag, that list) for both kinds, whoever builds the value
          ('C10', ('Q2.entry-from-received-item', 'Q2.coverage'), 'Z15.item-controls-reach-the-caller'),
          # "for all field values ... sizes, cookies of any length and content" / "the emitted ... BER value [is the one] the defining RFC
          # prescribes" / "a control list survives the message envelope unchanged": X and Z13 / Z14 decide the *shape* of every value and
          # of the control list for all field values; that a component of any content length - a 250-octet paging cookie inside a
          # 256-octet SEQUENCE, a 256-octet control value or password - is then framed so that the peer finds its end where it is rests
          # on the one length writer every encoder and the envelope go through: `write_length(n)` emits the definite form of n, with
          # exactly as many length octets as n needs, for every n (C07's threshold-partition argument B2m.*).  (seed C19l: the octet
          # count loop as `while len > 256`: a content of exactly 256 octets goes out as `81 00`)
          ('C07', ('B2m.',), 'Z16.value-of-any-length-is-framed-exactly')]
# Y0: the name and value every extended-response parser starts from are lifted out of the ExtendedResponse by the LDAPResult decoder: [10] and [11], present = Some, whatever they contain

def inline_policy(c):
    """Default impls and every function of the control / exop modules themselves (private helpers, integer conversions of their
    enums) are evaluated interprocedurally; the filter compiler is not (the spec names its call)."""
    return c.endswith('core::default::Default>::default') or 'ldap3::controls_impl::' in c or 'ldap3::exop_impl::' in c

def any_param(t, env=None):
    """the (single) parameter of the conversion / parser, whatever it is called"""
    return strip(t)[0] == 'param'
def F(_p, *names):
    return field_of(any_param, *names)
def some_of(pred):
    return lambda t, env: t[0] == 'variant' and t[2] == 'Some' and t[3] == 0 and pred(t[1], env)
def is_some_pc(pred):
    def f(pc):
        for a, t in pc:
            if a[0] == 'is' and a[2] in ('Some', 'None') and pred(a[1], {}):
                return t if a[2] == 'Some' else (not t)
        return None
    return f
def truthy_pc(pred, negate=False):
    def f(pc):
        for a, t in pc:
            if pred(a, {}):
                return (not t) if negate else t
        return None
    return f
def known_bool(pred):
    """the boolean field itself, or the literal the path condition pins it to (`if x { .. true .. }`)"""
    def f(t, env):
        if pred(t, env):
            return True
        if t[0] == 'lit' and isinstance(t[1], bool):
            for a, tr in env.get('pc', ()):
                if pred(a, env):
                    return tr == t[1]
        return False
    return f
def sync_mode(t, env):
    """RFC 4533: mode ENUMERATED { refreshOnly (1), refreshAndPersist (3) }, selected by the request's `mode` field (whichever
    variant the code tests for)"""
    import sem
    only = sem.variant_truth(env['pc'], lambda x: F('sr', 'mode')(x, env), 'RefreshMode::RefreshOnly', ['RefreshMode::RefreshOnly', 'RefreshMode::RefreshAndPersist'])
    return only is not None and t == ('lit', 1 if only else 3)

RAW, NONE = 'raw', 'none'
ENCODERS = [
    # (substring of the impl path, struct, expected OID, default criticality, value spec)
    ('paged_results::PagedResults> for', 'ctl', '1.2.840.113556.1.4.319', False, SEQ(INT(F('pr', 'size')), OCT(F('pr', 'cookie')))),
    ('content_sync::SyncRequest> for', 'ctl', '1.3.6.1.4.1.4203.1.9.1.1', False,
     SEQ(ENUM(sync_mode), OPT(is_some_pc(F('sr', 'cookie')), OCT(some_of(F('sr', 'cookie'))), 'cookie'),
         OPT(truthy_pc(F('sr', 'reload_hint')), BOOL(known_bool(F('sr', 'reload_hint'))), 'reloadHint'))),
    ('read_entry::PreRead<S>> for', 'ctl', None, False, SEQ(MANY(F('pr', '0', 'attrs'), OCT(elem())))),
    ('read_entry::PostRead<S>> for', 'ctl', None, False, SEQ(MANY(F('pr', '0', 'attrs'), OCT(elem())))),
    ('assertion::Assertion<S>> for', 'ctl', '1.3.6.1.1.12', False,
     ANY(lambda t, env: t[0] == 'variant' and t[2] == 'Ok' and t[1][0] == 'call' and t[1][1] == 'ldap3::filter::parse' and F('assn', 'filter')(t[1][2][0], env))),
    ('matched_values::MatchedValues<S>> for', 'ctl', '1.2.826.0.1.3344810.2.3', False,
     ANY(lambda t, env: t[0] == 'variant' and t[2] == 'Ok' and t[1][0] == 'call' and t[1][1] == 'ldap3::filter::parse_matched_values' and F('assn', 'filter')(t[1][2][0], env))),
    ('proxy_auth::ProxyAuth> for', 'ctl', '2.16.840.1.113730.3.4.18', True, (RAW, F('pa', 'authzid'))),
    ('txn::TxnSpec<\'a>> for ldap3::controls_impl::RawControl', 'ctl', '1.3.6.1.1.21.2', True, (RAW, F('txn', 'txn_id'))),
    ('manage_dsa_it::ManageDsaIt> for', 'ctl', '2.16.840.1.113730.3.4.2', False, NONE),
    ('relax_rules::RelaxRules> for', 'ctl', '1.3.6.1.4.1.4203.666.5.12', False, NONE),
    ('whoami::WhoAmI> for', 'exop', '1.3.6.1.4.1.4203.1.11.3', None, NONE),
    ('starttls::StartTLS> for', 'exop', '1.3.6.1.4.1.1466.20037', None, NONE),
    ('txn::StartTxn> for', 'exop', '1.3.6.1.1.21.1', None, NONE),
    ('txn::EndTxn<\'a>> for', 'exop', '1.3.6.1.1.21.3', None,
     SEQ(OPT(truthy_pc(F('et', 'commit'), negate=True), BOOL(lit(False)), 'commit'), OCT(F('et', 'txn_id')))),
    ('passmod::PasswordModify<\'a>> for', 'exop', '1.3.6.1.4.1.4203.1.11.1', None,
     SEQ(OPT(is_some_pc(F('pm', 'user_id')), P('OCT', 'C', 0, some_of(F('pm', 'user_id'))), 'userIdentity'),
         OPT(is_some_pc(F('pm', 'old_pass')), P('OCT', 'C', 1, some_of(F('pm', 'old_pass'))), 'oldPasswd'),
         OPT(is_some_pc(F('pm', 'new_pass')), P('OCT', 'C', 2, some_of(F('pm', 'new_pass'))), 'newPasswd'))),
]
READ_ENTRY_OIDS = {'ldap3::controls_impl::read_entry::PreRead::<S>::new': '1.3.6.1.1.13.1', 'ldap3::controls_impl::read_entry::PostRead::<S>::new': '1.3.6.1.1.13.2'}

def calls_in(t):
    return [x[1].rsplit('::', 1)[-1] for x in absx.leaves(t, lambda x: x[0] == 'call')]
def nths(t):
    return sorted({x[3] for x in absx.leaves(t, lambda x: x[0] == 'nth')})
def has_arg(t, callee_suffix, pred):
    return any(pred(a) for x in absx.leaves(t, lambda x: x[0] == 'call' and x[1].endswith(callee_suffix)) for a in x[2][1:])


# ---------------------------------------------------------------------------------------
# Integer fields of response values.  Which function turns the content octets into the integer - lber's parse_uint, a local
# helper, a fold or a loop written in place - is not read off the source: the decoder itself is interpreted with the primitive
# content of the component fixed to a literal octet string, for every string of a finite set chosen as in C07 B6 / C03
# T1.unsigned-reader-big-endian (every length 0..12; distinct octets, high-bit octets, all-ones, zero-padded forms), and the value
# that reaches the field must be the big-endian value of the octets, taken modulo the cast to the field's type (`as i32` of the
# u64 = the low 32 bits read as two's complement).  Nothing of the library is executed: the typed HIR is interpreted on literals.

def int_vectors():
    vecs = [b'\xc8', b'\x03\xe8', b'\x00\xc8', b'\x7f\xff\xff\xff']      # page sizes 200, 1000, 200 with a sign octet, maxInt
    for n in range(0, 9):
        vecs += [bytes(range(1, n + 1)), bytes(0x80 + i for i in range(n)), b'\xff' * n, b'\x00' * n]
        if n:
            vecs += [b'\x00' * (n - 1) + b'\x81', b'\x7f' + b'\x00' * (n - 1)]
    for pad in range(1, 5):
        vecs += [b'\x00' * pad + bytes(range(1, 9)), b'\x00' * pad + b'\xff' * 8, b'\x00' * (pad + 7) + b'\x2a', b'\x00' * pad + b'\x01\x00']
    vecs += [bytes([v]) for v in range(0, 6)] + [b'\x00' + bytes([v]) for v in range(0, 4)] + [b'\x01\x00', b'\x01\x01']
    return sorted(set(vecs), key=lambda x: (len(x), x))

def literal_inline(c):
    """the decoders' own modules and lber's unsigned reader are interpreted; everything else stays an opaque call (so a reader
    the interpreter cannot follow leaves a non-literal in the field and the rule fails closed)"""
    return 'ldap3::controls_impl::' in c or 'ldap3::exop_impl::' in c or c == 'lber::parse::parse_uint'

def eval_with_content(f, B, ordinal, octets, reads=None):
    """The paths of decoder B when the primitive content of the component read at cursor position `ordinal` is the literal octet
    string (either spelling of "the content": expect_primitive() of that element, or its PL::P payload); everything else about the
    value stays symbolic.  `reads` collects what the content was taken from: ('checked', t) for expect_primitive(t) - t shows the
    class / tag requirements the element had to pass -, ('payload', t) for the payload field of element t."""
    of = lambda t: nths(t) == [ordinal]
    def note(r):
        if reads is not None and r not in reads:
            reads.append(r)
    def content(I, cal, args, node, st):
        if cal.endswith('::expect_primitive') and len(args) == 1 and of(args[0]):
            note(('checked', args[0]))
            return [absx.Out('val', ('ctor', 'Some', (('lit', octets),)), st)]
        return None
    def payload(base, name, st):
        if name == 'payload' and of(base):
            note(('payload', base))
            return ('ctor', 'PL::P', (('lit', octets),))
        return None
    return absx.Interp(f, B, summaries=[content], unroll=16, inline=literal_inline, field_hook=payload, combinators=True).run()

def source_is(reads, tagno):
    """every place the literal content was substituted at is the content of an element of the parsed input's child sequence that
    had to pass match_class(Universal) and match_id(tagno) first (the term handed to expect_primitive is the result of that chain)"""
    return bool(reads) and all(k == 'checked' and has_arg(t, 'match_id', lambda a: a == ('lit', tagno))
                               and has_arg(t, 'match_class', lambda a: a == ('ctor', 'TagClass::Universal', ()))
                               and all(c in calls_in(t) for c in ('parse_tag', 'expect_constructed')) and absx.leaves(t, lambda x: x[0] == 'param') != []
                               for k, t in reads)

def wrap_int(v, ty):
    rng = absx.INT_RANGE[ty]
    return (v - rng[0]) % (rng[1] - rng[0] + 1) + rng[0]

def field_type(f, struct_path, field):
    for v in f.items[struct_path]['variants']:
        for fl in v['fields']:
            if fl['name'] == field:
                return fl['ty']
    return None

def check_int_field(ctx, f, B, rule, inst, ordinal, struct_path, field):
    """field `field` of the decoded struct = big-endian value of the content octets of component `ordinal`, modulo the field's type"""
    ty = field_type(f, struct_path, field)
    if ty not in absx.INT_RANGE:
        ctx.fail(rule, inst, loc(B.root), 'field %s of %s has type %s, not an integer type' % (field, struct_path, ty)); return
    wrong, vecs, reads = [], int_vectors(), []
    for v in vecs:
        outs = [o for o in eval_with_content(f, B, ordinal, v, reads) if o.kind != 'div']
        want = wrap_int(int.from_bytes(v, 'big'), ty)
        got = [dict(o.val[2]).get(field, ('unk',)) if o.kind in ('val', 'ret') and o.val[0] == 'struct' else ('unk', o.kind) for o in outs]
        if not got or any(g != ('lit', want) for g in got):
            wrong.append((v.hex() or '(empty)', sorted({absx.fmt(g)[:40] for g in got}) or 'no returning path', want))
    high = [w for w in wrong if any(c >= '8' for c in w[0][::2])]
    ctx.add(rule, inst, loc(B.root), not wrong,
            'the integer reader does not yield the big-endian value of the content octets (as %s): evaluated exactly on %d literal octet strings '
            '(lengths 0..12), %d differ%s; (octets, decoded, big-endian value as %s): %s'
            % (ty, len(vecs), len(wrong), ', all of them with an octet >= 0x80' if wrong and len(high) == len(wrong) else '', ty, wrong[:4]))
    return reads

def check_encoded(ctx, B, short, kind, oid, crit, spec, o, pc, cname):
    """One returning path `o` of an encoder, evaluated for one member of its input partition: `pc` is the member stated as
    path-condition atoms followed by the path's own conditions (those on the fields that are not partitioned: the refresh mode)."""
    v = o.val
    # (the requestValue of an extended operation is also part of C02's "the bytes written are exactly the requested operation":
    # the Exop encoders report under a name of their own so that C02 can take exactly them over, see C02.SHARED)
    RV = 'X.value' if kind == 'ctl' else 'X.value.exop'
    if v[0] != 'struct':
        ctx.fail('X.encoder-result', short, loc(B.root), 'encoder does not return a struct literal: %s' % absx.fmt(v)[:60]); return
    fl = dict(v[2])
    name = fl.get('ctype') if kind == 'ctl' else fl.get('name')
    if kind == 'exop':
        name = name[2][0] if name and name[0] == 'ctor' and name[1] == 'Some' else ('unk',)
    if oid is not None:
        ctx.add('X.oid', short, loc(B.root), name == ('lit', oid), 'OID is %s, the defining RFC says %s' % (absx.fmt(name), oid))
    else:
        ctx.add('X.oid', short, loc(B.root), F('pr', '0', 'oid')(name, {}), 'OID does not come from the ReadEntry constructed by new()')
    if kind == 'ctl':
        ctx.add('X.criticality', short, loc(B.root), fl.get('crit') == ('lit', crit), 'default criticality is %s, expected %s' % (absx.fmt(fl.get('crit', ('unk',))), crit))
    val = fl.get('val', ('unk',))
    own = ','.join(('' if t else '!') + absx.fmt(a)[:24] for a, t in o.st.pc)[:80]
    inst = '%s|%s' % (short, cname + ('; ' + own if own else ''))
    if spec == NONE:
        ctx.add(RV, inst, loc(B.root), val == ('ctor', 'None', ()), 'value must be absent, found %s' % absx.fmt(val)[:60])
    elif isinstance(spec, tuple) and spec[0] == RAW:
        ok = val[0] == 'ctor' and val[1] == 'Some' and spec[1](val[2][0], {})
        ctx.add(RV, inst, loc(B.root), ok, 'value must be the raw bytes of the field, found %s' % absx.fmt(val)[:60])
    else:
        # which side of each optional element this member of the partition is on (X.optional-both-ways: the partition reaches both)
        sides = {(r[3], r[1](pc)) for r in spec[3] if r[0] == 'OPT'} if spec[0] == 'C' and not undecided_optionals(spec, pc) else set()
        if short.startswith('passmod') and val == ('ctor', 'None', ()):
            # RFC 3062: the whole requestValue is omitted when no field is given
            none3 = all(is_some_pc(F('pm', n))(pc) is False for n in ('user_id', 'old_pass', 'new_pass'))
            ctx.add(RV, inst, loc(B.root), none3, 'for a value with %s: requestValue omitted although a field is present' % cname)
            return sides
        # the whole encoded buffer: `buf[..]` (any spelling of the copy) or the buffer itself
        ok = val[0] == 'ctor' and val[1] == 'Some' and val[2][0][0] == 'index' and val[2][0][1][0] == 'encoded' and val[2][0][2][0] == 'struct' and val[2][0][2][1].endswith('RangeFull')
        enc = val[2][0][1] if ok else None
        if not ok and val[0] == 'ctor' and val[1] == 'Some' and val[2][0][0] == 'encoded':
            ok, enc = True, val[2][0]
        if not ok:
            ctx.fail(RV, inst, loc(B.root), 'value is not Some(<whole encoded buffer>): %s' % absx.fmt(val)[:80]); return
        und = undecided_optionals(spec, pc)
        if und:
            # (cannot happen while every presence condition of the reference is a field of the partition: fail closed if it does)
            ctx.fail(RV, inst, loc(B.root), 'the presence of %s is not decided for this member of the input partition' % ', '.join(und)); return
        env = {'elems': [], 'pc': pc}
        mism = compare(to_shape(enc[1]), spec, pc, env)
        ctx.add(RV, inst, loc(B.root), not mism, ('for a value with %s: ' % cname) + ('; '.join(mism)[:400] or 'matches the RFC'))
        return sides

def run(ctx):
    f = ctx.facts
    # ------------------------------------------------------------------ encoders
    froms = [p for p in f.hir if p.endswith('::from') and 'core::convert::From<' in p and ('for ldap3::controls_impl::RawControl' in p or 'for ldap3::exop_impl::Exop' in p)]
    done = ncases = 0
    for sub, kind, oid, crit, spec in ENCODERS:
        cands = [p for p in froms if sub in p]
        if len(cands) != 1:
            ctx.fail('anchor-missing', 'encoder ' + sub, '', 'expected one From impl matching %s, found %d' % (sub, len(cands))); continue
        p = cands[0]
        B = hirq.Body(f, f.hir[p])
        ctx.analysed['bodies'].add(p)
        short = sub.split('>')[0].split('<')[0]
        # the finite partition of the encoder's input: every Option field Some / None, every bool field true / false (all
        # combinations - the presence conditions of an RFC's OPTIONAL / DEFAULT components are independent of each other); the encoder
        # is interpreted once per member with those fields fixed, and what it emits is compared with the RFC shape of that member
        pdefs = [d for d in B.defs.values() if d['kind'] == 'param']
        pty = f.hir[p]['params'][0].get('ty') if len(f.hir[p]['params']) == 1 else None
        fields = partition_fields(f, pty) if pty else None
        if fields is None:
            ctx.fail('X.encoder-input', short, loc(B.root), 'the value being encoded is not a struct whose fields can be read (%s)' % pty); continue
        # (a parameter the signature does not bind - `_: StartTxn` - is never read: any name will do)
        base = ('param', '#0') if not pdefs else ('param', pdefs[0]['name']) if not pdefs[0]['proj'] else ('param', '#%d' % pdefs[0]['idx'])
        cases = partition_cases(fields)
        ncases += len(cases)
        seen_opt = set()
        for case in cases:
            hook = CaseHook(lambda b, base=base: b == base, case)
            I = absx.Interp(f, B, unroll=1, inline=inline_policy, for_once=True, combinators=True, field_hook=hook)
            # with the Option / bool fields fixed, a component list built by an iterator chain over an array of those fields
            # (`[a, b, c].into_iter().flatten().enumerate().map(..).collect()`) is a sequence known by position at every stage
            I.listed_seqs = True
            outs = [o for o in I.run(env=hook.env(I.param_env())) if o.kind in ('val', 'ret')]
            cname = case_name(case)
            ctx.add('X.encoder-paths', '%s|%s' % (short, cname), loc(B.root), len(outs) >= 1, 'no returning path for a value with %s' % cname)
            for o in outs:
                seen_opt |= check_encoded(ctx, B, short, kind, oid, crit, spec, o, case_atoms(base, case) + o.st.pc, cname) or set()
        if isinstance(spec, tuple) and spec[0] == 'C':
            # (implied by X.value holding on every member; kept as the statement that the partition reaches both sides of every
            # optional element: a struct that lost the field which decides an element's presence has no member on one side)
            for r in spec[3]:
                if r[0] == 'OPT':
                    ctx.add('X.optional-both-ways', '%s|%s' % (short, r[3]), loc(B.root), (r[3], True) in seen_opt and (r[3], False) in seen_opt,
                            'optional element %s is not both present and absent depending on its field' % r[3])
        done += 1
    ctx.floor('X', 'encoders', done, 15)
    ctx.floor('X', 'members of the encoders\' input partitions evaluated', ncases, 26)
    for p, oid in READ_ENTRY_OIDS.items():
        B = hirq.Body(f, f.body(p))
        ctx.analysed['bodies'].add(p)
        st = [n for n, c in walk(B.root) if n['k'] == 'Struct' and n.get('def', '').endswith('ReadEntry')]
        ok = len(st) == 1
        if ok:
            fl = {x['name']: x['e'] for x in st[0]['fields']}
            ok = hirq.const_eval(f, fl['oid']) == oid and B.origin(fl['attrs'])[0][0] == 'param' and B.origin(fl['attrs'])[1] == ()
        ctx.add('X.read-entry-oid', p.split('::')[-3], loc(B.root), ok, 'ReadEntry is not built with OID %s and the caller\'s attribute list' % oid)
    # CriticalControl
    cc = [p for p in f.hir if 'From<ldap3::controls_impl::CriticalControl<T>>' in p and p.endswith('::from')]
    B = hirq.Body(f, f.body(anchors.one('From<CriticalControl<T>>', cc)))
    ctx.analysed['bodies'].add(B.path)
    for o in absx.Interp(f, B).run():
        base = o.val
        ok = F('cc', 'control')(base, {}) and o.st.heap.get(('field', base, 'crit')) == ('lit', True)
        ctx.add('X.critical-wrapper', 'CriticalControl', loc(B.root), ok, 'CriticalControl must encode the wrapped control and set crit = true')

    # ------------------------------------------------------------------ decoders
    def parse_paths(path, **kw):
        B = hirq.Body(f, f.body(path))
        ctx.analysed['bodies'].add(path)
        return B, [o for o in absx.Interp(f, B, unroll=1, **kw).run() if o.kind in ('val', 'ret') and o.val[0] == 'struct']
    CP = 'ldap3::controls_impl::ControlParser>::parse'
    # PagedResults
    B, outs = parse_paths('<ldap3::controls_impl::paged_results::PagedResults as ' + CP)
    ctx.floor('Y', 'PagedResults::parse success paths', len(outs), 1)
    for o in outs:
        fl = dict(o.val[2])
        size, cookie = fl.get('size', ('unk',)), fl.get('cookie', ('unk',))
        ctx.add('Y.paged.cookie', 'child 1', loc(B.root), nths(cookie) == [1] and 'expect_primitive' in calls_in(cookie), 'cookie is not the content of child 1')
        ctx.add('Y.paged.input', 'val', loc(B.root), 'parse_tag' in calls_in(cookie) and absx.leaves(cookie, lambda x: x[0] == 'param') != [], 'the parsed bytes are not the control value')
    # the size: how the content octets of child 0 become the integer is decided by literal evaluation, whatever function does it;
    # where they come from is read off the term the content was taken from (not off the size term, which is a loop-carried
    # value when the reader is a loop written in place)
    reads = check_int_field(ctx, f, B, 'Y.paged.size', 'integer reader', 0, 'ldap3::controls_impl::paged_results::PagedResults', 'size')
    ctx.add('Y.paged.size', 'child 0', loc(B.root), source_is(reads or [], 2),
            'size is not computed from the content of child 0 of the parsed control value, required to be a universal INTEGER primitive: content taken from %s' % [(k, absx.fmt(t)[:100]) for k, t in (reads or [])][:2])
    # SyncState
    B, outs = parse_paths('<ldap3::controls_impl::content_sync::SyncState as ' + CP)
    for o in outs:
        fl = dict(o.val[2])
        stt = fl.get('state', ('unk',))
        ctx.add('Y.syncstate.uuid', absx.fmt(stt), loc(B.root), nths(fl.get('entry_uuid', ('unk',))) == [1] and 'expect_primitive' in calls_in(fl['entry_uuid']), 'entryUUID is not the content of child 1')
        ck = fl.get('cookie', ('unk',))
        ctx.add('Y.syncstate.cookie', absx.fmt(stt) + ('|some' if ck != ('ctor', 'None', ()) else '|none'), loc(B.root),
                ck == ('ctor', 'None', ()) or (ck[0] == 'ctor' and ck[1] == 'Some' and nths(ck) == [2] and 'expect_primitive' in calls_in(ck)), 'cookie is not the optional content of child 2')
    # which state each value denotes: the decoder is interpreted with the ENUMERATED's content fixed to literal octet strings (the
    # integer reader - parse_uint or any other - and the selection of the variant are evaluated exactly, see check_int_field)
    want = {0: 'EntryState::Present', 1: 'EntryState::Add', 2: 'EntryState::Modify', 3: 'EntryState::Delete'}     # RFC 4533 2.2
    table, wrong, vecs, reads = {}, [], int_vectors(), []
    for v in vecs:
        res = [o for o in eval_with_content(f, B, 0, v, reads) if o.kind != 'div']
        val = int.from_bytes(v, 'big')
        got = sorted({absx.fmt(dict(o.val[2]).get('state', ('unk',)))[:30] if o.kind in ('val', 'ret') and o.val[0] == 'struct' else o.kind for o in res})
        if len(v) == 1 and len(got) == 1:
            table[val] = got[0]
        if got != ([want[val]] if val in want else []):
            wrong.append((v.hex() or '(empty)', got or 'rejected', want.get(val, 'rejected')))
    ctx.add('Y.syncstate.state-table', 'EntryState', loc(B.root), not wrong and table == want,
            'state table %s, RFC 4533: %s; evaluated exactly on %d literal contents of the ENUMERATED, (octets, decoded state, expected) differ at %s' % (table, want, len(vecs), wrong[:4]))
    ctx.add('Y.syncstate.state-source', 'child 0', loc(B.root), source_is(reads, 10),
            'state is not read from the content of child 0 of the parsed control value, required to be a universal ENUMERATED primitive: content taken from %s' % [(k, absx.fmt(t)[:100]) for k, t in reads][:2])
    # SyncDone (inductive argument over the component loop)
    check_syncdone(ctx, f)
    # parse_syncinfo
    check_syncinfo(ctx, f)
    # OPTIONAL components absent
    check_optional_absent(ctx, f)
    check_opaque_octets(ctx, f)
    # the control envelope both ways (shared rule functions)
    from props import C02, C03
    C02.check_envelope(ctx, f, 'Z')
    C03.check_parse_controls(ctx, f, 'Z')
    # ReadEntryResp
    B = hirq.Body(f, f.body('<ldap3::controls_impl::read_entry::ReadEntryResp as ' + CP))
    ctx.analysed['bodies'].add(B.path)
    outs = [o for o in absx.Interp(f, B).run() if o.kind in ('val', 'ret') and o.val[0] == 'struct']
    for o in outs:
        fl = dict(o.val[2])
        se = fl.get('attrs', ('unk',))[1] if fl.get('attrs', ('unk',))[0] == 'field' else None
        ok = se is not None and se[0] == 'call' and se[1] == 'ldap3::search::SearchEntry::construct' and fl.get('bin_attrs') == ('field', se, 'bin_attrs') and fl['attrs'][2] == 'attrs'
        ok = ok and 'parse_tag' in calls_in(se) and absx.leaves(se, lambda x: x[0] == 'param') != []
        ctx.add('Y.readentry', 'attrs/bin_attrs', loc(B.root), ok, 'ReadEntryResp is not SearchEntry::construct of the parsed value (C15 decides construct)')
    ctx.floor('Y', 'ReadEntryResp paths', len(outs), 1)
    # PasswordModifyResp
    B, outs = parse_paths('<ldap3::exop_impl::passmod::PasswordModifyResp as ldap3::exop_impl::ExopParser>::parse')
    for o in outs:
        g = dict(o.val[2]).get('gen_pass', ('unk',))
        if 0 in cursor_reads_taken(o.st.pc, 0):
            if g[0] == 'ctor' and g[1] == 'Some' and len(g[2]) == 1:
                g = g[2][0]             # a field that can say "absent" says "present" here
            ok = nths(g) == [0] and 'from_utf8' in calls_in(g) and 'expect_primitive' in calls_in(g) and has_arg(g, 'match_id', lambda a: a == ('lit', 0)) \
                and has_arg(g, 'match_class', lambda a: a == ('ctor', 'TagClass::Context', ()))
            ctx.add('Y.passmod.genpasswd', '[0]', loc(B.root), ok, 'genPasswd is not the UTF-8 content of child 0 required to be [0] context primitive (RFC 3062)')
        else:
            # the path on which the sequence is empty (Y.optional-absent demands that there is one): nothing was generated
            # "nothing": None, the empty string literal, or the text of an empty byte vector (String::from_utf8(vec![]) is Ok(""))
            empty_text = g[0] == 'variant' and g[2] == 'Ok' and g[1][0] == 'call' and g[1][1].endswith('::from_utf8') and g[1][2] and g[1][2][0] in (('vec', ()), ('lit', b''))
            ctx.add('Y.passmod.genpasswd', 'absent', loc(B.root), g in (('ctor', 'None', ()), ('lit', '')) or empty_text,
                    'an empty PasswdModifyResponseValue does not decode to "no generated password": %s' % absx.fmt(g)[:80])
    ctx.floor('Y', 'PasswordModifyResp paths', len(outs), 1)
    for path, field in (('<ldap3::exop_impl::whoami::WhoAmIResp as ldap3::exop_impl::ExopParser>::parse', 'authzid'),
                        ('<ldap3::exop_impl::txn::StartTxnResp as ldap3::exop_impl::ExopParser>::parse', 'txn_id')):
        B, outs = parse_paths(path)
        for o in outs:
            g = dict(o.val[2]).get(field, ('unk',))
            fu = absx.leaves(g, lambda x: x[0] == 'call' and x[1].endswith('from_utf8'))
            ok = len(fu) == 1 and fu[0][2][0][0] == 'param' and not nths(g)
            ctx.add('Y.whole-value-utf8', path.split('::')[-3] if False else field, loc(B.root), ok, '%s is not the whole response value as UTF-8' % field)
        ctx.floor('Y', field + ' paths', len(outs), 1)



# ---------------------------------------------------------------------------------------
# Decoders that fold a sequence of optional components into accumulators (SyncDone, the Sync Info alternatives).
#
# They are decided by an inductive argument over ONE generic iteration of the component loop, evaluated by the interpreter from
# every state an earlier iteration can leave behind (`for`, `while let`, `loop { match it.next() .. }`, with or without a
# position counter, are the same thing here):
#   init   the accumulators start at the values the RFC gives for absent components (read from the loop-entry state),
#   exit   when the sequence is exhausted the decoded struct's fields are exactly the accumulators,
#   step   a component with a given (class, tag number) replaces exactly the accumulator the RFC assigns to that tag, by the
#          value its content denotes, and leaves the others as they were.
# The tag tests of the decoder are not read off its source: the tag fields of the generic component (and of the CHOICE value) are
# fixed to each member of a finite partition in turn (interpreter field hook) and the decoder's own conditions are evaluated on them,
# whatever form they have (guards, tuple patterns, if-chains, ranges, constants on either side).

def has(t, pred):
    return bool(absx.leaves(t, pred))

def elem_depth(t):
    """Nesting depth of element-of-a-sequence steps (generic loop element / cursor read) in a term."""
    if not isinstance(t, tuple):
        return 0
    d = max([elem_depth(x) for x in t if isinstance(x, tuple)] or [0])
    return d + 1 if t and t[0] in ('elem', 'nth') else d

def kind_of(base):
    """What a term whose tag fields are read denotes: ('elem', n) an element of a sequence nested n levels below the decoder's
    input, ('parsed', n) a value produced by parse_tag from bytes found at nesting level n."""
    b = base
    while b[0] in ('variant', 'field', 'vfield'):
        b = b[1]
    if b[0] in ('elem', 'nth'):
        return ('elem', elem_depth(b) - 1)
    if b[0] == 'call' and b[1].endswith('::parse_tag'):
        return ('parsed', elem_depth(b))
    return None

def tag_hook(spec, generic=()):
    """Interpreter field hook fixing `class` / `id` of the terms of the given kinds: {kind: (class name or None, number or None)}.
    The kinds listed in `generic` stay unconstrained while the interpreter discovers the loop-carried states, so that the step
    for one tag is evaluated from the states that components of *any* tag can leave behind."""
    def h(base, name, st):
        if name not in ('id', 'class'):
            return None
        k = kind_of(base)
        if k in generic and getattr(h, 'interp', None) is not None and getattr(h.interp, 'in_fixpoint', 0):
            return None
        v = spec.get(k)
        if v is None:
            return None
        if name == 'id':
            return ('lit', v[1]) if v[1] is not None else None
        return ('ctor', 'TagClass::' + v[0], ()) if v[0] is not None else None
    return h

def is_content(t, of):
    """t denotes the primitive content octets of a tag term satisfying `of` (either spelling: expect_primitive() or the PL::P payload)"""
    if t[0] == 'variant' and t[3] == 0:
        if t[2] == 'Some' and t[1][0] == 'call' and t[1][1].endswith('::expect_primitive') and len(t[1][2]) == 1:
            return of(t[1][2][0])
        if t[2] == 'PL::P' and t[1][0] == 'field' and t[1][2] == 'payload':
            return of(t[1][1])
    return False

def is_opt_content(t, of):
    """t denotes Some(content) of a primitive tag term (None for a constructed one is the decoder's business)"""
    if t[0] == 'call' and t[1].endswith('::expect_primitive') and len(t[2]) == 1:
        return of(t[2][0])
    return t[0] == 'ctor' and t[1] == 'Some' and len(t[2]) == 1 and is_content(t[2][0], of)

def is_children(t, of):
    """t denotes the child list of a constructed tag term satisfying `of`"""
    if t[0] == 'variant' and t[3] == 0:
        if t[2] == 'Some' and t[1][0] == 'call' and t[1][1].endswith('::expect_constructed') and len(t[1][2]) == 1:
            return of(t[1][2][0])
        if t[2] == 'PL::C' and t[1][0] == 'field' and t[1][2] == 'payload':
            return of(t[1][1])
    return False

def is_ber_boolean(t, of):
    """t is TRUE exactly when the first content octet of a tag term satisfying `of` is non-zero (X.690 8.2.2), decided by
    evaluating t for all 256 values of that octet - `!= 0`, `> 0`, `!(.. == 0)` are the same function, `== 0xFF` is not."""
    first = {x for x in absx.leaves(t, lambda x: x[0] == 'index' and x[2] == ('lit', 0) and is_content(x[1], of))}
    if len(first) != 1:
        return False
    x = next(iter(first))
    try:
        return all(absx.eval_term(t, {x: v}) is (v != 0) for v in range(256))
    except absx.NotEvaluable:
        return False

def component_loop(f, B, hook, is_result):
    """One generic evaluation of a decoder.  Returns (exits, steps):
    exits  [(returned value, {binding: value carried into this iteration}, {binding: value at loop entry}, path)] for the paths
           that return a decoded value,
    steps  [({binding: carried value}, {binding: value at the back edge}, path)] for the paths on which one component was
           consumed and the component loop goes round again."""
    I = absx.Interp(f, B, unroll=1, generic_loops=True, field_hook=hook)
    if hook is not None:
        hook.interp = I
    outs = I.run()
    exits, steps = [], []
    for o in outs:
        evs = [e for e in o.st.ev if e[0] == 'loop-carried']
        if o.kind in ('val', 'ret') and is_result(o.val):
            exits.append((o.val, {e[1]: e[2] for e in evs}, {e[1]: e[4] for e in evs}, o))
        elif o.kind == 'loop' and evs and all(e[3].get('id') == o.target for e in evs):
            steps.append(({e[1]: e[2] for e in evs}, {e[1]: o.st.env.get(e[1]) for e in evs}, o))
    return exits, steps

def accumulator_roles(exits, fields):
    """field of the decoded struct -> the loop-carried binding it returns on every path that leaves the component loop"""
    r = {}
    for F in fields:
        cands = None
        for v, start, _init, _o in exits:
            fv = dict(v[2]).get(F) if v[0] == 'struct' else None
            s = {b for b, x in start.items() if fv is not None and fv == x}
            cands = s if cands is None else (cands & s)
        if cands and len(cands) == 1:
            r[F] = next(iter(cands))
    return r

T_NONE = ('ctor', 'None', ())
def is_empty_set(t):
    return t[0] == 'call' and 'HashSet' in t[1] and t[1].rsplit('::', 1)[-1] in ('new', 'default', 'with_capacity') and not has(t, lambda x: x[0] in ('elem', 'nth'))

def check_steps(ctx, rule, inst, where, steps, roles, changed, pred, what):
    """Every back-edge path must replace accumulator `changed` (None: none of them) by a value satisfying pred and keep the others"""
    bad = []
    for start, new, o in steps:
        for F, b in roles.items():
            if F == changed:
                if not pred(new.get(b)):
                    bad.append('%s becomes %s' % (F, absx.fmt(new.get(b) or ('unk',))[:90]))
            elif new.get(b) != start.get(b):
                bad.append('%s is overwritten with %s' % (F, absx.fmt(new.get(b) or ('unk',))[:60]))
    if changed is not None and not steps:
        bad.append('no decoder path consumes such a component')
    ctx.add(rule, inst, where, not bad, '%s: %s' % (what, '; '.join(sorted(set(bad)))[:300]))

UNIVERSAL_OTHERS = (2, 5, 10, 16)     # representatives of the universal tags that neither decoder assigns a meaning to

# ---------------------------------------------------------------------------------------
# OPTIONAL / DEFAULT components of a response value.
#
# Reference shapes of the response values of C19's list, as far as this rule needs them: the components of the value's SEQUENCE in
# order, each REQ(uired) or OPT(ional; ASN.1 OPTIONAL or DEFAULT - BER may omit both, DER must omit a DEFAULT component that has
# its default value).  A value whose optional components are absent is as well-formed as one that carries them, so the decoder
# must have a returning path for it: for every number n of components that a well-formed value can have (the required ones plus
# any number of the optional ones) there must be a path that returns the decoded struct on which no read of the component cursor
# at a position >= n was taken to have yielded an element - which is what `next().expect(..)`, `next().unwrap()`, `let Some(..) =
# next() else { panic }` all do to the path: the read yielding None flows into the panic and only "it was Some" continues.
# A `for` / `while let` over the cursor has no such read: its None alternative is the loop's exit (what is then returned is the
# business of the inductive rules Y.syncdone.* / Y.syncinfo.*).  The tags stay symbolic here, so this is a necessary condition.
REQ, OPTC = 'required', 'optional'
CPP = ' as ldap3::controls_impl::ControlParser>::parse'
EPP = ' as ldap3::exop_impl::ExopParser>::parse'
RESPONSE_REFS = [
    # (name, decoder, cursor depth, CHOICE alternative or None, components, reference)
    ('PagedResults', '<ldap3::controls_impl::paged_results::PagedResults' + CPP, 0, None, (('size', REQ), ('cookie', REQ)),
     'RFC 2696: realSearchControlValue ::= SEQUENCE { size INTEGER (0..maxInt), cookie OCTET STRING }'),
    ('SyncState', '<ldap3::controls_impl::content_sync::SyncState' + CPP, 0, None, (('state', REQ), ('entryUUID', REQ), ('cookie', OPTC)),
     'RFC 4533 2.2: syncStateValue ::= SEQUENCE { state ENUMERATED, entryUUID syncUUID, cookie syncCookie OPTIONAL }'),
    ('SyncDone', '<ldap3::controls_impl::content_sync::SyncDone' + CPP, 0, None, (('cookie', OPTC), ('refreshDeletes', OPTC)),
     'RFC 4533 2.4: syncDoneValue ::= SEQUENCE { cookie syncCookie OPTIONAL, refreshDeletes BOOLEAN DEFAULT FALSE }'),
    ('SyncInfo message', 'ldap3::controls_impl::content_sync::parse_syncinfo', 0, None, (('responseName', OPTC), ('responseValue', REQ)),
     'RFC 4511 4.13: IntermediateResponse ::= [APPLICATION 25] SEQUENCE { responseName [0] LDAPOID OPTIONAL, responseValue [1] OCTET STRING OPTIONAL }; RFC 4533 2.5 puts the syncInfoValue into responseValue'),
    ('SyncInfo refreshDelete', 'ldap3::controls_impl::content_sync::parse_syncinfo', 1, 1, (('cookie', OPTC), ('refreshDone', OPTC)),
     'RFC 4533 2.5: refreshDelete [1] SEQUENCE { cookie syncCookie OPTIONAL, refreshDone BOOLEAN DEFAULT TRUE }'),
    ('SyncInfo refreshPresent', 'ldap3::controls_impl::content_sync::parse_syncinfo', 1, 2, (('cookie', OPTC), ('refreshDone', OPTC)),
     'RFC 4533 2.5: refreshPresent [2] SEQUENCE { cookie syncCookie OPTIONAL, refreshDone BOOLEAN DEFAULT TRUE }'),
    ('SyncInfo syncIdSet', 'ldap3::controls_impl::content_sync::parse_syncinfo', 1, 3, (('cookie', OPTC), ('refreshDeletes', OPTC), ('syncUUIDs', REQ)),
     'RFC 4533 2.5: syncIdSet [3] SEQUENCE { cookie syncCookie OPTIONAL, refreshDeletes BOOLEAN DEFAULT FALSE, syncUUIDs SET OF syncUUID }'),
    ('ReadEntryResp', '<ldap3::controls_impl::read_entry::ReadEntryResp' + CPP, 0, None, (('objectName', REQ), ('attributes', REQ)),
     'RFC 4527 3.1 / RFC 4511 4.5.2: SearchResultEntry ::= [APPLICATION 4] SEQUENCE { objectName LDAPDN, attributes PartialAttributeList }'),
    ('PasswordModifyResp', '<ldap3::exop_impl::passmod::PasswordModifyResp' + EPP, 0, None, (('genPasswd', OPTC),),
     'RFC 3062 2: PasswdModifyResponseValue ::= SEQUENCE { genPasswd [0] OCTET STRING OPTIONAL }'),
    ('WhoAmIResp', '<ldap3::exop_impl::whoami::WhoAmIResp' + EPP, 0, None, (),
     'RFC 4532 2.2: the response value is the authzId itself (no components)'),
    ('StartTxnResp', '<ldap3::exop_impl::txn::StartTxnResp' + EPP, 0, None, (),
     'RFC 5805 2.1: the response value is the transaction identifier itself (no components)'),
]

# Components that their RFC defines as opaque octets (no character set): a decoder that converts them with a UTF-8 test has to
# have a returning path for the test failing - a well-formed value need not be UTF-8.  (authzId of WhoAmI is a UTF-8 string by
# RFC 4513 and is not listed; cookies and UUIDs are kept as bytes by their decoders and pass trivially.)
OPAQUE_COMPONENTS = [
    ('StartTxnResp', '<ldap3::exop_impl::txn::StartTxnResp' + EPP, 'txn_id', 'RFC 5805 2.1 / 2.2: the transaction identifier is an OCTET STRING chosen by the server, opaque to the client'),
    ('PasswordModifyResp', '<ldap3::exop_impl::passmod::PasswordModifyResp' + EPP, 'gen_pass', 'RFC 3062 2: genPasswd [0] OCTET STRING - a password is a sequence of octets, not necessarily text'),
    ('PagedResults', '<ldap3::controls_impl::paged_results::PagedResults' + CPP, 'cookie', 'RFC 2696: cookie OCTET STRING, opaque'),
    ('SyncState', '<ldap3::controls_impl::content_sync::SyncState' + CPP, 'cookie', 'RFC 4533: syncCookie ::= OCTET STRING, opaque'),
    ('SyncState', '<ldap3::controls_impl::content_sync::SyncState' + CPP, 'entry_uuid', 'RFC 4533: syncUUID ::= OCTET STRING (SIZE(16))'),
    ('SyncDone', '<ldap3::controls_impl::content_sync::SyncDone' + CPP, 'cookie', 'RFC 4533: syncCookie ::= OCTET STRING, opaque'),
]

def check_opaque_octets(ctx, f):
    n = 0
    for name, path, field, ref in OPAQUE_COMPONENTS:
        B = hirq.Body(f, f.body(path))
        ctx.analysed['bodies'].add(path)
        outs = [o for o in absx.Interp(f, B, unroll=1, inline=inline_policy, combinators=True).run() if o.kind in ('val', 'ret') and o.val[0] == 'struct']
        is_utf8_test = lambda a: a[0] == 'is' and a[2] == 'Ok' and a[1][0] == 'call' and a[1][1].rsplit('::', 1)[-1] in ('from_utf8', 'from_utf8_mut')
        needed, handled = set(), set()
        for o in outs:
            ft = dict(o.val[2]).get(field)
            for a, t in o.st.pc:
                if is_utf8_test(a):
                    sa = sem.strip_site(a)
                    if t and ft is not None and sem.has(sem.strip_site(ft), lambda x: x == sa[1]):
                        needed.add(sa)
                    if not t:
                        handled.add(sa)
        n += 1
        bad = needed - handled
        ctx.add('Y.opaque-octets-total', '%s|%s' % (name, field), loc(B.root), bool(outs) and not bad,
                'the %s component is opaque octets (%s) but every decoding path that yields %s.%s assumes that a UTF-8 test of those octets succeeds (the failing test flows into expect / unwrap): a well-formed value whose octets are not UTF-8 makes the decoder panic'
                % (field, ref, name, field))
    ctx.floor('Y', 'opaque components evaluated', n, 6)


def cursor_reads_taken(pc, depth):
    """positions of the reads of the component cursor `depth` sequence levels below the decoder's input that the path took to
    have yielded an element"""
    out = set()
    for a, t in pc:
        if t and a[0] == 'is' and a[2] == 'Some' and a[1][0] == 'nth' and elem_depth(a[1]) - 1 == depth:
            out.add(a[1][3])
    return out

def check_optional_absent(ctx, f):
    evaluated = 0
    for name, path, depth, alt, comps, ref in RESPONSE_REFS:
        B = hirq.Body(f, f.body(path))
        ctx.analysed['bodies'].add(path)
        m = len(comps)
        r = len([c for c in comps if c[1] == REQ])
        if r == m:
            continue            # no OPTIONAL component: nothing can be absent from a well-formed value
        hook = tag_hook({('parsed', 1): ('Context', alt)}) if alt is not None else None
        I = absx.Interp(f, B, unroll=1, inline=inline_policy, field_hook=hook)
        if hook is not None:
            hook.interp = I
        res = [o for o in I.run() if o.kind in ('val', 'ret') and o.val[0] in ('struct', 'ctor')
               and (alt is None or o.val[1].startswith('SyncInfo::'))]
        evaluated += 1
        for n in range(r, m):
            good = [o for o in res if not [k for k in cursor_reads_taken(o.st.pc, depth) if k >= n]]
            forced = sorted({k for o in res for k in cursor_reads_taken(o.st.pc, depth) if k >= n})
            opt = [c[0] for c in comps if c[1] == OPTC]
            ctx.add('Y.optional-absent', '%s|%d of %d components' % (name, n, m), loc(B.root), bool(good),
                    'a well-formed value with %d component(s) (optional: %s) has no decoding path: %s; %s'
                    % (n, ', '.join(opt), 'every returning path takes the cursor read(s) at position(s) %s to have yielded an element (the read yielding None flows into expect / unwrap / a panic)' % forced
                       if res else 'the decoder has no returning path at all', ref))
    ctx.floor('Y', 'response values with an OPTIONAL component evaluated', evaluated, 7)


def check_syncdone(ctx, f):
    """RFC 4533 2.4: syncDoneValue ::= SEQUENCE { cookie syncCookie OPTIONAL, refreshDeletes BOOLEAN DEFAULT FALSE }"""
    B = hirq.Body(f, f.body('<ldap3::controls_impl::content_sync::SyncDone as ldap3::controls_impl::ControlParser>::parse'))
    ctx.analysed['bodies'].add(B.path)
    L = loc(B.root)
    COMP = ('elem', 0)
    comp = lambda c: kind_of(c) == COMP
    is_sd = lambda v: v[0] == 'struct' and v[1].endswith('SyncDone')
    exits, _ = component_loop(f, B, None, is_sd)
    roles = accumulator_roles(exits, ('cookie', 'refresh_deletes'))
    ctx.add('Y.syncdone.coverage', 'result', L, bool(exits) and len(roles) == 2,
            'the decoded SyncDone is not (cookie, refreshDeletes) as left by the component loop (accumulators found: %s)' % sorted(roles))
    if len(roles) != 2:
        return
    inits = {F: {absx.fmt(i[b]) for _v, _s, i, _o in exits} for F, b in roles.items()}
    ok = all(i[roles['cookie']] == T_NONE and i[roles['refresh_deletes']] == absx.FALSE for _v, _s, i, _o in exits)
    ctx.add('Y.syncdone.defaults', 'empty sequence', L, ok, 'an empty SyncDone value must decode to (no cookie, refreshDeletes FALSE), found %s' % {k: sorted(v) for k, v in inits.items()})
    for tagno, inst, rule, changed, pred, what in (
            (4, 'OCTET STRING', 'Y.syncdone.cookie', 'cookie', lambda t: t is not None and is_opt_content(t, comp), 'an OCTET STRING component must become the cookie and leave refreshDeletes as it was'),
            (1, 'BOOLEAN', 'Y.syncdone.refresh-deletes', 'refresh_deletes', lambda t: t is not None and is_ber_boolean(t, comp), 'a BOOLEAN component must become refreshDeletes = content[0] != 0 and leave the cookie as it was')) \
            + tuple((n, 'universal %d' % n, 'Y.syncdone.other-component', None, None, 'a component that RFC 4533 does not define must not change the decoded value') for n in UNIVERSAL_OTHERS):
        _e, steps = component_loop(f, B, tag_hook({COMP: ('Universal', tagno)}, generic=(COMP,)), is_sd)
        check_steps(ctx, rule, inst, L, steps, roles, changed, pred, what)

SYNC_INFO_OID = '1.3.6.1.4.1.4203.1.9.1.4'

def check_syncinfo(ctx, f):
    """RFC 4533 2.5: syncInfoValue ::= CHOICE { newcookie [0] syncCookie,
         refreshDelete [1] SEQUENCE { cookie syncCookie OPTIONAL, refreshDone BOOLEAN DEFAULT TRUE },
         refreshPresent [2] SEQUENCE { cookie syncCookie OPTIONAL, refreshDone BOOLEAN DEFAULT TRUE },
         syncIdSet [3] SEQUENCE { cookie syncCookie OPTIONAL, refreshDeletes BOOLEAN DEFAULT FALSE, syncUUIDs SET OF syncUUID } }
    carried in an IntermediateResponse (25) whose responseName [0] is the Sync Info OID and whose responseValue [1] holds the value."""
    p = 'ldap3::controls_impl::content_sync::parse_syncinfo'
    B = hirq.Body(f, f.body(p))
    ctx.analysed['bodies'].add(p)
    L = loc(B.root)
    OUTER, CHOICE, COMP = ('elem', 0), ('parsed', 1), ('elem', 1)
    choice = lambda c: kind_of(c) == CHOICE
    comp = lambda c: kind_of(c) == COMP
    is_si = lambda v: v[0] in ('ctor', 'struct') and v[1].startswith('SyncInfo::')
    WANT = {0: ('SyncInfo::NewCookie', None, None), 1: ('SyncInfo::RefreshDelete', 'refresh_done', True),
            2: ('SyncInfo::RefreshPresent', 'refresh_done', True), 3: ('SyncInfo::SyncIdSet', 'refresh_deletes', False)}
    all_exits = []
    for cid in (0, 1, 2, 3, 4, 5, 7):
        exits, _ = component_loop(f, B, tag_hook({CHOICE: ('Context', cid)}), is_si)
        all_exits += exits
        names = sorted({v[1] for v, _s, _i, _o in exits})
        if cid not in WANT:
            ctx.add('Y.syncinfo.choice', '[%d]' % cid, L, not exits, 'syncInfoValue [%d] is not defined by RFC 4533 but decodes to %s' % (cid, names))
            continue
        name, flagf, dflt = WANT[cid]
        if cid == 0:
            ok = bool(exits) and all(v[0] == 'ctor' and v[1] == name and len(v[2]) == 1 and is_content(v[2][0], choice) for v, _s, _i, _o in exits)
            ctx.add('Y.syncinfo.choice', '[0]', L, ok, 'syncInfoValue [0] must decode to NewCookie(content of the value), found %s' % [absx.fmt(v)[:80] for v, _s, _i, _o in exits][:3])
            continue
        fields = ('cookie', flagf) + (('sync_uuids',) if cid == 3 else ())
        roles = accumulator_roles(exits, fields)
        got = {}
        for _v, _s, i, _o in exits:
            for F, b in roles.items():
                got.setdefault(F, set()).add(absx.fmt(i[b]))
        ok = bool(exits) and names == [name] and len(roles) == len(fields) \
            and all(i[roles['cookie']] == T_NONE and i[roles[flagf]] == ('lit', dflt) and (cid != 3 or is_empty_set(i[roles['sync_uuids']])) for _v, _s, i, _o in exits)
        ctx.add('Y.syncinfo.choice', '[%d]' % cid, L, ok,
                'syncInfoValue [%d] decodes to %s with the fields %s holding, before any component is seen, %s; RFC 4533: %s with no cookie, %s DEFAULT %s%s'
                % (cid, names, sorted(roles), {k: sorted(v) for k, v in sorted(got.items())}, name, flagf, str(dflt).upper(), ', no UUIDs' if cid == 3 else ''))
        if len(roles) != len(fields):
            continue
        table = [(4, 'OCTET STRING', 'cookie', lambda t: t is not None and is_opt_content(t, comp), 'an OCTET STRING component is the cookie'),
                 (1, 'BOOLEAN', flagf, lambda t: t is not None and is_ber_boolean(t, comp), 'a BOOLEAN component is %s = content[0] != 0' % flagf)]
        if cid == 3:
            table.append((17, 'SET', 'sync_uuids', lambda t: t is not None and t[0] == 'many' and len(t) == 4 and is_children(t[1], comp) and t[2][0] == 'elem' and t[2][1] == t[1]
                          and is_content(t[3], lambda c, el=None, t=t: c == t[2]), 'a SET component is the set of the contents of its members'))
        table += [(n, 'universal %d' % n, None, None, 'a component that RFC 4533 does not define must not change the decoded value') for n in UNIVERSAL_OTHERS]
        for tagno, inst, changed, pred, what in table:
            _e, steps = component_loop(f, B, tag_hook({CHOICE: ('Context', cid), COMP: ('Universal', tagno)}, generic=(COMP,)), is_si)
            check_steps(ctx, 'Y.syncinfo.components', '[%d] %s' % (cid, inst), L, steps, roles, changed, pred, what + ' and leaves the other fields as they were')
    # outer framing, on the paths: the message must be an IntermediateResponse (25); a responseName [0] that is accepted equals the OID
    def is_intermediate(o):
        return any(t and a[0] == 'is' and a[2] == 'Some' and a[1][0] == 'call' and a[1][1].endswith('::match_id') and len(a[1][2]) == 2 and a[1][2][1] == ('lit', 25)
                   and has(a[1][2][0], lambda x: x[0] == 'param') for a, t in o.st.pc)
    ctx.add('Y.syncinfo.intermediate', '25', L, bool(all_exits) and all(is_intermediate(o) for _v, _s, _i, o in all_exits),
            'a Sync Info value is decoded from an entry that was not required to be an IntermediateResponse (25)')
    outs = [o for o in absx.Interp(f, B, unroll=1, generic_loops=True, field_hook=tag_hook({OUTER: (None, 0)})).run() if o.kind != 'div']
    def name_checked(o):
        return any(t and a[0] == 'bin' and a[1] == 'Eq' and ('lit', SYNC_INFO_OID) in (a[2], a[3]) and has(a, lambda x: x[0] == 'call' and x[1].endswith('from_utf8'))
                   and has(a, lambda x: kind_of(x) == OUTER) for a, t in o.st.pc)
    ctx.add('Y.syncinfo.oid', 'responseName', L, bool(outs) and all(name_checked(o) for o in outs),
            'a responseName [0] is accepted without having been found equal to %s' % SYNC_INFO_OID)
