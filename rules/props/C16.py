"""C16 - the PagedResults adapter returns the whole result set exactly once."""
from facts import walk, callee_of, call_args, loc
import hirq, anchors, absx, sem

EXPLANATION = ("A1 start(): on the path where one of the caller's controls has the paging OID the adapter returns AdapterInit before any "
               "upcall; otherwise the handle saved for follow-ups is a clone of the stream's handle with its timeout and search options and "
               "the caller's controls *without* a paging control, the stream's own handle gets those controls plus PagedResults{size: "
               "self.page_size, cookie: empty}, the upcall receives base/scope/filter/attrs in order, and when start() is left the adapter's "
               "fields hold - whatever statement put it there: field-by-field saves, or one `*self = Self { .., ..Self::new(n) }` whose "
               "unlisted fields take what the (evaluated) constructor puts there - the base/scope/filter/attrs this call was given and the "
               "page size the adapter was constructed with; A2 next(): anything but Ok(None) is returned unchanged; on Ok(None) the response control is looked up by "
               "ControlType::PagedResults in the stored result and parsed as PagedResults - on every path on which the page's result is "
               "present, whatever it holds: no test on the way from the upstream's Ok(None) to the end / the follow-up / the removal (an `if`, "
               "a match guard, a literal or range inside a pattern - a pattern with several refutable parts that fails is followed once per "
               "part that can fail) reads the result code or any other field of the result than its control list, of a control anything "
               "but its type, of the parsed paging control anything but the cookie; a path that ends the search with the result present and "
               "no paging control found has a test over the control list to show for it; an empty cookie removes exactly that control - the "
               "first control of the paging type in the list, the one whose cookie was examined; a second paging control in the same "
               "result, which RFC 2696 does not provide for, is neither examined nor removed - and "
               "ends; a non-empty cookie issues streaming_search(self.base, self.scope, self.filter, self.attrs) on a clone of the saved "
               "handle (timeout, options copied) whose controls are - element by element, whatever pushes, pops, truncations, retains the "
               "code applies to the vector, on an owned copy or through a `&mut` into the saved handle - every saved control followed by one "
               "PagedResults{size: self.page_size, cookie: the parsed cookie}, and splices the new stream's handle and receiver into the "
               "running stream; a failed follow-up is returned as the error; all of this for ANY page boundary crossed in one call of next() - the "
               "page loop is judged as one generic iteration from every state its back edge hands to the loop head (what the locals bound "
               "before the loop hold there, read off the paths: the entry value, what one trip makes of it, an unknown for the rest), so a "
               "vector / flag built before the loop and changed inside it is seen with what the previous boundary left in it; a path that "
               "gives up at the expect() of a saved value it found absent (nothing saved: start() has not run) issues nothing and is the "
               "same alternative the other paths note at that expect(); on every path next() leaves the fields a follow-up is built "
               "from (saved handle with its controls / timeout / options, base, scope, filter, attrs, page size) as it found them, so page "
               "n+1 is asked for like page 2; the saved controls hold no paging control (start() saves them filtered, only start() and "
               "next() can write the saved handle), which makes a path of next() that finds one infeasible; A3 codec: C19. Not decided: "
               "number of pages, exactly-once delivery over a run, termination.")
TRUSTED = ['the server returns cookies as RFC 2696 says', 'C19 (paging control codec)', 'C10 (stream state machine)']
UNDECIDED = ['exactly-once delivery / number of pages / termination over a run (runtime quantities)']
ASSUMPTIONS = ['a generic control stands for every element of the control lists',
               'a SearchResultDone carries the paging control at most once (RFC 2696 section 3: the server returns one); of two the adapter examines and removes '
               'only the first, the final result then still holds the second']
SHARED = [('C02', ('M1.', 'S.request-shape'), 'A4.options-reach-the-adapter'),
          # "each entry exactly once; follow-ups are issued only at the end of a page with that page's cookie": the adapter takes Ok(None)
          # from the inner stream for "this page is complete, its result is in stream.res".  That holds only if next_inner answers
          # Ok(None) on no path but the one on which the stream's own receiver yielded the SearchResultDone and stored it - the adapter
          # itself leaves page k-1's result in stream.res while page k is read, so "a result is stored" does not say the page ended
          ('C10', ('Q2.end-of-stream-means-done-received', 'Q2.done-stores-result'), 'A5.page-ends-only-on-its-own-result')]

PR = "<ldap3::adapters::PagedResults<S, A> as ldap3::adapters::Adapter<'a, S, A>>::"
OID = '1.2.840.113556.1.4.319'
SELF, STREAM = ('param', 'self'), ('param', 'stream')
HANDLE_FN = "ldap3::search::SearchStream::<'a, S, A>::ldap_handle"

def inner(root):
    for n, c in walk(root):
        if n['k'] == 'Closure' and 'Coroutine' in n.get('closure_kind', ''):
            return n['body']
    return root

def is_paging(t, size_ok, cookie_ok):
    return t[0] == 'struct' and t[1].endswith('paged_results::PagedResults') and size_ok(dict(t[2]).get('size')) and cookie_ok(dict(t[2]).get('cookie'))

def content(t, whole):
    """A vector term as the ordered list of its segments: ('all', x) - every element of the vector x for which whole(x) holds -,
    ('one', element), ('opaque', term) for anything whose elements the interpreter does not know.  Read off the interpreter's
    vector terms: a literal vector, a push on top of a vector, a vector the last n elements of which were popped, the element-wise
    image of a vector on a path on which the generic element is kept as it is (retain / filter) or dropped."""
    if t[0] in ('vec', 'array'):
        return [('one', x) for x in t[1]]
    if whole(t):
        return [('all', t)]
    if t[0] == 'vecpush':
        return content(t[1], whole) + [('one', t[2])]
    if t[0] == 'popped':
        c = content(t[1], whole)
        if t[2] <= len(c) and all(x[0] == 'one' for x in c[len(c) - t[2]:]):
            return c[:len(c) - t[2]]       # what was popped is what had been pushed
        return [('opaque', t)]              # elements of a segment of unknown length are gone
    if t[0] == 'many' and t[3] == t[2]:
        return content(t[1], whole)         # the generic element stays
    if t[0] == 'many' and t[3] == ('skip',):
        return [('dropped', t[1])]          # the generic element of the source is removed
    return [('opaque', t)]

RES0 = ('variant', ('field', STREAM, 'res'), 'Some', 0)      # the result of the page that has just ended
RESULT_FIELD = {'rc': 'result code', 'matched': 'matched DN', 'text': 'diagnostic message', 'refs': 'referrals'}

def foreign_tests(o):
    """The tests on a path (atoms of its path condition) that read something of the ended page's result other than what C16 lets the
    page end depend on, as (what is read, atom, truth): a field of the result that is not its control list, or the result as a
    whole handed to a function; of a control, anything but its type (the `Option<ControlType>` / the OID in the raw control); of
    the parsed paging control, anything but the cookie.  Read off the terms (a place below stream.res' payload), so an `if`, a
    match guard and a literal inside a pattern are the same."""
    CTRLS = ('field', RES0, 'ctrls')
    def is_elem(x):
        while isinstance(x, tuple) and x and x[0] in ('field', 'variant', 'elem', 'enumerate', 'index'):
            if x == CTRLS:
                return True
            x = x[1]
        return False
    def reads(x, parent, found):
        if not isinstance(x, tuple) or not x:
            return
        if x == CTRLS:
            return
        if x == RES0:
            if parent is not None and parent[0] == 'field' and parent[1] == RES0:
                found.append(RESULT_FIELD.get(parent[2], 'field `%s`' % parent[2]))
            elif parent is not None and parent[0] == 'call':
                found.append('result as a whole (through `%s`)' % str(parent[1]).rsplit('::', 1)[-1])
            else:
                found.append('result as a whole')
            return
        if x[0] == 'field' and len(x) == 3 and isinstance(x[1], tuple) and x[1]:
            if x[2] in ('crit', 'val') and is_elem(x[1]):
                found.append('control\'s `%s`' % x[2])
            elif x[2] != 'cookie' and x[1][0] == 'call' and x[1][1] == 'ldap3::controls_impl::RawControl::parse' and absx.leaves(x[1], lambda y: y == CTRLS):
                found.append('paging control\'s `%s`' % x[2])
        tagged = isinstance(x[0], str)       # an argument tuple is not a term of its own: its members' parent is the call
        for y in x:
            reads(y, x if tagged else parent, found)
    out, seen = [], set()
    for a, t in o.st.pc:
        found = []
        reads(a, None, found)
        for w in found:
            if (w, a) not in seen:
                seen.add((w, a)); out.append((w, a, t))
    return out

def rooted_in(t, root):
    """t is a place below root: root itself, a field of it, the payload of an Option in it ..."""
    while isinstance(t, tuple) and t:
        if t == root:
            return True
        if t[0] in ('field', 'variant'):
            t = t[1]
        else:
            return False
    return False

def state_changes(o, root, I):
    """What a path leaves changed in the places below root (the adapter's saved state), as a list of descriptions.  A place is
    unchanged when nothing was stored to it, or what it holds in the end is what it held on entry (also written back as
    Some(its own payload)).  A `&mut` method / `&mut` argument on such a place whose effect the interpreter has not modelled as a
    store counts as a change: the rule cannot read it.  (Which place a receiver / argument expression denotes is read off the
    expression - Interp.place_of -, not off its value term: an owned copy of the saved controls has the same value term.)"""
    out = []
    for k, v in o.st.heap.items():
        if k[0] == 'field' and rooted_in(k, root):
            if v == k or v == ('ctor', 'Some', (('variant', k, 'Some', 0),)):
                continue
            out.append('%s := %s' % (absx.fmt(k), absx.fmt(v)[:90]))
    modelled = {id(e[3]) for e in o.st.ev if e[0] == 'store'}
    for e in o.st.ev:
        if e[0] == 'store-unknown' and isinstance(e[1], tuple) and rooted_in(e[1], root):
            out.append('store to %s' % absx.fmt(e[1]))
        if e[0] != 'call' or id(e[3]) in modelled or e[1] in (absx.Interp.TAKE, 'core::mem::take', 'core::mem::replace'):
            continue
        n = e[3]
        muts = [a for a in n.get('args', []) if (a.get('ty') or '').startswith('&mut ')]
        if n.get('k') == 'MethodCall' and (n['recv'].get('adj_ty') or n['recv'].get('ty') or '').startswith('&mut '):
            muts.append(n['recv'])
        for a in muts:
            P = I.place_of(a)
            if P is not None and rooted_in(P, root):
                out.append('%s(&mut %s ..) - effect not modelled' % (e[1].rsplit('::', 1)[-1], absx.fmt(P)))
    return out

def template_writers(f):
    """Bodies other than start() / next() of the adapter that could write the saved handle (who-may-touch, F10): they use the
    adapter's field of type Option<Ldap> - or a place inside it - mutably: as the target of an assignment, under `&mut`, or as the
    receiver of a `&mut self` method."""
    out = []
    for path, n, c in hirq.field_accesses(f, lambda n: hirq.strip_refs(n.get('ty') or '') == 'core::option::Option<ldap3::ldap::Ldap>'
                                          and hirq.strip_refs(n['e'].get('ty') or '').startswith('ldap3::adapters::PagedResults<')):
        if path.startswith(PR + 'start') or path.startswith(PR + 'next'):
            continue
        top, up = n, list(c)
        while True:
            if (top.get('adj_ty') or '').startswith('&mut '):
                out.append(path); break
            if not up:
                break
            par, role = up.pop()
            if par['k'] in ('Assign', 'AssignOp') and par['l'] is top:
                out.append(path); break
            if par['k'] == 'AddrOf' and par.get('mut') and par['e'] is top:
                out.append(path); break
            if (par['k'] in ('Field', 'Index') and par['e'] is top) or (par['k'] == 'Unary' and par.get('op') == 'Deref') \
                    or (par['k'] == 'MethodCall' and par['recv'] is top and hirq.is_transparent(callee_of(par) or '')):
                top = par; continue       # a place inside the field / a reborrow of it: look at how *that* is used
            break
    return sorted(set(out))

ADAPTER_TY = PR[1:].split(' as ', 1)[0]         # the adapter's type as the impl header spells it

def adapter_ctors(f):
    """The constructors of the adapter, by role: the associated functions of the adapter's own impls that return the adapter's type
    and take no value of it (`new` today)."""
    out = set()
    for k, it in f.items.items():
        if it.get('kind') == 'AssocFn' and it.get('impl_self') == ADAPTER_TY and it.get('output') == ADAPTER_TY \
                and not any(hirq.strip_refs(str(i)) == ADAPTER_TY for i in it.get('inputs') or []) and f.hir.get(k) is not None:
            out.add(k)
    return out

def ctor_placeholders(f, ctors):
    """{constructor: {field: term}} - what each field of a freshly constructed adapter holds where that is the same constant on
    every path of the constructor (the placeholders of the parameters start() has yet to save).  Only used to word a message."""
    out = {}
    for c in sorted(ctors):
        try:
            vals = [o.val for o in absx.Interp(f, hirq.Body(f, f.body(c))).run() if o.kind in ('val', 'ret')]
        except Exception:
            continue
        if vals and all(v[0] == 'struct' for v in vals):
            names = {n for v in vals for n, t in v[2]}
            out[c] = {n: absx.field_term(vals[0], n) for n in names if all(absx.field_term(v, n) == absx.field_term(vals[0], n) for v in vals)
                      and not absx.leaves(absx.field_term(vals[0], n), lambda x: x[0] == 'param')}
    return out

def saved_parameter_fault(fld, what, have, want, placeholders):
    """Words what the adapter's field `fld` holds when start() is left, where that is not the argument `want` it was called with."""
    if have is None:
        return 'start() does not save the %s it was given (self.%s keeps what the constructor or an earlier search left there): follow-up pages go out with another %s' % (what, fld, what)
    src = next((c for c, d in sorted(placeholders.items()) if d.get(fld) == have), None)
    if src is not None:
        name = '::'.join(x for x in src.split('::') if not x.startswith('<'))
        return 'the saved %s is the placeholder %s of %s, not the %s start() was given: follow-up pages go out with another %s' % (what, absx.fmt(have)[:60], '::'.join(name.split('::')[-2:]), what, what)
    return 'the saved %s is %s, not the %s start() was given (%s): follow-up pages go out with another %s' % (what, absx.fmt(have)[:80], what, absx.fmt(want), what)

def run(ctx):
    f = ctx.facts
    # ------------------------------------------------------------------ A1 start
    B = hirq.Body(f, f.body(PR + 'start'))
    ctx.analysed['bodies'].add(B.path)
    if f.hir.get(HANDLE_FN) is not None:
        ctx.analysed['bodies'].add(HANDLE_FN)
    # the stream's handle is whatever the accessor hands out: its body is evaluated (today `&mut self.ldap`), so that a store through
    # the reference it returns and a store to stream.ldap are the same store
    # ... and a constructor of the adapter called on the way (the base of a struct update, `..Self::new(n)`) is evaluated too: which
    # values its fields start with is what an unlisted field of the update ends up holding
    ctors = adapter_ctors(f)
    placeholders = ctor_placeholders(f, ctors)
    inlined = set()
    def inline_start(cal):
        if cal == HANDLE_FN or cal in ctors:
            inlined.add(cal)
            return True
        return False
    outs = absx.Interp(f, B, unroll=1, for_once=True, combinators=True, places=True, inline=inline_start).run(root=inner(B.root))
    ctx.analysed['bodies'].update(c for c in inlined if c in ctors)
    seen = set()
    template_clean = []       # per path of start() that saves the template: it holds no control with the paging OID
    is_oid_test = lambda a: a[0] == 'bin' and a[1] == 'Eq' and a[3] == ('lit', OID) and a[2][0] == 'field' and a[2][2] == 'ctype'
    for o in outs:
        is_oid_test = lambda a: a[0] == 'bin' and a[1] == 'Eq' and a[3] == ('lit', OID) and a[2][0] == 'field' and a[2][2] == 'ctype'
        found = next((t for a, t in o.st.pc if is_oid_test(a)), None)
        # `controls.iter().any(|c| c.ctype == OID)`: the same test, stated over the whole list
        any_found = next((t for t, src, el, conds in sem.search_atoms(o.st.pc, 'any') if any(is_oid_test(a) and tr for cnd in conds for a, tr in cnd)), None)
        if found is None and any_found is not None:
            found = any_found
        up = [e for e in o.st.ev if e[0] == 'call' and e[1].endswith("SearchStream::<'a, S, A>::start")]
        # the filter closure runs once per control: what it leaves behind for the next control (the found flag) is loop-carried
        carried = [e for e in o.st.ev if e[0] == 'loop-carried' and e[3]['k'] == 'Closure']
        for e in carried:
            ctx.add('A1.found-flag-starts-false', 'found_pr', loc(e[3]), e[4] == absx.FALSE, 'the "paging control found" flag must start false (starts as %s)' % absx.fmt(e[4]))
        earlier = any(e[2] == absx.TRUE for e in carried)
        if found is True or (earlier and found is not None):
            seen.add('refuse' if found else 'refuse-earlier')
            ok = o.val[0] == 'ctor' and o.val[1] == 'Err' and o.val[2][0][0] == 'ctor' and o.val[2][0][1] == 'LdapError::AdapterInit' and not up
            ctx.add('A1.refuses-caller-paging-control', 'found', loc(B.root), ok, 'a caller-supplied paging control must be rejected with AdapterInit before the search starts')
            continue
        if found is None:
            ctx.fail('A1.paging-oid-test', 'start', loc(B.root), 'the caller\'s controls are not tested against the paging OID %s' % OID); continue
        seen.add('proceed')
        h = o.st.heap
        saved = h.get(('field', SELF, 'ldap'), ('unk',))
        H = saved[2][0] if saved[0] == 'ctor' and saved[1] == 'Some' else ('unk',)
        handle = ('field', STREAM, 'ldap')
        def strip_site(t):
            if isinstance(t, tuple):
                if t and t[0] == 'call' and len(t) == 4:
                    return ('call', t[1], tuple(strip_site(x) for x in t[2]), None)
                return tuple(strip_site(x) for x in t)
            return t
        okh = H[0] == 'call' and H[1].endswith('::clone') and strip_site(H[2][0]) == handle
        ctx.add('A1.saved-handle-is-clone', 'self.ldap', loc(B.root), okh, 'the handle saved for follow-up searches is not a clone of the stream\'s handle')
        okt = strip_site(h.get(('field', H, 'timeout'), ('unk',))) == ('field', handle, 'timeout') and strip_site(h.get(('field', H, 'search_opts'), ('unk',))) == ('field', handle, 'search_opts')
        ctx.add('A1.saved-handle-options', 'timeout/search_opts', loc(B.root), okt, 'timeout and search options are not copied to the saved handle')
        sc = h.get(('field', H, 'controls'), ('unk',))
        filt = sc[2][0] if sc[0] == 'ctor' and sc[1] == 'Some' else ('unk',)
        okc = filt[0] == 'many' and filt[3] == filt[2] and absx.leaves(filt[1], lambda x: strip_site(x) == ('field', handle, 'controls')) != []
        if not okc and filt in (('array', ()), ('vec', ())) and \
                absx.pc_variant([(strip_site(a), t) for a, t in o.st.pc], lambda x: x == ('field', handle, 'controls'), 'Some') is False:
            okc = True          # the caller set no controls: the (empty) default list stands in for them
        if not okc and filt[0] == 'many' and filt[3] == filt[2] and filt[1] == ('vec', ()) and \
                absx.pc_variant([(strip_site(a), t) for a, t in o.st.pc], lambda x: x == ('field', handle, 'controls'), 'Some') is False:
            okc = True          # the caller set no controls: the (empty) default list stands in for them
        if not okc and any_found is False:
            # no control of the caller is a paging control (the any() test said so): the whole list is the filtered list
            okc = absx.leaves(filt, lambda x: strip_site(x) == ('field', handle, 'controls')) != [] and not absx.leaves(filt, lambda x: x[0] == 'struct' and x[1].endswith('PagedResults'))
        ctx.add('A1.saved-controls-without-paging', 'self.ldap.controls', loc(B.root), okc, 'the saved controls are not the caller\'s controls filtered of the paging control: %s' % absx.fmt(sc)[:100])
        template_clean.append(okc)
        stc = h.get(('field', ('field', STREAM, 'ldap'), 'controls'), ('unk',))
        v = stc[2][0] if stc[0] == 'ctor' and stc[1] == 'Some' else ('unk',)
        segs = content(v, lambda x: x == filt)
        okp = segs[:-1] == content(filt, lambda x: x == filt) and segs[-1:] and segs[-1][0] == 'one' \
            and is_paging(segs[-1][1], lambda s: s == ('field', SELF, 'page_size'), lambda c: c == ('vec', ()))
        ctx.add('A1.first-request-control', 'stream.ldap.controls', loc(B.root), okp,
                'the first request must carry the caller\'s controls plus PagedResults{size: self.page_size, cookie: empty}: %s' % absx.fmt(stc)[:120])
        # what the adapter's fields hold when start() is left (whatever statement put it there: a field-by-field save, a wholesale
        # `*self = Self { .., ..Self::new(n) }` whose unlisted fields take the constructor's values): the Search parameters a
        # follow-up is rebuilt from ARE the arguments this call of start() was given, the page size is the one the adapter had
        wrong = [saved_parameter_fault(fld, what, h.get(('field', SELF, fld)), want, placeholders)
                 for fld, what, want in (('base', 'base', ('param', 'base')), ('scope', 'scope', ('param', 'scope')), ('filter', 'filter', ('param', 'filter')),
                                         ('attrs', 'attribute list', ('ctor', 'Some', (('param', 'attrs'),))))
                 if h.get(('field', SELF, fld)) != want]
        ctx.add('A1.saves-search-parameters', 'base/scope/filter/attrs', loc(B.root), not wrong, 'the search parameters are not saved from the arguments start() was called with' + (': ' + '; '.join(wrong) if wrong else ''))
        size = h.get(('field', SELF, 'page_size'), ('field', SELF, 'page_size'))
        ctx.add('A1.keeps-page-size', 'self.page_size', loc(B.root), size == ('field', SELF, 'page_size'),
                'start() leaves %s in the adapter as the page size, not the size the adapter was constructed with: the first request asks for pages of the requested size, '
                'every follow-up for pages of another' % absx.fmt(size)[:80])
        oku = len(up) == 1 and up[0][2] == (STREAM, ('param', 'base'), ('param', 'scope'), ('param', 'filter'), ('param', 'attrs')) and o.val == ('await', ('call', up[0][1], up[0][2], up[0][3].get('id')))
        ctx.add('A1.upcall', 'stream.start', loc(B.root), oku, 'the upcall does not receive (base, scope, filter, attrs) in order or its result is not returned')
    flag_form = any(e[0] == 'loop-carried' and e[3]['k'] == 'Closure' for o in outs for e in o.st.ev)
    for need in ('refuse', 'proceed') + (('refuse-earlier',) if flag_form else ()):
        ctx.add('A1.coverage', need, loc(B.root), need in seen, 'no path of start() for ' + need)

    # ------------------------------------------------------------------ A2 next
    N = hirq.Body(f, f.body(PR + 'next'))
    ctx.analysed['bodies'].add(N.path)
    # next() crosses any number of page boundaries in one call (an empty page that carries a cookie): the page loop is evaluated as ONE
    # GENERIC ITERATION, from every state its back edge can hand to the loop head - what the locals bound before the loop hold there
    # is read off the paths (absx.carry_env: the entry value, what one trip around the loop makes of it, and an unknown for the
    # rest).  Every obligation below is stated about every path from every such state, so it is an inductive argument over the
    # loop: a vector, flag or handle that is built before the loop and changed inside it is judged with what the previous page
    # boundary left in it.  (The adapter's saved fields need no such treatment: A2.saved-state-unchanged shows that every path,
    # the ones that reach the back edge included, leaves them as they were.)
    I = absx.Interp(f, N, unroll=1, for_once=True, combinators=True, places=True, generic_loops=True, inline=lambda cal: cal.startswith('ldap3::ldap::Ldap::with_') or cal == HANDLE_FN)
    I.carry_env = True
    outs = I.run(root=inner(N.root))
    seen = set()
    saved = ('variant', ('field', SELF, 'ldap'), 'Some', 0)
    T0 = ('variant', ('field', saved, 'controls'), 'Some', 0)        # the saved control template (as next() finds it)
    # Invariant of the saved template: it holds no control with the paging OID.  start() establishes it on every path that saves a
    # template (A1.saved-controls-without-paging), nothing but start() and next() can write the field (A1.template-writers), and
    # next() leaves the adapter's saved state as it found it on every path (A2.saved-state-unchanged, judged on all paths, pruned or
    # not).  Under it a path of next() on which a control of the template tests equal to the paging OID is infeasible.
    writers = template_writers(f)
    ctx.add('A1.template-writers', 'PagedResults.ldap', loc(N.root), not writers, 'the saved handle can be written outside start()/next(): %s' % ', '.join(writers))
    inv = bool(template_clean) and all(template_clean) and not writers
    def from_template(x):
        return x[0] == 'elem' and x[1] in (T0, ('enumerate', T0))
    def infeasible(o):
        for a, t in o.st.pc:
            if t and is_oid_test(a) and absx.leaves(a[2][1], from_template):
                return True
            if t and a[0] in ('any', 'position') and a[1] == T0 and a[3] and all(any(tr and is_oid_test(c) for c, tr in cnd) for cnd in a[3]):
                return True
        return False
    def missing_template(o):
        """the path ends in the expect() / unwrap() of a value of the adapter's saved state (the saved handle, its controls, the saved
        attributes) that the path found absent"""
        e = o.st.ev[-1] if o.st.ev else None
        return e is not None and e[0] == 'panic' and e[1].startswith('core::option::Option::<T>::') and e[1].rsplit('::', 1)[-1] in absx.Interp.OPTION_PAYLOADS \
            and bool(e[2]) and rooted_in(e[2][0], SELF) and e[2][0] != SELF and absx.pc_variant(o.st.pc, lambda v: v == e[2][0], 'None') is True
    judged = []
    page_ends = []              # the paths on which the upstream reported the end of a page
    foreign = {}                # what else of the page's result the page-end paths test: {what: [(severity, atom, truth, what the path does)]}
    request_fields = set()      # the fields of the adapter a follow-up request is built from (read off the follow-up paths)
    def judge_state(o, which):
        judged.append((o, which))
    def judge_state_now(o, which):
        ch = [c for fld in sorted(request_fields) for c in state_changes(o, ('field', SELF, fld), I)]
        ctx.add('A2.saved-state-unchanged', which, loc(N.root), not ch,
                'next() must leave what it saved for the follow-up requests (handle, controls, base, scope, filter, attrs, page size) as it found it - '
                'a later page would be asked for with something else: %s' % '; '.join(ch)[:200])
    for o in outs:
        ups = [e for e in o.st.ev if e[0] == 'call' and e[1].endswith("SearchStream::<'a, S, A>::next")]
        if len(ups) != 1:
            continue
        if infeasible(o):
            if not inv:
                ctx.fail('A2.template-holds-no-paging-control', 'saved controls', loc(N.root), 'next() reckons with a paging control among the saved controls, and start() / the writers of the saved handle do not exclude it')
            judge_state(o, 'template-with-paging-control')
            if inv:
                continue
        up = ('await', ('call', ups[0][1], ups[0][2], ups[0][3].get('id')))
        is_none = absx.pc_variant(o.st.pc, lambda v: v == ('variant', up, 'Ok', 0), 'None')
        searches = [e for e in o.st.ev if e[0] == 'call' and e[1].endswith('Ldap::streaming_search')]
        removes = [e for e in o.st.ev if e[0] == 'call' and e[1].endswith('Vec::<T, A>::remove')]
        parses = [e for e in o.st.ev if e[0] == 'call' and e[1] == 'ldap3::controls_impl::RawControl::parse']
        if is_none is not True:
            seen.add('passthrough')
            judge_state(o, 'passthrough')
            ctx.add('A2.passthrough', 'entries / errors', loc(N.root), sem.reconstructs(o.val, up) and not searches and not removes, 'anything but Ok(None) must be returned unchanged')
            continue
        # The page has ended and its result is what stream.res holds.  What happens now - end, follow-up, removal of the control - may
        # depend on nothing but: is there a result, is there a paging control among its controls, is that control's cookie empty.
        # Stated about every path on which the upstream answered Ok(None), whatever it goes on to do: no test on the way (an `if`, a
        # guard, a literal or a range inside a pattern, a `matches!`) reads another part of the result or of the control.
        for what, a, t in foreign_tests(o):
            ended = not searches and o.kind == 'ret'
            sev, outcome = (0, 'ends the search without looking at the cookie (the pages that remain are never requested, the paging control stays in the final result)') \
                if ended and not parses and not removes else \
                (1, 'ends the search and leaves the paging control in the final result') if ended and not removes else \
                (2, 'asks for the next page') if searches else (2, 'removes the paging control and ends') if removes else (2, 'goes on')
            foreign.setdefault(what, []).append((sev, absx.fmt(a)[:80], 'true' if t else 'false', outcome))
        page_ends.append(o)
        ctx.add('A2.page-end-decided-by-cookie-alone', 'page-end path %d' % len(page_ends), loc(N.root), True, '')
        res_some = next((t for a, t in o.st.pc if a == ('is', ('field', STREAM, 'res'), 'Some')), None)
        if res_some is False:
            seen.add('no-result')
            judge_state(o, 'no-result')
            ctx.add('A2.no-result', 'stream.res is None', loc(N.root), o.val == ('ctor', 'Ok', (('ctor', 'None', ()),)) and not searches, 'without a stored result the adapter must just end')
            continue
        ctrls = ('field', ('variant', ('field', STREAM, 'res'), 'Some', 0), 'ctrls')
        is_pr = any(t and a[0] == 'is' and a[2] == 'ControlType::PagedResults' for a, t in o.st.pc)
        pos = [(t, src, el, conds) for t, src, el, conds in sem.search_atoms(o.st.pc, 'position')
               if any(a[0] == 'is' and a[2] == 'ControlType::PagedResults' and tr for cnd in conds for a, tr in cnd)]
        if pos:
            is_pr = pos[0][0]
        if not is_pr:
            # "the result holds no paging control" is something the path must have found out: a test over the result's control list (an
            # element's type found different, a search that came back empty, an empty list) - a path that ends here for another reason,
            # or for none the rules can read, has not looked
            looked = any(absx.leaves(a, lambda x: x == ctrls) for a, t in o.st.pc)
            ctx.add('A2.page-end-looks-for-the-control', 'result present', loc(N.root), looked,
                    'with the page\'s result present next() ends the search without having looked for the paging control among its controls (no test on the path reads the control list): '
                    'a cookie in it is ignored, the pages that remain are never requested, the control stays in the final result')
            seen.add('no-paging-control')
            judge_state(o, 'no-paging-control')
            ctx.add('A2.no-paging-control', 'result without the control', loc(N.root), o.val == ('ctor', 'Ok', (('ctor', 'None', ()),)) and not searches and not removes,
                    'a result without a paging control must end the search and leave the controls alone')
            continue
        okparse = len(parses) == 1 and 'paged_results::PagedResults' in (parses[0][3].get('targs') or '') and absx.leaves(parses[0][2][0], lambda x: x == ctrls) != []
        ctx.add('A2.parses-response-control', 'PagedResults', loc(N.root), okparse, 'the response control is not parsed as PagedResults from the stored result\'s controls')
        if not parses:
            continue
        pterm = ('call', parses[0][1], parses[0][2], parses[0][3].get('id'))
        cookie = ('field', pterm, 'cookie')
        empty = next((t for a, t in o.st.pc if a[0] == 'call' and a[1].endswith('::is_empty') and a[2][0] == cookie), None)
        if empty is True:
            seen.add('last-page')
            judge_state(o, 'last-page')
            okr = len(removes) == 1 and removes[0][2][0] == ctrls and removes[0][2][1][0] == 'field' and removes[0][2][1][2] == '0' and removes[0][2][1][1][0] == 'elem' and not searches \
                and o.val == ('ctor', 'Ok', (('ctor', 'None', ()),))
            # the index must count positions of the very vector it is applied to: enumerate() directly over that vector's
            # elements (a filter / skip / rev in between numbers a different sequence)
            if not okr and len(removes) == 1 and removes[0][2][0] == ctrls and removes[0][2][1][0] == 'variant' and removes[0][2][1][1][0] == 'ctor':
                pass
            idx = removes[0][2][1] if len(removes) == 1 else ('unk',)
            if idx[0] == 'posidx' and removes[0][2][0] == ctrls and not searches and o.val == ('ctor', 'Ok', (('ctor', 'None', ()),)):
                # `ctrls.iter().position(..)`: the index counts the vector it is applied to when the search runs over that vector itself
                okr = True
                src = idx[1][1]
                if src != ctrls:
                    okr = False
                    ctx.fail('A2.removal-index-counts-the-same-vector', 'empty cookie', loc(N.root),
                             'the index used to remove the paging control is a position in %s, not in the control vector itself' % absx.fmt(src)[:100])
            elif okr:
                src = removes[0][2][1][1][1]
                okr = src == ('enumerate', ctrls)
                if not okr:
                    ctx.fail('A2.removal-index-counts-the-same-vector', 'empty cookie', loc(N.root),
                             'the index used to remove the paging control enumerates %s, not the control vector itself: another control can be removed and the paging control left in the result' % absx.fmt(src)[:100])
            ctx.add('A2.last-page-strips-control', 'empty cookie', loc(N.root), okr, 'an empty cookie must end paging and remove exactly the paging control (by its index) from the final result')
            continue
        if empty is None:
            ctx.fail('A2.cookie-test', 'cookie', loc(N.root), 'the response cookie is not tested for emptiness'); continue
        # the iteration this path stands for: the first one of this call, or one that starts with what an earlier page boundary of
        # the same call left in the locals bound before the page loop
        later = [e for e in o.st.ev if e[0] == 'loop-carried' and e[3].get('k') in ('Loop', 'While') and e[2] != e[4]]
        lname = lambda e: (N.defs.get(e[1]) or {}).get('name') or e[1]
        if o.kind == 'div' and not searches and not removes and missing_template(o):
            # the follow-up cannot be built because nothing was saved (start() has not run): the adapter gives up there, by the
            # expect() on the missing value - the alternative every other path notes as `may-panic` at the same expect(), here as
            # a path of its own because the code asked for the saved value before it needed it
            seen.add('no-template')
            judge_state(o, 'no-template')
            continue
        if len(searches) != 1:
            ctx.fail('A2.follow-up', 'non-empty cookie', loc(N.root), 'a non-empty cookie must issue exactly one follow-up search'); continue
        s = searches[0]
        H2 = s[2][0]
        okc = H2[0] == 'call' and H2[1].endswith('::clone') and H2[2][0] == saved
        args_ok = s[2][1:] == (('field', SELF, 'base'), ('field', SELF, 'scope'), ('field', SELF, 'filter'), ('variant', ('field', SELF, 'attrs'), 'Some', 0))
        h = o.st.heap
        def carried_over(fld):
            """the new handle's modifier `fld` is the saved handle's on this path: copied, or set to Some(x) where the saved one is Some(x),
            or left alone where the saved one is None (a cloned handle starts without modifiers - C02 M4)"""
            have, want = h.get(('field', H2, fld)), ('field', saved, fld)
            if have is not None and sem.strip_site(have) == sem.strip_site(want):
                return True
            is_some = next((t for a, t in o.st.pc if a == ('is', want, 'Some')), None)
            if have is None:
                return is_some is False
            inner_v = ('variant', want, 'Some', 0)
            return is_some is True and have[0] == 'ctor' and have[1] == 'Some' and len(have[2]) == 1 and sem.strip_site(have[2][0]) in (inner_v, ('call', 'clone', (inner_v,), None))
        okt = carried_over('timeout') and carried_over('search_opts')
        c2 = h.get(('field', H2, 'controls'), ('unk',))
        v = c2[2][0] if c2[0] == 'ctor' and c2[1] == 'Some' else ('unk',)
        # what the control vector holds on this path, element by element: every saved control, then one paging control
        segs = content(v, lambda x: x == T0)
        okv = len(segs) == 2 and segs[0] == ('all', T0) and segs[1][0] == 'one' and is_paging(segs[1][1], lambda x: x == ('field', SELF, 'page_size'), lambda c: c == cookie)
        sterm = ('await', ('call', s[1], s[2], s[3].get('id')))
        sok = next((t for a, t in o.st.pc if a == ('is', sterm, 'Ok')), None)
        which = 'follow-up|ok' if sok is True else 'follow-up|err'
        inst = which + ''.join('|%s as the previous page boundary left it' % lname(e) if e[2][0] != 'carried' else '|%s as any earlier page boundary left it' % lname(e) for e in later)
        why = ''
        if not okv and later:
            n_paging = len([x for x in segs if x[0] == 'one' and x[1][0] == 'struct' and x[1][1].endswith('paged_results::PagedResults')])
            held = '; '.join('`%s` (bound before the page loop) arrives at the loop head holding %s' % (lname(e), absx.fmt(e[2])[:110]) for e in later)
            why = (' - at a page boundary that is not the first one crossed in this call of next() (an empty page that carries a cookie): %s; ' % held) + \
                  ('the control vector carries the paging control of the previous page boundary over, the request goes out with %d paging controls' % n_paging if n_paging > 1 else
                   'the request goes out without the paging control' if n_paging == 0 and all(x[0] != 'opaque' for x in segs) else
                   'what the earlier page boundaries left there goes out with the request')
        used = [s[2], c2] + [h.get(('field', H2, fld), ('unk',)) for fld in ('timeout', 'search_opts')]
        request_fields.update(x[2] for x in absx.leaves(tuple(used), lambda x: x[0] == 'field' and x[1] == SELF))
        seen.add(which)
        judge_state(o, which)
        ctx.add('A2.follow-up-handle', inst, loc(s[3]), okc and okt, 'the follow-up search is not issued on a clone of the saved handle with its timeout and options')
        ctx.add('A2.follow-up-parameters', inst, loc(s[3]), args_ok, 'the follow-up search does not repeat (self.base, self.scope, self.filter, self.attrs) in order: %s' % [absx.fmt(a) for a in s[2][1:]])
        ctx.add('A2.follow-up-controls', inst, loc(s[3]), okv, 'the follow-up controls are not the saved ones plus exactly one PagedResults{size: self.page_size, cookie: <cookie just returned>}: %s%s' % (absx.fmt(c2)[:140], why))
        if sok is True:
            news = ('variant', sterm, 'Ok', 0)
            # ... and with whatever the stream keeps as its record of the Search it is fed by (streamid: the ID its expiry / early finish
            # scrubs): after the splice that must name the new Search
            import streamid
            SID = streamid.StreamSearchId(f)
            rec_ok = all(h.get(('field', STREAM, F)) == ('field', news, F) for F in SID.record_fields)
            oksp = h.get(('field', STREAM, 'ldap')) == ('field', news, 'ldap') and h.get(('field', STREAM, 'rx')) == ('field', news, 'rx') and rec_ok and not removes and o.kind in ('loop', 'cont')
            ctx.add('A2.splices-new-stream', which, loc(N.root), oksp, 'after a successful follow-up the stream must continue on the new search\'s handle and receiver' + ('' if rec_ok else ' and take over its record of the Search\'s message ID (%s): a later expiry or early finish would scrub the previous page\'s ID' % ', '.join(SID.record_fields)))
        else:
            ctx.add('A2.follow-up-error-returned', which, loc(N.root), o.kind == 'ret' and sem.is_err_result(o.val) and sem.has(o.val, lambda x: x == sterm) and not removes, 'a failed follow-up search must be returned as the error')
    for what, l in sorted(foreign.items()):
        # one report per part of the result that is read, worded by the path that loses most (pages not requested > control left in)
        sev, atom, truth, outcome = sorted(l)[0]
        ctx.fail('A2.page-end-decided-by-cookie-alone', what, loc(N.root),
                 'the page\'s %s decides whether its cookie is looked at / its paging control removed: where `%s` is %s next() %s; at the end of a page '
                 'nothing but the presence of the page\'s result, of the paging control in it and the emptiness of its cookie may decide what happens '
                 '(%d path(s) of next() test it)' % (what, atom, truth, outcome, len(l)))
    for o, which in judged:
        judge_state_now(o, which)
    for need in ('passthrough', 'no-result', 'no-paging-control', 'last-page', 'follow-up|ok', 'follow-up|err'):
        ctx.add('A2.coverage', need, loc(N.root), need in seen, 'no path of next() for ' + need)
    # finish delegates
    Fn = hirq.Body(f, f.body(PR + 'finish'))
    ctx.analysed['bodies'].add(Fn.path)
    fo = absx.Interp(f, Fn).run(root=inner(Fn.root))
    ok = len(fo) == 1 and fo[0].val[0] == 'await' and fo[0].val[1][0] == 'call' and fo[0].val[1][1].endswith("SearchStream::<'a, S, A>::finish") and fo[0].val[1][2] == (STREAM,)
    ctx.add('A2.finish-delegates', 'finish', loc(Fn.root), ok, 'PagedResults::finish must return the upstream finish result unchanged')
