"""C11 - hostile or corrupt server bytes cannot crash or wedge the connection driver."""
import os
from facts import walk, callee_of, call_args, loc
import hirq, anchors, cone, engine, absx

EXPLANATION = ("H1 panic-source cone over the MIR call graph (resolved callees, closures, trait-object fan-out) from the frame decoder "
               "and the driver's response arm: every diverging call (panic!/unimplemented!/assert), every Assert terminator (bounds, "
               "overflow) and every call to an external function that may panic (#[track_caller] or the frozen may-panic table) must be "
               "absent, decided by a discharge rule that re-reads the code on every run (guarded arithmetic - also `x += c` on a local stored only there, once per call -, operands "
               "and indices bounded by construction against the array length of the indexed type, the consumed prefix, capped allocations, ...) or reviewed in rules/triage/C11.tsv (one reason per line); "
               "H2 every recursive cycle in that cone must be bounded: for a function that calls itself, on its enumerated paths (loops as one generic iteration) the entry depth has been "
               "compared with a constant, leaving on the far side, when a recursive call is made, and the call passes entry depth + 1 on every iteration however the step is spelled; "
               "a cycle through several functions by a depth parameter compared with a constant before the recursive call; H3 on the paths of the TLV parser an `Incomplete` that stems from a "
               "parser applied to a take(len)-bounded content slice (or the cursor walking it) is never what the function returns - converted at the call, in the callee under `depth > 0` "
               "(decided by induction over the nesting), or both; H4 a decode error "
               "leaves the driver loop with Err (dropping all reply senders): with the answer of the transport's stream fixed to Some(Err(e)) the select! hands it to the response arm and every path of the arm on it returns Err; H5 a frame that has arrived completely is delivered or rejected, "
               "never awaited: the frame decoder's path rules (shared with C06 G1 / G2) and, in the default and the gssapi configuration, "
               "Decoder::decode on a connection without a security layer answers what the frame decoder answers - a test of its own may say "
               "Ok(None) only for buffers too short to hold any complete element (rules/wrapper.py); H7 (C04 L6) the one-operation driver hands the connection back, and so stops decoding, only after the pending operation was answered; H8 what is and is not an LDAPMessage envelope: the frame decoder interpreted exactly on element trees (rules/envelope.py) - a well-formed envelope (universal constructed SEQUENCE of messageID 0..maxInt, protocolOp, controls [0] OPTIONAL; without, with an empty, with one, two and any controls, for any protocolOp and any ID content) is delivered with the ID, the operation and the controls it holds, each single-field mutation (class, tag number or form of the outer element; an element in front of the message ID; the ID missing, of another class / tag / form, empty, negative or too wide; a primitive, second or misplaced controls element; another element after the operation) is answered with an error, and the control-list decoder is only ever handed a constructed element (H6).  Not decided: memory exhaustion on huge announced lengths; "
               "panics inside external crates beyond the may-panic table.")
TRUSTED = ['the frozen may-panic classification of external callees (listed in the evidence)', 'reviewed triage table rules/triage/C11.tsv']
UNDECIDED = ['allocation size / memory exhaustion', 'panics inside external crates not marked #[track_caller] and not in the may-panic table',
             'an edit that removes the guard of a source triaged "infeasible" is not seen by the cone rule']
ASSUMPTIONS = ['request-side code reached only through Encoder::encode is driven by the client, not the peer, and is outside this cone']
SHARED = [('C01', ('R1.envelope-path', 'R1.decoder'), 'H6.guards-of-reviewed-sources'),
          # C11's clause "input that is not a well-formed LDAPMessage envelope ends the connection with a decoding error that every
          # pending operation observes [nor does the driver wait forever]": H4 decides that a decode error met by the driver loop ends
          # it with Err, which drops every reply sender.  That presupposes that the driver is still reading when the bad bytes arrive:
          # the one-operation driver (StartTLS set-up) stops reading and hands the connection - routing maps and all - back to a caller
          # that keeps it; when it does so before the pending operation was answered (after a well-formed message nobody waits for),
          # whatever follows on the wire is never decoded, the decoding error is never raised and the pending operation neither
          # observes it nor ends.  C04 L6 decides, on the paths of the arms, that the connection is handed back only after a reply was
          # delivered to the operation registered under the decoded ID
          ('C04', ('L6.',), 'H7.driver-reads-on-until-the-pending-operation-is-answered')]      # H6: two panic sources are reviewed as infeasible because the frame decoder guards them (only a constructed [0] reaches the control-list decoder: decided on the envelope trees, see check_envelope_shape; only Tag::StructureTag leaves the decoder: C01 R1.envelope-path, on every success path): those guards are re-decided on every run

QUICK_CONFIGS = ['default', 'gssapi']      # the decoder has a second form with the gssapi feature (the SASL token layer around the frame decoder): a frame that is awaited forever there wedges the connection just the same

TRIAGE = os.path.join(engine.VERIF, 'rules', 'triage', 'C11.tsv')

def decoder_entry(f):
    c = [it['path'] for it in f.items_all if it.get('kind') == 'AssocFn' and it.get('impl_trait_def') == 'tokio_util::codec::decoder::Decoder'
         and it['path'].endswith('::decode')]
    return anchors.one('Decoder::decode implementation', c)

def check_envelope_shape(ctx, f, dp):
    """H8 "input that is not a well-formed LDAPMessage envelope ends the connection with a decoding error": what the frame decoder
    makes of an element the TLV parser hands it is decided by exact interpretation of the decoder on element trees
    (rules/envelope.py) - the parser's answer fixed to one tree at a time, the accessors of the tree type (match_class / match_id /
    expect_*) and the unsigned reader inlined, the element vector tracked exactly.  The trees are a well-formed envelope (RFC 4511
    4.1.1: a universal constructed SEQUENCE of messageID INTEGER (0..maxInt), protocolOp, controls [0] OPTIONAL - with no, an
    empty, one, two and any controls, any operation, any ID content) and its single-field mutations: the outer element's class, tag
    number and form; an element in front of the message ID; the message ID missing, of another class, tag or form, empty, negative or
    too wide; a primitive, a second or a misplaced controls element; some other element after the operation.  A well-formed envelope
    must be delivered with the ID, the operation element and the controls it holds; every mutation must be answered with an error -
    not delivered, not answered with "need more" (the frame is complete), not a panic.  H6 (a guard the panic cone leans on):
    wherever the control-list decoder is called on the way, it is handed a constructed element."""
    import envelope
    envelope.check(ctx, f, dp, {'good': 'H8.well-formed-envelope-is-delivered', 'bad': 'H8.malformed-envelope-is-a-decoding-error',
                                'tolerated': 'H8.tolerated-deviation-is-delivered-or-refused', 'guard': 'H6.guards-of-reviewed-sources.control-decoder-gets-a-constructed-element'})


def run(ctx):
    f = ctx.facts
    C = anchors.Conn(f)
    G = cone.Graph(f, engine.REPO)
    dec = decoder_entry(f)
    resp = C.arms['response']
    loop_mir = C.loop_path + '::{closure#0}'
    sp = resp['body']['sp']
    regions = {loop_mir: (sp[0], sp[1], sp[2], sp[3], sp[4])}
    parent = G.cone([dec, loop_mir], regions)
    ctx.analysed['bodies'].update(parent.keys())
    srcs, ext = G.sources(parent, regions)
    ctx.analysed['notes'].append({'external_callees': {k: list(v) for k, v in sorted(ext.items())}})
    triage = cone.load_triage(TRIAGE)
    ctx.floor('H1', 'bodies in the decode-side cone', len(parent), 8)
    groups = cone.group_keys(srcs)
    def describe(s):
        chain = ' -> '.join(x.split('::')[-1] if '{closure' not in x else x.split('::')[-2] + '::{closure}' for x in G.chain(parent, s.fn))
        return 'peer-reachable panic source (%s) via %s' % (s.kind, chain)
    import controls
    controls.panic_cone(ctx)
    cone.judge(ctx, 'H1.panic-source', groups, triage, describe)
    ctx._cone = (G, parent, regions, srcs)
    if not srcs:
        ctx.ok('H1.panic-source', 'none', '', 'no panic source in the cone')

    # ---- H5 a frame that has arrived completely is delivered or rejected, never awaited (the frame decoder's path rules, shared with C06)
    from props import C06
    dp = C06.check_frame_decoder(ctx, f, 'H5', 'H5')
    check_envelope_shape(ctx, f, dp)
    # ... and Decoder::decode, which Framed calls, puts nothing of its own between the bytes and the frame decoder on a connection
    # without a security layer: a test of its own that answers Ok(None) for a buffer that already holds a complete element keeps that
    # element waiting for bytes the peer need not send - neither delivered nor rejected (rules/wrapper.py; both configurations)
    import wrapper
    D = hirq.Body(f, f.body(dec))
    if D.path != dp:
        wrapper.check(ctx, f, D, dp, 'H5.complete-frame-reaches-the-frame-decoder', id_range=C06.DELIVERED_IDS)      # (the bounds of a delivered ID: H8 above)

    # ---- H2 recursion
    cycles = G.sccs(set(parent.keys()))
    for comp in cycles:
        # a function that calls itself is decided on its enumerated paths (the depth is followed through mutable locals and the
        # iterations of a loop); a cycle through several functions by the structural rule below
        ok, why = depth_bounded_on_paths(f, comp[0]) if len(comp) == 1 and comp[0] in getattr(f, 'hir_all', f.hir) else any_depth_bounded(f, comp)
        ctx.add('H2.bounded-recursion', ' <-> '.join(comp), f.mir[comp[0]]['span'][0] + ':%d' % f.mir[comp[0]]['span'][1], ok, why)
    if not cycles:
        ctx.ok('H2.bounded-recursion', 'no recursive cycle in the cone', '')

    # ---- H3 inner Incomplete (path rule, see check_inner_incomplete)
    tlv = [p for p in parent if p.startswith('lber::parse::') and p in f.hir]
    may_inc = {}
    def may_incomplete(p):
        if p not in may_inc:
            par = G.cone([p])
            r = False
            for q in par:
                for c, t, bb in G.ext[q]:
                    if c and '::streaming::' in c:
                        r = True
                for b in f.mir[q]['blocks']:
                    for st in b['stmts']:
                        if 'Err::Incomplete' in st or 'nom::Err::<' in st and 'Incomplete' in st:
                            r = True
            may_inc[p] = r
        return may_inc[p]
    n_try = 0
    for p in sorted(tlv):
        n_try += check_inner_incomplete(ctx, f, p, may_incomplete)
    ctx.floor('H3', 'propagating parser calls examined in the TLV parser', n_try, 1)

    # ---- H4 decode error ends the connection.  A path rule over what the driver loop does with the transport's answer - not over how
    # the response arm spells its tests (one `match` with three arms, `let Some(x) = x else { break }` followed by a `match` on the
    # Result, `?` on a converted error ...): with the answer of `stream.next()` fixed to Some(Err(e)) the select! hands it to the
    # response arm (driver.select_answer: the branch's piece of the macro's poll closure interpreted on that answer - a branch pattern
    # that does not match it would make the macro swallow the error), and every path of the arm on it leaves the loop by returning
    # Err: the driver, and with it every reply sender, is dropped, so every pending operation observes the end of the connection.
    # Likewise the end of the stream (None) leaves the loop.
    import driver, sem
    SOME_ERR = ('ctor', 'Some', (('ctor', 'Err', (('param', 'E'),)),))
    r_err = driver.answer_fate(C, 'response', SOME_ERR)
    ctx.add('H4.decode-error-reaches-the-arm', 'Some(Err(_))', loc(resp['body']), bool(r_err['delivered']) and not r_err['consumed'] and not r_err['unread'],
            'a decode / read error of the transport (Some(Err(e))) is not handed to the response arm of the driver loop: %s' % (
                'the arm\'s pattern does not match it, so the select! only switches the branch off for this call and the error is lost' if r_err['consumed']
                else 'what the select! does with it could not be read off the macro\'s expansion'))
    for o in r_err['handler'] or []:
        ctx.add('H4.decode-error-returns-err', 'Some(Err(_))|%s' % o.kind, loc(resp['body']), o.kind == 'ret' and sem.is_err_result(o.val),
                'a decode / read error does not make the driver return Err: on the answer Some(Err(e)) a path of the response arm ends in `%s`%s' % (
                    o.kind, (' with ' + absx.fmt(o.val)[:40]) if o.kind == 'ret' else ''))
    ctx.floor('H4', 'paths of the response arm on a decode / read error', len(r_err['handler'] or []), 1)
    r_none = driver.answer_fate(C, 'response', driver.NONE)
    for o in r_none['handler'] or []:
        ctx.add('H4.eof-leaves-loop', 'None|%s' % o.kind, loc(resp['body']), driver.leaves_driver_loop(C, o), 'end of stream does not leave the driver loop (a path of the response arm on the answer None ends in `%s`)' % o.kind)


NOM_ERR = ['Err::Incomplete', 'Err::Error', 'Err::Failure']
UNSIGNED = ('usize', 'u8', 'u16', 'u32', 'u64')

def check_inner_incomplete(ctx, f, p, may_incomplete):
    """H3, on the enumerated paths of a parser function of lber (loops as one generic iteration, `map_err` / `or_else` / helper
    closures evaluated by cases): an `Incomplete` that stems from a parser applied to a *bounded* slice - the content cut out by
    `take(announced length)`, the cursor that walks it, a remainder of either - must not be what the function returns; the octets
    are all there, so the frame would be re-parsed forever.  Per error path the returned error is traced to its origin:
      a constructed Error / Failure, or an error the path condition says is not Incomplete (converted, wherever the conversion sits:
      `map_err` at the call, a helper, a `match`) - fine;
      the error of a parser applied to the function's own input or a remainder of it - a genuine request for more input when the
      function was called on the caller's buffer;
      the error of a parser applied to a bounded slice, handed on as it is - a violation, unless that parser is the function itself
      called one level further down and the function, called with depth > 0, never answers Incomplete.  That claim is decided by
      induction over the nesting: every path that may answer Incomplete either excludes depth > 0 by its condition (`if depth > 0`
      in a callee-side conversion), or hands on the answer of a recursive call whose depth argument is entry depth + k, k >= 1
      (induction hypothesis; that the step cannot wrap is H1's overflow obligation).
    What is bounded is decided strictly: only the function's slice parameter and remainders of parsers applied to it count as
    unbounded; anything the rule cannot trace is treated as bounded (fail closed).  Returns the number of error paths examined."""
    import absx, sem
    B = hirq.Body(f, f.hir[p])
    outs = absx.Interp(f, B, unroll=1, result_combinators=True, generic_loops=True).run()
    slice_params = {('param', d['name']) for b, d in B.defs.items() if d['kind'] == 'param' and not d['proj'] and hirq.strip_refs((d['pat'].get('ty') or '')) == '[u8]'}
    ints = [('param', d['name']) for b, d in B.defs.items() if d['kind'] == 'param' and not d['proj'] and (d['pat'].get('ty') or '') in UNSIGNED]
    D = ints[0] if len(ints) == 1 else None          # the nesting depth, by role: the one unsigned integer parameter
    carried_ty = {b: hirq.strip_refs(d['pat'].get('ty') or '') for b, d in B.defs.items()}

    def application(t):
        """(parser term | callee, input term) of a parser application `parser(input)` / `callee(input, ..)`, else None"""
        if t[0] == 'call' and t[1] == '<indirect>' and len(t[2]) == 2:
            return t[2][0], t[2][1]
        if t[0] == 'call' and t[1] != '<indirect>' and t[2]:
            return ('fn', t[1]), t[2][0]
        return None
    def is_take(parser):
        return parser[0] == 'call' and parser[1] in ('nom::bytes::streaming::take', 'nom::bytes::complete::take')
    def unbounded(t, o, seen=()):
        """t is (a suffix of) the slice the function was given: the parameter itself, the remainder `.0` of a parser applied to such
        a slice, or the loop-carried cursor that starts as one and is one again at every back edge"""
        t = sem.strip_site(t)
        if t in slice_params:
            return True
        if t[0] == 'field' and t[2] == '0' and t[1][0] == 'variant' and t[1][2] == 'Ok' and t[1][3] == 0:
            app = application(t[1][1])
            return app is not None and unbounded(app[1], o, seen)
        if t[0] == 'carried' and t not in seen:
            ini = [e[4] for e in o.st.ev if e[0] == 'loop-carried' and sem.strip_site(e[2]) == t]
            backs = [x.st.env.get(t[1]) for x in outs if x.kind == 'loop' and any(e[0] == 'loop-carried' and e[1] == t[1] for e in x.st.ev)]
            return bool(ini) and all(unbounded(v, o, seen + (t,)) for v in ini) and all(v is not None and (sem.strip_site(v) == t or unbounded(v, o, seen + (t,))) for v in backs)
        return False
    def parser_may_incomplete(parser):
        """a parser value that can answer Incomplete: a streaming primitive of nom, a workspace function whose MIR cone contains one
        (or builds Incomplete itself), a combinator over such; a closure or anything unknown counts as one (fail closed)"""
        known = absx.leaves(parser, lambda x: x[0] in ('fn', 'call', 'closure', 'unk', 'param', 'unbound'))
        for x in known:
            if x[0] in ('closure', 'unk', 'param', 'unbound'):
                return True
            c = x[1]
            if c == p or '::streaming::' in c or (c in f.mir and may_incomplete(c)):
                return True
            if c not in f.mir and not c.startswith('nom::') and x[0] == 'fn':
                return True
        return not known
    def payload(v):
        """the nom::Err value an error path returns"""
        if v[0] == 'tryerr':
            v = v[1]
        if v[0] == 'ctor' and v[1] == 'Err' and len(v[2]) == 1:
            return v[2][0]
        return ('variant', v, 'Err', 0)
    def depth_excluded(o):
        """the path condition cannot hold for any entry depth > 0: its atoms over the depth parameter alone (comparisons with
        constants) are evaluated at every constant they mention and its neighbours, from 1 upwards"""
        if D is None:
            return False
        atoms = [(sem.strip_site(a), t) for a, t in o.st.pc if absx.leaves(a, lambda x: x == D) and not absx.leaves(a, lambda x: x[0] in ('call', 'carried', 'field', 'variant', 'unk') or (x[0] == 'param' and x != D))]
        consts = {x[1] for a, t in atoms for x in absx.leaves(a, lambda x: x[0] == 'lit' and isinstance(x[1], int) and not isinstance(x[1], bool))}
        pts = sorted({v for c in consts | {1} for v in (c - 1, c, c + 1) if 1 <= v <= 2 ** 64 - 1} | {2 ** 64 - 1})
        for v in pts:
            try:
                if all(bool(absx.eval_term(a, {D: v})) == t for a, t in atoms):
                    return False
            except absx.NotEvaluable:
                return False
        return True
    def steps_down(arg):
        """the depth argument of a recursive call is provably > 0: entry depth (or a value carried around the loop) plus k >= 1, or a positive literal"""
        arg = sem.strip_site(arg)
        if arg[0] == 'lit':
            return isinstance(arg[1], int) and not isinstance(arg[1], bool) and arg[1] > 0
        if arg[0] == 'bin' and arg[1] == 'Add' and arg[3][0] == 'lit' and isinstance(arg[3][1], int) and arg[3][1] >= 1:
            return arg[2] == D or (arg[2][0] == 'carried' and carried_ty.get(arg[2][1]) in UNSIGNED)
        return False
    didx = next((d['idx'] for b, d in B.defs.items() if d['kind'] == 'param' and ('param', d['name']) == D), None)

    inc = []          # (outcome, origin kind, parser / callee, input term, bounded input?)
    n = 0
    for o in outs:
        if o.kind not in ('val', 'ret') or not sem.is_err_result(o.val):
            continue
        n += 1
        e = sem.strip_site(payload(o.val))
        if e[0] == 'ctor' and e[1] in ('Err::Error', 'Err::Failure'):
            continue
        if e[0] == 'ctor' and e[1] == 'Err::Incomplete':
            inc.append((o, 'built', None, None, False)); continue
        if sem.variant_truth(o.st.pc, lambda v: sem.strip_site(v) == e, 'Err::Incomplete', NOM_ERR) is False:
            continue          # the path condition says the error is not Incomplete: converted or excluded on this path
        app = application(e[1]) if e[0] == 'variant' and e[2] == 'Err' else None
        if app is None:
            inc.append((o, 'unknown', None, e, True)); continue
        parser, inp = app
        if parser == ('fn', p):
            inc.append((o, 'rec', e[1], inp, not unbounded(inp, o)))
        elif parser_may_incomplete(parser):
            inc.append((o, 'prim', parser, inp, not unbounded(inp, o)))
    def rec_ok(o, call):
        return didx is not None and didx < len(call[2]) and steps_down(call[2][didx])
    # claim: called with depth > 0 the function never answers Incomplete
    breaks = [x for x in inc if not depth_excluded(x[0]) and not (x[1] == 'rec' and rec_ok(x[0], x[2]))]
    def where(x):
        if x[1] == 'prim':
            return 'inside its content octets' if is_take(x[2]) else 'inside its identifier / length octets'
        return 'on a path the rule cannot trace to a parser application' if x[1] == 'unknown' else 'by an Incomplete the function builds itself' if x[1] == 'built' else 'by a recursive call whose depth argument is not the entry depth plus a positive step'
    short = p.split('::')[-1]
    reported = set()
    for o, kind, parser, inp, bounded in inc:
        if not bounded:
            continue
        if kind == 'rec' and not breaks:
            continue          # nested calls never answer Incomplete: handing their error on as it is hands on no Incomplete
        if kind == 'rec':
            why = ('`%s(<content slice bounded by take(len)>, ..)?` hands the nested call\'s error on as it is, and a nested call (depth > 0) can answer Incomplete: %s; '
                   'the frame is complete but the decoder keeps waiting for bytes that cannot complete it'
                   % (short, '; '.join(sorted({'a nested element cut off %s yields Incomplete' % where(x) for x in breaks}))))
            callee = short
        elif kind == 'prim':
            callee = absx.fmt(parser)[:40]
            why = '`%s(<content slice bounded by take(len)>)?` propagates Incomplete: the frame is complete but the decoder keeps waiting for bytes that cannot complete it' % callee
            callee = callee.split('(')[0]
        else:
            callee = kind
            why = 'an error that may be Incomplete is returned %s (%s): not decided that a complete frame is never answered with a request for more input' % (where((o, kind)), absx.fmt(inp if inp else o.val)[:60])
        if (callee, why) in reported:
            continue
        reported.add((callee, why))
        ctx.fail('H3.inner-incomplete-propagates', '%s|%s' % (p, callee), loc(B.root), why)
    if not reported:
        ctx.ok('H3.inner-incomplete-propagates', '%s|%d error paths' % (p, n), loc(B.root),
               'no path returns an Incomplete that stems from a bounded slice' + ('; called with depth > 0 the function never answers Incomplete' if inc and not breaks and any(x[1] == 'rec' for x in inc) else ''))
    return n

def depth_atoms(pc, D):
    """the atoms of a path condition that speak about the term D and constants only"""
    import absx, sem
    return [(sem.strip_site(a), t) for a, t in pc if absx.leaves(a, lambda x: x == D)
            and not absx.leaves(a, lambda x: x[0] in ('call', 'carried', 'field', 'variant', 'unk', 'fresh', 'elem') or (x[0] == 'param' and x != D))]

def bounded_above(pc, D, top=2 ** 64 - 1):
    """The smallest constant c with: the path condition implies D <= c; None when it gives no upper bound.  Its atoms over D alone are
    comparisons with constants, so whether they can all hold is constant between consecutive change points: they are evaluated at
    every constant they mention and its neighbours, and at the top of the type."""
    import absx
    atoms = depth_atoms(pc, D)
    consts = {x[1] for a, t in atoms for x in absx.leaves(a, lambda x: x[0] == 'lit' and isinstance(x[1], int) and not isinstance(x[1], bool))}
    pts = sorted({v for c in consts for v in (c - 1, c, c + 1) if 0 <= v <= top} | {0, top})
    sat = []
    for v in pts:
        try:
            if all(bool(absx.eval_term(a, {D: v})) == t for a, t in atoms):
                sat.append(v)
        except absx.NotEvaluable:
            return None
    if top in sat or not atoms:
        return None
    return max(sat) if sat else -1

def depth_bounded_on_paths(f, p):
    """H2 for a function that calls itself, on its enumerated paths with every loop as one generic iteration (values a mutable local
    carries around the loop are unknowns): there is one integer parameter, the depth; at every recursive call
      (guard) the path condition *as it stands when the call is made* bounds the entry depth from above by a constant - a test made
        after the call bounds nothing -, and
      (step) the value passed in the depth position is the entry depth plus one - whichever way it is computed (`depth + 1` at the
        call, a `let`, `depth += 1` on the mutable parameter before the loop over the children) - on every iteration: a value that
        grows from one child to the next is not the nesting depth (the bound then limits the number of siblings), a value that is not
        stepped bounds nothing."""
    import absx, sem
    hir = getattr(f, 'hir_all', f.hir)
    B = hirq.Body(f, hir[p])
    INTS = ('usize', 'u32', 'u8', 'u16', 'u64', 'i32')
    ps = [d for b, d in B.defs.items() if d['kind'] == 'param' and not d['proj'] and (d['pat'].get('ty') or '') in INTS]
    short = p.rsplit('::', 1)[-1]
    if len(ps) != 1:
        return False, 'recursion on peer-controlled nesting without a depth bound (%s has no single integer depth parameter): stack overflow on deeply nested input' % short
    D, idx = ('param', ps[0]['name']), ps[0]['idx']
    def mark(I, cal, args, node, st):
        # the recursive call is left opaque (as without this summary); the event that follows it records how much of the path
        # condition had been established when the call was made
        if cal == p:
            return [absx.Out('val', ('call', cal, tuple(args), node.get('id')), st.event(('call', cal, tuple(args), node)).event(('pc-mark', len(st.pc))))]
        return None
    outs = absx.Interp(f, B, unroll=1, result_combinators=True, generic_loops=True, summaries=[mark]).run()
    n_calls, bound = 0, None
    for o in outs:
        ev = o.st.ev
        for i, e in enumerate(ev):
            if e[0] != 'call' or e[1] != p:
                continue
            n_calls += 1
            k = ev[i + 1][1] if i + 1 < len(ev) and ev[i + 1][0] == 'pc-mark' else 0
            c = bounded_above(o.st.pc[:k], D)
            if c is None:
                return False, 'recursion on peer-controlled nesting without a depth bound: on a path to the recursive call at %s the depth parameter has not been compared with a constant (leaving on the far side) before the call: stack overflow on deeply nested input' % loc(e[3])
            bound = c if bound is None else max(bound, c)
            if idx >= len(e[2]):
                return False, 'recursive call does not pass the depth counter'
            a = sem.strip_site(e[2][idx])
            if a == D:
                return False, 'recursion on peer-controlled nesting: the depth counter is passed on without being stepped at %s - the bound is never reached: stack overflow on deeply nested input' % loc(e[3])
            if absx.leaves(a, lambda x: x[0] == 'carried'):
                return False, ('the depth passed to a child depends on its position among its siblings (at %s the value %s is carried from one iteration of the loop over the children to the next): '
                               'what is compared with the bound is not the nesting depth' % (loc(e[3]), absx.fmt(a)[:60]))
            if a != ('bin', 'Add', D, ('lit', 1)):
                return False, 'recursion on peer-controlled nesting: the value passed in the depth position at %s is %s, not the entry depth stepped by 1' % (loc(e[3]), absx.fmt(a)[:60])
    if not n_calls:
        return False, 'the recursive call of %s is not reached on any enumerated path (not decided)' % short
    return True, 'every recursive call passes entry depth + 1 and is made only after the entry depth was found to be at most %d' % bound

def any_depth_bounded(f, comp):
    """A recursive cycle is accepted when a depth counter travels around it: every member has one integer parameter `d`; every
    call from a member to a member passes `d` or `d + 1` in the callee's depth position; at least one call steps by 1; and some
    member tests `d` against a constant (leaving on the far side) before its calls into the cycle."""
    hir = getattr(f, 'hir_all', f.hir)
    INTS = ('usize', 'u32', 'u8', 'u16', 'u64', 'i32')
    depth = {}
    for p in comp:
        if p not in hir:
            return False, 'recursion through %s, whose body is not available' % p
        B = hirq.Body(f, hir[p])
        ps = [(b, d) for b, d in B.defs.items() if d['kind'] == 'param' and (d['pat'].get('ty') or '') in INTS]
        if len(ps) != 1:
            return False, 'recursion on peer-controlled nesting without a depth bound (%s has no single integer depth parameter): stack overflow on deeply nested input' % p.rsplit('::', 1)[-1]
        depth[p] = (B, ps[0][0], ps[0][1])
    stepped = guarded = False
    for p, (B, b, d) in depth.items():
        rec_calls = [n for n, c in walk(B.root) if n['k'] in ('Call', 'MethodCall') and (callee_of(n) in comp)]
        guards = []
        for n, c in walk(B.root):
            if n['k'] == 'If' and n['cond']['k'] == 'Binary' and n['cond']['op'] in ('Gt', 'Ge', 'Eq', 'Lt', 'Le'):
                l, r = n['cond']['l'], n['cond']['r']
                if (hirq.local_of(l) == b and hirq.const_eval(f, r) is not None) or (hirq.local_of(r) == b and hirq.const_eval(f, l) is not None):
                    if hirq.diverges(n['then']) or (n.get('els') is not None and hirq.diverges(n['els'])):
                        guards.append(n)
        for rc in rec_calls:
            callee = callee_of(rc)
            idx = depth[callee][2]['idx']
            args = call_args(rc)
            if idx >= len(args):
                return False, 'recursive call does not pass the depth counter'
            a = hirq.peel_refs(hirq.resolve_expr(B, args[idx]))      # through an immutable `let child_depth = depth + 1;`
            if hirq.local_of(a) == b:
                pass
            elif a['k'] == 'Binary' and a['op'] == 'Add' and hirq.local_of(a['l']) == b and hirq.const_eval(f, a['r']) == 1:
                stepped = True
            else:
                return False, 'recursion on peer-controlled nesting: the depth counter is not passed on unchanged or stepped by 1 at %s' % loc(rc)
            if guards and all(B.before(g, rc) for g in guards[:1]):
                guarded = guarded or any(B.before(g, rc) for g in guards)
    if stepped and guarded:
        return True, 'recursion bounded by a depth counter compared with a constant'
    return False, 'recursion on peer-controlled nesting without a depth bound (no integer parameter compared with a constant before the recursive call and stepped by 1): stack overflow on deeply nested input'


def run_thorough(ctx):
    """cross-engine agreement: clippy's restriction lints (an independent, lexical implementation) inside the cone's bodies"""
    if ctx.cfg != 'default':
        return          # clippy is run with the default feature set: compared in that configuration only
    G, parent, regions, srcs = ctx._cone
    sites, info = engine.clippy_sites()
    n = cone.clippy_agreement(ctx, 'H1.cross-engine-agreement', G, parent, regions, srcs, sites)
    ctx.floor('H1.cross-engine', 'clippy sites inside the decode-side cone', n, 10)
    ctx.note('cross-engine agreement: %d constructs reported by clippy restriction lints (%s) lie inside the %d bodies of the cone; each must coincide with a MIR panic source (%s)' % (n, ', '.join(engine.CLIPPY_LINTS), len(parent), info))
