"""C11 - hostile or corrupt server bytes cannot crash or wedge the connection driver."""
import os
from facts import walk, callee_of, call_args, loc
import hirq, anchors, cone, engine

EXPLANATION = ("H1 panic-source cone over the MIR call graph (resolved callees, closures, trait-object fan-out) from the frame decoder "
               "and the driver's response arm: every diverging call (panic!/unimplemented!/assert), every Assert terminator (bounds, "
               "overflow) and every call to an external function that may panic (#[track_caller] or the frozen may-panic table) must be "
               "absent, decided by a discharge rule that re-reads the code on every run (guarded arithmetic, operands bounded by construction, "
               "the consumed prefix, capped allocations, ...) or reviewed in rules/triage/C11.tsv (one reason per line); H2 every recursive cycle in that cone must be bounded "
               "by a depth parameter compared with a constant before the recursive call; H3 inside the TLV parser an `Incomplete` from a "
               "streaming parser applied to a take(len)-bounded content slice must not be propagated outward with `?`; H4 a decode error "
               "leaves the driver loop with Err (dropping all reply senders); H5 a frame that has arrived completely is delivered or rejected, "
               "never awaited: the frame decoder's path rules (shared with C06 G1 / G2) and, in the default and the gssapi configuration, "
               "Decoder::decode on a connection without a security layer answers what the frame decoder answers - a test of its own may say "
               "Ok(None) only for buffers too short to hold any complete element (rules/wrapper.py).  Not decided: memory exhaustion on huge announced lengths; "
               "panics inside external crates beyond the may-panic table.")
TRUSTED = ['the frozen may-panic classification of external callees (listed in the evidence)', 'reviewed triage table rules/triage/C11.tsv']
UNDECIDED = ['allocation size / memory exhaustion', 'panics inside external crates not marked #[track_caller] and not in the may-panic table',
             'an edit that removes the guard of a source triaged "infeasible" is not seen by the cone rule']
ASSUMPTIONS = ['request-side code reached only through Encoder::encode is driven by the client, not the peer, and is outside this cone']
SHARED = [('C01', ('R1.envelope-path', 'R1.decoder'), 'H6.guards-of-reviewed-sources')]      # two panic sources are reviewed as infeasible because the frame decoder guards them (only a constructed [0] reaches the control-list decoder; only Tag::StructureTag leaves the decoder): those guards are re-decided on every run

QUICK_CONFIGS = ['default', 'gssapi']      # the decoder has a second form with the gssapi feature (the SASL token layer around the frame decoder): a frame that is awaited forever there wedges the connection just the same

TRIAGE = os.path.join(engine.VERIF, 'rules', 'triage', 'C11.tsv')

def decoder_entry(f):
    c = [it['path'] for it in f.items_all if it.get('kind') == 'AssocFn' and it.get('impl_trait_def') == 'tokio_util::codec::decoder::Decoder'
         and it['path'].endswith('::decode')]
    return anchors.one('Decoder::decode implementation', c)

def run(ctx):
    f = ctx.facts
    C = anchors.Conn(f)
    G = cone.Graph(f, engine.REPO)
    dec = decoder_entry(f)
    resp = C.arms['response']
    loop_mir = C.loop_path + '::{closure#0}'
    sp = resp['body']['sp']
    regions = {loop_mir: (sp[0], sp[1], sp[2], sp[3], sp[4])}
    parent = G.cone([dec, loop_mir], regions)
    ctx.analysed['bodies'].update(parent.keys())
    srcs, ext = G.sources(parent, regions)
    ctx.analysed['notes'].append({'external_callees': {k: list(v) for k, v in sorted(ext.items())}})
    triage = cone.load_triage(TRIAGE)
    ctx.floor('H1', 'bodies in the decode-side cone', len(parent), 8)
    groups = cone.group_keys(srcs)
    def describe(s):
        chain = ' -> '.join(x.split('::')[-1] if '{closure' not in x else x.split('::')[-2] + '::{closure}' for x in G.chain(parent, s.fn))
        return 'peer-reachable panic source (%s) via %s' % (s.kind, chain)
    import controls
    controls.panic_cone(ctx)
    cone.judge(ctx, 'H1.panic-source', groups, triage, describe)
    ctx._cone = (G, parent, regions, srcs)
    if not srcs:
        ctx.ok('H1.panic-source', 'none', '', 'no panic source in the cone')

    # ---- H5 a frame that has arrived completely is delivered or rejected, never awaited (the frame decoder's path rules, shared with C06)
    from props import C06
    dp = C06.check_frame_decoder(ctx, f, 'H5', 'H5')
    # ... and Decoder::decode, which Framed calls, puts nothing of its own between the bytes and the frame decoder on a connection
    # without a security layer: a test of its own that answers Ok(None) for a buffer that already holds a complete element keeps that
    # element waiting for bytes the peer need not send - neither delivered nor rejected (rules/wrapper.py; both configurations)
    import wrapper
    D = hirq.Body(f, f.body(dec))
    if D.path != dp:
        wrapper.check(ctx, f, D, dp, 'H5.complete-frame-reaches-the-frame-decoder')

    # ---- H2 recursion
    cycles = G.sccs(set(parent.keys()))
    for comp in cycles:
        ok, why = any_depth_bounded(f, comp)
        ctx.add('H2.bounded-recursion', ' <-> '.join(comp), f.mir[comp[0]]['span'][0] + ':%d' % f.mir[comp[0]]['span'][1], ok, why)
    if not cycles:
        ctx.ok('H2.bounded-recursion', 'no recursive cycle in the cone', '')

    # ---- H3 inner Incomplete
    tlv = [p for p in parent if p.startswith('lber::parse::') and p in f.hir]
    n_try = 0
    may_inc = {}
    def may_incomplete(p):
        if p not in may_inc:
            par = G.cone([p])
            r = False
            for q in par:
                for c, t, bb in G.ext[q]:
                    if c and '::streaming::' in c:
                        r = True
                for b in f.mir[q]['blocks']:
                    for st in b['stmts']:
                        if 'Err::Incomplete' in st or 'nom::Err::<' in st and 'Incomplete' in st:
                            r = True
            may_inc[p] = r
        return may_inc[p]
    for p in tlv:
        B = hirq.Body(f, f.hir[p])
        bounded = bounded_binds(B)
        for n, c in walk(B.root):
            if n['k'] != 'Try':
                continue
            # the parser application whose result this `?` propagates, and the conversions applied to it on the way
            e = n['e']
            convs = []
            while e['k'] == 'MethodCall' and e['name'] in ('map_err', 'or_else', 'map', 'and_then'):
                convs.append(e)
                e = e['recv']
            if e['k'] != 'Call':
                continue
            cal = callee_of(e)
            if cal is None or cal not in f.mir or not e['args']:
                continue
            n_try += 1
            b = hirq.local_of(e['args'][0])
            inst = '%s|%s' % (p, cal.split('::')[-1])
            if b in bounded and may_incomplete(cal):
                if any(converts_incomplete(cv) for cv in convs):
                    ctx.ok('H3.inner-incomplete-propagates', inst, loc(n), 'Incomplete is converted into a hard error before `?`')
                else:
                    ctx.fail('H3.inner-incomplete-propagates', inst, loc(n),
                             '`%s(<content slice bounded by take(len)>)?` propagates Incomplete: the frame is complete but the decoder keeps waiting for bytes that cannot complete it' % cal.split('::')[-1])
            else:
                ctx.ok('H3.inner-incomplete-propagates', inst, loc(n))
    ctx.floor('H3', 'propagating parser calls examined in the TLV parser', n_try, 1)

    # ---- H4 decode error ends the connection
    L = C.loop
    rb = resp['bindings'][0][0]
    ms = [n for n, c in walk(resp['body']) if n['k'] == 'Match' and hirq.local_of(n['scrut']) == rb]
    ctx.add('H4.stream-result-match', 'response arm', loc(resp['body']), len(ms) == 1, 'expected one match on the stream result')
    for m in ms:
        for a in m['arms']:
            pv = hirq.pat_variant(a['pat'])
            inner = a['pat']['pats'][0] if a['pat'].get('k') == 'PTupleStruct' and a['pat']['pats'] else None
            iv = hirq.pat_variant(inner) if inner else None
            if pv == 'Some' and iv == 'Err':
                rets = [x for x, _ in walk(a['body']) if x['k'] == 'Ret' and x.get('e') and x['e']['k'] == 'Call' and hirq.short_def(x['e']['f'].get('def', '')) == 'Err']
                ctx.add('H4.decode-error-returns-err', 'Some(Err(_))', loc(a['body']), bool(rets) and hirq.diverges(a['body']),
                        'a decode / read error does not make the driver return Err')
            if pv == 'None':
                ctx.add('H4.eof-leaves-loop', 'None', loc(a['body']), hirq.diverges(a['body']), 'end of stream does not leave the driver loop')


def converts_incomplete(cv):
    """`.map_err(|e| match e { Err::Incomplete(_) => <Error/Failure>, .. })`: an unguarded arm for Incomplete
    whose body does not build Incomplete again."""
    if cv['name'] not in ('map_err', 'or_else') or not cv['args'] or cv['args'][0]['k'] != 'Closure':
        return False
    for m, _ in walk(cv['args'][0]['body']):
        if m['k'] == 'Match':
            for a in m['arms']:
                if (hirq.pat_variant(a['pat']) or '').endswith('Err::Incomplete') and a.get('guard') is None:
                    rebuilt = [x for x, _ in walk(a['body']) if x['k'] in ('Call', 'Path') and 'Err::Incomplete' in (x.get('callee') or x.get('ctor_of') or x.get('def') or '')]
                    built = [x for x, _ in walk(a['body']) if x['k'] == 'Call' and ((x.get('callee') or '').endswith('Err::Error') or (x.get('callee') or '').endswith('Err::Failure'))]
                    if built and not rebuilt:
                        return True
    return False

def bounded_binds(B):
    """Bindings holding (a suffix of) the content slice cut out by an application of streaming `take(len)`."""
    bounded = set()
    def is_take_apply(e):
        e2 = e
        if e2['k'] == 'Try':
            e2 = e2['e']
        # error-side conversions leave the Ok payload (rest, content) alone
        while e2['k'] == 'MethodCall' and e2['name'] in ('map_err', 'or_else'):
            e2 = e2['recv']
        return e2['k'] == 'Call' and e2['f']['k'] == 'Call' and (callee_of(e2['f']) or '').endswith('streaming::take')
    def parser_apply_input(e):
        e2 = e['e'] if e['k'] == 'Try' else e
        while e2['k'] == 'MethodCall' and e2['name'] in ('map_err', 'or_else'):
            e2 = e2['recv']
        if e2['k'] == 'Call' and e2['args']:
            return hirq.local_of(e2['args'][0])
        return None
    changed = True
    while changed:
        changed = False
        for b, d in B.defs.items():
            if b in bounded or d.get('src') is None:
                continue
            src = d['src']
            if d['proj'] == (('tup', 1),) and is_take_apply(src):
                bounded.add(b); changed = True
            elif d['proj'] == (('tup', 0),) and parser_apply_input(src) in bounded and not is_take_apply(src):
                bounded.add(b); changed = True
            elif not d['proj'] and hirq.local_of(src) in bounded:
                bounded.add(b); changed = True
        for b, asg in B.assigns.items():
            if b in bounded:
                continue
            for a in asg:
                if a['k'] == 'Assign' and hirq.local_of(a['r']) in bounded:
                    bounded.add(b); changed = True
    return bounded

def any_depth_bounded(f, comp):
    """A recursive cycle is accepted when a depth counter travels around it: every member has one integer parameter `d`; every
    call from a member to a member passes `d` or `d + 1` in the callee's depth position; at least one call steps by 1; and some
    member tests `d` against a constant (leaving on the far side) before its calls into the cycle."""
    hir = getattr(f, 'hir_all', f.hir)
    INTS = ('usize', 'u32', 'u8', 'u16', 'u64', 'i32')
    depth = {}
    for p in comp:
        if p not in hir:
            return False, 'recursion through %s, whose body is not available' % p
        B = hirq.Body(f, hir[p])
        ps = [(b, d) for b, d in B.defs.items() if d['kind'] == 'param' and (d['pat'].get('ty') or '') in INTS]
        if len(ps) != 1:
            return False, 'recursion on peer-controlled nesting without a depth bound (%s has no single integer depth parameter): stack overflow on deeply nested input' % p.rsplit('::', 1)[-1]
        depth[p] = (B, ps[0][0], ps[0][1])
    stepped = guarded = False
    for p, (B, b, d) in depth.items():
        rec_calls = [n for n, c in walk(B.root) if n['k'] in ('Call', 'MethodCall') and (callee_of(n) in comp)]
        guards = []
        for n, c in walk(B.root):
            if n['k'] == 'If' and n['cond']['k'] == 'Binary' and n['cond']['op'] in ('Gt', 'Ge', 'Eq', 'Lt', 'Le'):
                l, r = n['cond']['l'], n['cond']['r']
                if (hirq.local_of(l) == b and hirq.const_eval(f, r) is not None) or (hirq.local_of(r) == b and hirq.const_eval(f, l) is not None):
                    if hirq.diverges(n['then']) or (n.get('els') is not None and hirq.diverges(n['els'])):
                        guards.append(n)
        for rc in rec_calls:
            callee = callee_of(rc)
            idx = depth[callee][2]['idx']
            args = call_args(rc)
            if idx >= len(args):
                return False, 'recursive call does not pass the depth counter'
            a = hirq.peel_refs(hirq.resolve_expr(B, args[idx]))      # through an immutable `let child_depth = depth + 1;`
            if hirq.local_of(a) == b:
                pass
            elif a['k'] == 'Binary' and a['op'] == 'Add' and hirq.local_of(a['l']) == b and hirq.const_eval(f, a['r']) == 1:
                stepped = True
            else:
                return False, 'recursion on peer-controlled nesting: the depth counter is not passed on unchanged or stepped by 1 at %s' % loc(rc)
            if guards and all(B.before(g, rc) for g in guards[:1]):
                guarded = guarded or any(B.before(g, rc) for g in guards)
    if stepped and guarded:
        return True, 'recursion bounded by a depth counter compared with a constant'
    return False, 'recursion on peer-controlled nesting without a depth bound (no integer parameter compared with a constant before the recursive call and stepped by 1): stack overflow on deeply nested input'


def run_thorough(ctx):
    """cross-engine agreement: clippy's restriction lints (an independent, lexical implementation) inside the cone's bodies"""
    if ctx.cfg != 'default':
        return          # clippy is run with the default feature set: compared in that configuration only
    G, parent, regions, srcs = ctx._cone
    sites, info = engine.clippy_sites()
    n = cone.clippy_agreement(ctx, 'H1.cross-engine-agreement', G, parent, regions, srcs, sites)
    ctx.floor('H1.cross-engine', 'clippy sites inside the decode-side cone', n, 10)
    ctx.note('cross-engine agreement: %d constructs reported by clippy restriction lints (%s) lie inside the %d bodies of the cone; each must coincide with a MIR panic source (%s)' % (n, ', '.join(engine.CLIPPY_LINTS), len(parent), info))
