"""C17 - requested TLS is never silently downgraded."""
import re
from facts import walk, callee_of, call_args, loc
import hirq, anchors, absx, sem, cone, engine

EXPLANATION = ("All paths of the TCP connection constructor are enumerated (path-sensitive abstract evaluation of its typed HIR): W1 every "
               "path that returns Ok for an `ldaps` URL, or for an `ldap` URL with StartTLS requested, has obtained Ok from the TLS "
               "handshake helper, re-framed the connection over ConnType::Tls with that stream and marked the handle has_tls; the only "
               "Ok paths without TLS are those for `ldap` without StartTLS; W2 on StartTLS paths exactly one LDAP operation is issued "
               "before the handshake - extended(StartTLS) - the driver turn's result and `success()?` of the response are both required "
               "(Ok) before into_parts / the handshake, `ldaps` paths issue no LDAP operation before the handshake, and the handle is not "
               "cloned; W2.nothing-else-in-clear on EVERY path on which TLS is called for - those that end in Err or in a panic included (StartTLS refused, exchange or handshake failed) - while the transport is still the cleartext socket (everything before the call of the handshake helper) the values through which bytes reach the socket are anchored by type (handle, connection, framed transport and its parts, transport enum, TCP stream) and every call handed one of them, on the path or in a future it spawns (tokio::spawn of an async block is followed: its body runs from the state at the spawn), is one of: one extended(StartTLS) on the handle, a handle method from which the operation issue point is not reachable in the MIR call graph, one run of the driver loop in a mode of its own (not the mode of the public drive(); called as such or through a function that does exactly that), into_parts of the transport, the constructor of the connection pair, drop - so an unbind / bind / abandon on the refusal path, the full driver spawned on the cleartext connection, or a write to the socket is reported, and `drop(ldap); drop(conn); return Err(e)` is what `?` does anyway; W3 the transport the connection ends up with is read as what it is built from, whichever constructor spells it (Framed::new, Decoder::framed, FramedParts::new + Framed::from_parts, each modelled after tokio_util): it runs over the stream the handshake returned, the handshake ran on the socket taken out of the cleartext transport, the codec is the cleartext transport's, and its read and write buffers start empty - a buffer of the cleartext transport carried over (assigned into the new parts, or the old parts reused) would have cleartext bytes decoded inside the protected session; of the old transport's parts only io and codec flow anywhere; a transport is rebuilt from parts nowhere else; W4 the request to skip certificate verification is the public call set_no_tls_verify(true). How the settings struct keeps its requests is not read: the reachable states of the struct are enumerated by evaluating the constructors and every builder method on literals (exhaustively; bit operations exact), and each setting is read where it takes effect - StartTLS through the public getter, the verification setting in the default connector / configuration of the handshake helper. In every reachable state: set_no_tls_verify(v) makes the setting read v; every body that builds a settings value (new, the Default impl - derived or hand-written -, Clone) yields 'not requested'; the default connector / configuration disables verification exactly when the last set_no_tls_verify on the way there said true, is built from the connection's own settings, a caller-supplied connector is used as given, and the handshake is given the URL's host name; W5/W7/W8 the settings' Clone keeps, and the starttls() getter returns, what the setters recorded, in every reachable state (a setting that is a bool field of its own and one that is a bit of a flags byte are the same to these rules). Not decided: what native-tls / rustls verify (trusted); server behaviours as runtime events.")
TRUSTED = ['native-tls / rustls certificate and host name verification', 'tokio_util Framed::into_parts / Framed::new / Framed::from_parts / FramedParts::new / Decoder::framed behave as modelled in transport_of (read from tokio-util 0.7 source)']
UNDECIDED = ['TLS library behaviour', 'server behaviour at run time']
ASSUMPTIONS = []
CONFIGS = ['default', 'rustls']
QUICK_CONFIGS = ['default', 'rustls']      # the two TLS back ends are sibling implementations of the same clauses, selected by cfg: a change can be visible in only one of them
SHARED = [('C04', ('L7.',), 'W6.transport'), ('C18', ('U6.',), 'W9.request-survives-later-builder-calls'),
          ('C03', ('T1.result-code',), 'W2.result-code-is-what-the-server-sent')]      # what is written to a ConnType::Tls goes to the TLS stream, not to another variant's socket, method by method; W9 "under all combinations of scheme, StartTLS and verification settings": set_starttls(true) / the verification setting / the caller's connector are still what connection setup sees after any later builder call - a builder method that rebuilds the settings from defaults turns a requested StartTLS off without a word; W2.result-code "establishment fails if the StartTLS response is not success ... answering garbage": the result code that `success()` tests (W2.success-means-rc-0: Ok exactly for 0) is the ENUMERATED the server put first into the response, decoded - on no path a default that stands in for an element that is missing, wrong-tagged or constructed, because the default of the code's type is 0 = success

NT = 'ldap3::conn::LdapConnAsync::new_tcp'

def scheme_of(o):
    s = {}
    for a, t in o.st.pc:
        if a[0] == 'bin' and a[1] == 'Eq' and a[2][0] == 'call' and a[2][1] == 'url::Url::scheme' and a[3][0] == 'lit':
            s[a[3][1]] = t
    if s.get('ldap'):
        return 'ldap'
    if s.get('ldaps'):
        return 'ldaps'
    return 'other'

def starttls_of(o):
    return next((t for a, t in o.st.pc if a[0] == 'call' and a[1] == 'ldap3::conn::LdapConnSettings::starttls'), None)

def calls(o, suffix):
    return [(i, e) for i, e in enumerate(o.st.ev) if e[0] == 'call' and e[1].endswith(suffix)]


# ---- W2, every path: what happens to the handle, the connection and the socket while the transport is still cleartext

def spawned_future(followed):
    """Model of `tokio::spawn(fut)` (task::spawn, spawn_local, Runtime / Handle::spawn) for a future written in place (`async move
    { .. }`, a closure term of this body): the future's body runs, concurrently, from the state at the spawn - what an `async move`
    block captures are the values its variables hold when it is created, and it is created at the call.  The events of its body
    (one list per enumerated path of the body) are recorded on the spawning path as one ('spawned', closure, paths) event; its
    effects on the spawner's places are not kept (it owns what it captured).  Nothing else is assumed about scheduling: the rules
    that read the event treat the body's calls as possible at any time after the spawn."""
    def summary(I, cal, args, node, st):
        if not (cal.startswith('tokio::') and cal.rsplit('::', 1)[-1] in ('spawn', 'spawn_local')) or not args or args[-1][0] != 'closure':
            return None
        fut = args[-1]
        if I.closure_node(fut) is None:
            return None
        followed.add(fut[1])
        paths = tuple(tuple(o.st.ev[len(st.ev):]) for o in I.apply_closure(fut, [], st, node))
        t = ('call', cal, tuple(args), node.get('id'))
        return [absx.Out('val', t, st.event(('call', cal, tuple(args), node)).event(('spawned', fut[1], paths)))]
    return summary

def arg_types(node):
    """the types of the expressions a call site hands to its callee (receiver first), references stripped"""
    xs = ([node['recv']] if node.get('recv') is not None else []) + list(node.get('args') or [])
    return [hirq.strip_refs(x.get('ty') or '') for x in xs]

def check_cleartext_phase(ctx, f, B, outs, followed):
    """W2.nothing-else-in-clear - "no LDAP message other than the StartTLS request itself is ever sent in cleartext", on EVERY path
    of the TCP constructor on which TLS is called for (ldaps, or ldap with StartTLS requested), the paths that end in Err or in a
    panic included: a refused StartTLS, a failed exchange, a failed handshake all leave the function with a cleartext socket in
    hand, and what is done with it before it is dropped is on the wire in clear.

    The cleartext phase of a path is everything before the call of the handshake helper (from then on the socket belongs to the TLS
    stream; what the protected transport is built from is W3's), the whole path when the handshake is never reached.  In it the
    values through which bytes can reach the socket are anchored by TYPE - the handle struct, the driver struct (anchors.Conn: by
    role), the framed transport and its parts, the transport enum, the TCP stream - and every call that is handed one of them, on
    the path itself or in a future it spawns (spawned_future), must be one of:
      * the handle: ONE `extended(StartTLS)` (none for ldaps); a method from which the operation issue point (anchors.Conn:
        the body that sends on the request channel) is not reachable in the MIR call graph; `drop`.  Every other method of the
        handle that reaches the issue point - unbind, simple_bind, abandon, extended(anything else) .. - is an LDAPMessage written
        to the cleartext stream, whatever is returned to the caller afterwards;
      * the connection: ONE run of the one-operation driver (the function that takes the connection and the oneshot sender it is
        handed back through - the turn that carries the StartTLS exchange; none for ldaps), `drop`.  Driving it any other way
        (`drive()`, the loop function itself, a second one-operation turn after the exchange) serves whatever is - or will be -
        queued on the request channel, in clear;
      * the framed transport: `into_parts` (taking it apart for the handshake), `drop`; its parts, the transport enum, the socket:
        the constructor of the connection pair, `drop` - anything else (`send`, `write_all`, ..) writes to the cleartext socket.
    A closure of the body that mentions one of these values and is not a future the spawn model followed is not decided (fails
    closed).  `drop(ldap); drop(conn); return Err(e)` is what `?` does implicitly and is accepted."""
    C = anchors.Conn(f)
    HANDLE, DRIVER = C.handle_struct, C.driver_struct
    G = cone.Graph(f, engine.REPO)
    issue = {C.op_call_path, C.op_call_path + '::{closure#0}'}
    reach = {}
    def issues_message(cal):
        if cal not in reach:
            reach[cal] = bool(issue & set(G.cone([p for p in (cal, cal + '::{closure#0}') if p in f.mir] or [cal])))
        return reach[cal]
    has_tls = 'ldap3::conn::LdapConnAsync::create_tls_stream' in f.hir
    # "the one turn of the driver that carries the StartTLS exchange", by role: a run of the driver loop (anchors.Conn: the body that
    # receives from the request channel) in a mode of its own - not the mode of the public `drive()`, which serves the request
    # channel until the last handle is gone - either called as such or through a workspace function that, on every one of its
    # paths, does exactly that with the connection it is given (what the one-operation mode does with the connection when its
    # loop ends is C04 L6's)
    kind_of = lambda t: ('handle' if t == HANDLE else 'connection' if t == DRIVER
                         else 'framed transport' if re.match(r'tokio_util::codec::framed::Framed(Parts)?<ldap3::conn::ConnType\b', t) else 'transport' if t == 'ldap3::conn::ConnType'
                         else 'socket' if t == 'tokio::net::tcp::stream::TcpStream' else None)
    LOOP = C.loop_path.split('::{closure')[0]
    DROP = ('core::mem::drop',)
    memo = {}
    def loop_modes(p):
        if p not in memo:
            memo[p] = None
            Bp = hirq.Body(f, f.body(p))
            ctx.analysed['bodies'].add(p)
            ms = []
            for o in absx.Interp(f, Bp, unroll=1, combinators=True).run(root=Bp.root['body'] if Bp.root['k'] == 'Closure' else Bp.root):
                used = [e for e in o.st.ev if e[0] == 'call' and e[1] not in DROP and any(kind_of(t) == 'connection' for t in arg_types(e[3]))]
                ms.append(tuple(e[2][1] if e[1] == LOOP and len(e[2]) == 2 and e[2][0] == ('param', 'self') else ('unk', e[1]) for e in used))
            memo[p] = ms
        return memo[p]
    pub = [p for p in (DRIVER + '::drive',) if p in f.hir]
    ctx.add('W2.continuous-mode', DRIVER + '::drive', loc(B.root), len(pub) == 1, 'the public drive() of the connection was not found: anchor lost')
    cont = {m for p in pub for path in (loop_modes(p) or []) for m in path}
    own_mode = lambda m: m[0] == 'ctor' and not m[2] and m not in cont
    def one_turn(cal, args):
        """None when the call is a run of the driver loop in a mode of its own, else what it is instead"""
        if not cont:
            return 'the mode of drive() is not known'
        if cal == LOOP:
            return None if len(args) == 2 and own_mode(args[1]) else 'the driver loop is run in the mode %s, the one drive() uses' % absx.fmt(args[1] if len(args) == 2 else ('unk',))
        if cal in f.hir and cal not in pub and (f.items.get(cal) or {}).get('inputs', [None])[0] == DRIVER:
            ms = loop_modes(cal)
            if ms and all(len(path) == 1 and own_mode(path[0]) for path in ms):
                return None
            return '`%s` does not run the driver loop exactly once in a mode of its own (%s; drive() uses %s)' % (
                cal.rsplit('::', 1)[-1], sorted({absx.fmt(m) for path in ms or [] for m in path}) or 'no run of the loop', sorted(absx.fmt(m) for m in cont))
        return 'the driver serves the request channel over the cleartext TCP stream beyond the one turn that carries the StartTLS exchange'
    def components(t):
        """the direct components of a tuple type / the type argument of a one-argument owning wrapper"""
        if t.startswith('(') and t.endswith(')'):
            inner = t[1:-1]
        elif t.split('<', 1)[0] in ('core::option::Option', 'alloc::boxed::Box', 'alloc::sync::Arc', 'alloc::vec::Vec', 'std::sync::mutex::Mutex') and t.endswith('>'):
            inner = t.split('<', 1)[1][:-1]
        else:
            return []
        out, depth, cur = [], 0, ''
        for ch in inner:
            if ch in '(<[':
                depth += 1
            elif ch in ')>]':
                depth -= 1
            if ch == ',' and depth == 0:
                out.append(cur.strip()); cur = ''
            else:
                cur += ch
        return [x for x in out + [cur.strip()] if x]
    def sensitive(t, depth=0):
        k = kind_of(t)
        if k is None and depth < 3:
            k = next((x for x in (sensitive(hirq.strip_refs(c), depth + 1) for c in components(t)) if x), None)
        return k
    STARTTLS = (('ctor', 'starttls::StartTLS', ()), ('const', 'ldap3::exop_impl::starttls::StartTLS'))
    n = 0
    for o in outs:
        sch, stls = scheme_of(o), starttls_of(o)
        if not (sch == 'ldaps' or (sch == 'ldap' and stls is True)):
            continue
        n += 1
        hs = next((i for i, e in enumerate(o.st.ev) if e[0] == 'call' and e[1].endswith('LdapConnAsync::create_tls_stream')), len(o.st.ev))
        # the stage the path is in when it ends, for the message
        suc = next((t for a, t in o.st.pc if a[0] == 'is' and a[2] == 'Ok' and a[1][0] == 'call' and a[1][1].endswith('ExopResult::success')), None)
        stage = ('after the server refused StartTLS' if suc is False else 'before the handshake' if hs < len(o.st.ev) else
                 'on a path that ends (%s) before a handshake' % ('Err' if o.kind == 'ret' else 'panic' if o.kind == 'div' else 'Ok'))
        key = '%s|starttls=%s|%s' % (sch, stls, stage)
        flat = []       # (event, where)
        for e in o.st.ev[:hs]:
            if e[0] == 'call':
                flat.append((e, ''))
            elif e[0] == 'spawned':
                seen = set()
                for p in e[2]:
                    for x in p:
                        if x[0] == 'call' and id(x[3]) not in seen:
                            seen.add(id(x[3]))
                            flat.append((x, ' in a spawned task'))
                        elif x[0] == 'spawned':
                            flat.append((('call', '<a task spawned by a spawned task>', (), {}), ' in a spawned task'))
        bad, n_start, n_single = [], 0, 0
        for e, where in flat:
            cal, node = e[1], e[3]
            kinds = [k for k in (sensitive(t) for t in arg_types(node)) if k]
            if cal == '<a task spawned by a spawned task>':
                bad.append('a task spawns a further task: not followed')
                continue
            if not kinds or cal in DROP:
                continue
            k = kinds[0]
            nm = cal.rsplit('::', 1)[-1]
            if k == 'handle':
                if cal.startswith(HANDLE + '::') and not issues_message(cal) and not cal.endswith('::clone'):
                    continue            # (the issue point is not reachable from it: no message)
                if cal == HANDLE + '::extended' and len(e[2]) == 2 and e[2][1] in STARTTLS:
                    n_start += 1
                    if n_start > 1 or sch == 'ldaps':
                        bad.append('a%s StartTLS request is issued%s' % (' second' if n_start > 1 else '', where))
                    continue
                bad.append('`%s` is called on the handle%s: %s' % (nm, where, 'an LDAPMessage other than the StartTLS request is sent on the cleartext TCP stream' if cal.startswith(HANDLE + '::') and issues_message(cal) else
                           'the handle is handed to a function the analysis does not follow while the transport is cleartext'))
            elif k == 'connection':
                why = one_turn(cal, e[2])
                if why is None:
                    n_single += 1
                    if n_single > 1 or sch == 'ldaps':
                        bad.append('the one-operation driver is run %s%s' % ('a second time' if n_single > 1 else 'on an ldaps connection before the handshake', where))
                    continue
                bad.append('the connection is given to `%s`%s: %s' % (nm, where, why))
            elif k == 'framed transport' and nm == 'into_parts':
                continue
            elif k in ('transport', 'socket') and cal.endswith('LdapConnAsync::conn_pair') and not where:
                continue
            else:
                bad.append('the %s is given to `%s`%s while it is still the cleartext TCP stream' % (k, nm, where))
        if sch == 'ldap' and o.kind in ('val', 'ret') and o.val[0] == 'ctor' and o.val[1] == 'Ok':
            ctx.add('W2.one-operation-driver', key, loc(B.root), n_single == 1 and n_start == 1,
                    'a connection is handed back for ldap + StartTLS on a path with %d run(s) of the one-operation driver and %d StartTLS request(s): the exchange is one request served by one turn' % (n_single, n_start))
        ctx.add('W2.nothing-else-in-clear', key, loc(B.root), not bad,
                '%s URL%s, %s: %s - "no LDAP message other than the StartTLS request itself is ever sent in cleartext" holds on the paths that fail too (the error still reaches the caller, but what was written is on the wire)' % (
                    sch, ' with StartTLS requested' if sch == 'ldap' else '', stage, '; '.join(dict.fromkeys(bad))))
    ctx.floor('W2.clear', 'paths of the TCP constructor on which TLS is called for (Ok, Err and panic)', n, 20 if has_tls else 0)
    # closures that hold one of these values and were not followed
    root = B.root
    for nd in B.nodes:
        if nd['k'] != 'Closure' or nd is root or nd.get('def') in followed:
            continue
        held = sorted({sensitive(hirq.strip_refs(x.get('ty') or '')) for x, _c in walk(nd['body']) if x['k'] == 'Path' and x.get('res') == 'local'} - {None})
        ctx.add('W2.clear-phase-closures-followed', nd.get('def', '?').split('new_tcp')[-1], loc(nd), not held,
                'a closure of the TCP constructor holds the %s and is not a future handed to tokio::spawn in place: what it does with it while the transport is cleartext is not decided' % ', '.join(held))

FRESH = ('fresh-buffer',)
FRAMED_FRESH = {'tokio_util::codec::framed::Framed::<T, U>::new': (0, 1), 'tokio_util::codec::framed::Framed::<T, U>::with_capacity': (0, 1), 'tokio_util::codec::decoder::Decoder::framed': (1, 0)}
FROM_PARTS = 'tokio_util::codec::framed::Framed::<T, U>::from_parts'
PARTS_NEW = 'tokio_util::codec::framed::FramedParts::<T, U>::new'
EMPTY_BUFFER = ('bytes::bytes_mut::BytesMut::new', 'bytes::bytes_mut::BytesMut::with_capacity', '<bytes::bytes_mut::BytesMut as core::default::Default>::default')

def transport_of(t, o):
    """What a `Framed` value is built from, read off its constructor term and the stores that precede the construction on path o:
    {'io', 'codec', 'read_buf', 'write_buf'} with FRESH for a buffer that starts empty; None when t is not the result of a
    constructor modelled here (the caller fails closed).  The models, each after tokio_util's source:
      Framed::new(io, codec), Framed::with_capacity(io, codec, n), Decoder::framed(codec, io) [the provided method is
        `Framed::new(io, self)`; an impl that overrides it has another def-path and is not matched]: state = Default, both buffers empty;
      Framed::from_parts(p) = Framed { inner: p.io, codec: p.codec, read: p.read_buf.into(), write: p.write_buf.into() }: the four
        fields of p as they are at the call;
      FramedParts::new(io, codec) = { io, codec, read_buf: BytesMut::new(), write_buf: BytesMut::new() };
      any other parts value (Framed::into_parts(f)): its fields are opaque terms `p.x` - in particular never FRESH.
    A field of a parts value is the last value stored to it before the construction, else what its own constructor gave it.  A parts
    value from FramedParts::new that was also handed to some other call (e.g. by `&mut`) is not followed: its buffers are unknown."""
    if not (isinstance(t, tuple) and t and t[0] == 'call' and len(t) == 4):
        return None
    if t[1] in FRAMED_FRESH and len(t[2]) > max(FRAMED_FRESH[t[1]]):
        i, c = FRAMED_FRESH[t[1]]
        return {'io': t[2][i], 'codec': t[2][c], 'read_buf': FRESH, 'write_buf': FRESH}
    if t[1] != FROM_PARTS or len(t[2]) != 1:
        return None
    P = t[2][0]
    at = next((i for i, e in enumerate(o.st.ev) if e[0] == 'call' and e[1] == FROM_PARTS and e[3].get('id') == t[3]), None)
    if at is None:
        return None
    stored, touched = {}, {}
    def without_fields(x):
        # x with every `P.f` cut out: what is left of P in it is the parts value as a whole
        if isinstance(x, tuple):
            if len(x) == 3 and x[0] == 'field' and x[1] == P:
                return ('cut',)
            return tuple(without_fields(y) for y in x)
        return x
    for e in o.st.ev[:at]:
        if e[0] == 'store' and e[1][0] == 'field' and e[1][1] == P:
            stored[e[1][2]] = e[2]
        elif e[0] == 'store' and absx.is_subplace(e[1], P):
            k = e[1]
            while k[1] != P:
                k = k[1]
            touched.setdefault(k[2], 'a store inside it')   # a store below one of its fields: that field is no longer what was put there
        elif e[0] == 'call':
            # the parts value - or one of its fields - handed to a function (possibly by `&mut`): what the callee leaves there is not modelled
            for x in e[2]:
                for y in absx.leaves(x, lambda y: len(y) == 3 and y[0] == 'field' and y[1] == P):
                    touched.setdefault(y[2], e[1].rsplit('::', 1)[-1])
                if absx.leaves(without_fields(x), lambda y: y == P):
                    touched.setdefault('*', e[1].rsplit('::', 1)[-1])
        elif e[0] == 'store-unknown':
            touched.setdefault('*', 'a store the interpreter could not place')
    made_new = P[0] == 'call' and P[1] == PARTS_NEW and len(P[2]) == 2
    out = {}
    for name, k in (('io', 0), ('codec', 1), ('read_buf', None), ('write_buf', None)):
        why = touched.get(name) or touched.get('*')
        if name in stored:
            v = stored[name]
            if k is None and why is None and v[0] == 'call' and v[1] in EMPTY_BUFFER and all(x[0] == 'lit' for x in v[2]):
                v = FRESH       # BytesMut::new() / with_capacity(n) / default(): a new buffer of length 0
            out[name] = v
        elif made_new and k is not None:
            out[name] = P[2][k]
        elif made_new:
            out[name] = FRESH if why is None else ('unk', 'a buffer handed to %s before from_parts' % why)
        else:
            out[name] = ('field', P, name)
    return out

def describe_buffer(b):
    if b[0] == 'field' and b[1][0] == 'call' and b[1][1].endswith('::into_parts'):
        return 'the %s of the cleartext transport (into_parts(..).%s)' % (b[2], b[2])
    return absx.fmt(b)[:80]

def run(ctx):
    f = ctx.facts
    if NT not in f.hir:
        ctx.fail('anchor-missing', NT, '', 'TCP constructor not found'); return
    B = hirq.Body(f, f.body(NT))
    ctx.analysed['bodies'].add(NT)
    R = anchors.ConnSettings(f)
    # (R.algebra: what `settings.starttls()` answers after `settings = settings.set_starttls(false)` - or after any other builder call -
    # is decided by the meaning of the builder interface, established by W7 / W9, not by where in the function the test sits)
    followed = set()
    outs = absx.Interp(f, B, unroll=1, combinators=True, summaries=[R.algebra, spawned_future(followed)]).run(root=B.root['body'] if B.root['k'] == 'Closure' else B.root)
    oks = [o for o in outs if o.kind in ('val', 'ret') and o.val[0] == 'ctor' and o.val[1] == 'Ok']
    ctx.floor('W1', 'Ok-returning paths of the TCP constructor', len(oks), 3)
    check_cleartext_phase(ctx, f, B, outs, followed)
    urls = sem.params_of_type(f, B, lambda t: t == 'url::Url')
    ctx.add('W4.url-parameter', NT, loc(B.root), len(urls) == 1, 'the TCP constructor has no single parameter of type &Url: anchor lost')
    URL = ('param', urls[0] if urls else 'url')
    seen = set()
    for o in oks:
        sch, stls = scheme_of(o), starttls_of(o)
        want_tls = sch == 'ldaps' or (sch == 'ldap' and stls is True)
        conn, ldap = o.val[2][0][1] if o.val[2][0][0] == 'tuple' else (('unk',), ('unk',))
        tls = calls(o, 'LdapConnAsync::create_tls_stream')
        has_tls = o.st.heap.get(('field', ldap, 'has_tls')) == ('lit', True)
        got_tls = False
        tterm = ('await', ('call', tls[0][1][1], tls[0][1][2], tls[0][1][3].get('id'))) if len(tls) == 1 else None
        # the transport the returned connection ends up with, read as what it is built from (however the constructor is spelled)
        new_stream = o.st.heap.get(('field', conn, 'stream'))
        tr = transport_of(new_stream, o) if new_stream is not None else None
        if tterm is not None:
            ok_hs = any(a == ('is', tterm, 'Ok') and t for a, t in o.st.pc)
            got_tls = ok_hs and tr is not None and tr['io'] == ('ctor', 'ConnType::Tls', (('variant', tterm, 'Ok', 0),)) and has_tls
        key = '%s|starttls=%s' % (sch, stls)
        seen.add((sch, stls if sch == 'ldap' else None))
        if want_tls:
            ctx.add('W1.tls-before-ok', key, loc(B.root), got_tls,
                    'a usable handle is returned for %s although the TLS handshake result was not required / the connection was not re-framed over TLS / has_tls not set' % key)
        else:
            ctx.add('W1.cleartext-only-for-plain-ldap', key, loc(B.root), sch == 'ldap' and stls is False and not tls and not has_tls,
                    'a connection without TLS is returned for %s' % key)
        # ---- W2
        ops = [(i, e) for i, e in enumerate(o.st.ev) if e[0] == 'call' and e[1].startswith('ldap3::ldap::Ldap::') and e[1] != 'ldap3::ldap::Ldap::clone']
        if sch == 'ldap' and stls is True:
            ok = len(ops) == 1 and ops[0][1][1] == 'ldap3::ldap::Ldap::extended' and ops[0][1][2][1] in (('ctor', 'starttls::StartTLS', ()), ('const', 'ldap3::exop_impl::starttls::StartTLS'))
            ctx.add('W2.only-starttls-in-clear', key, loc(B.root), ok, 'LDAP operations issued before the handshake: %s' % [(e[1].split('::')[-1], absx.fmt(e[2][-1])[:30]) for i, e in ops])
            suc = calls(o, 'ExopResult::success')
            ip = calls(o, 'Framed::<T, U>::into_parts')
            okq = len(suc) == 1 and len(ip) == 1 and len(tls) == 1 and suc[0][0] < ip[0][0] < tls[0][0]
            if okq:
                sterm = ('call', suc[0][1][1], suc[0][1][2], suc[0][1][3].get('id'))
                okq = any(a == ('is', sterm, 'Ok') and t for a, t in o.st.pc)
                # the response examined is component .1 of the joined result, the driver result component .0 must be Ok too
                joined = suc[0][1][2][0]
                okq = okq and joined[0] == 'field' and joined[2] == '1' and any(a == ('is', ('field', joined[1], '0'), 'Ok') and t for a, t in o.st.pc)
            ctx.add('W2.success-required-before-handshake', key, loc(B.root), okq, 'the StartTLS response is not checked with success()? (and the driver turn with ?) before the TLS handshake')
        elif sch == 'ldaps':
            ctx.add('W2.nothing-in-clear', key, loc(B.root), not ops, 'an LDAP operation is issued on an ldaps connection before the handshake')
        # handshake input: the URL's host name, the TCP stream taken out of the framed transport
        if len(tls) == 1:
            a = tls[0][1][2]
            def strip_site(t):
                if isinstance(t, tuple):
                    if t and t[0] == 'call' and len(t) == 4:
                        return ('call', t[1], tuple(strip_site(x) for x in t[2]), None)
                    return tuple(strip_site(x) for x in t)
                return t
            hs = ('call', 'url::Url::host_str', (URL,), None)
            has_host = any(strip_site(a2) == ('is', hs, 'Some') and t for a2, t in o.st.pc) and \
                any(a2[0] == 'call' and a2[1].endswith('::is_empty') and strip_site(a2[2][0]) == ('variant', hs, 'Some', 0) and not t for a2, t in o.st.pc)
            host_ok = strip_site(a[1]) == (('variant', hs, 'Some', 0) if has_host else ('lit', 'localhost'))
            ctx.add('W4.handshake-host-is-url-host', key, loc(tls[0][1][3]), host_ok, 'the host name given to the TLS handshake is %s, not the URL\'s' % absx.fmt(a[1])[:60])
            # ---- W3: what the protected transport is built from
            ip = calls(o, 'Framed::<T, U>::into_parts')
            old = ('call', ip[0][1][1], ip[0][1][2], ip[0][1][3].get('id')) if len(ip) == 1 else None
            wrong = []
            if old is None or a[2] != ('variant', ('field', old, 'io'), 'ConnType::Tcp', 0):
                wrong.append('the handshake is not run on the socket taken out of the cleartext transport (into_parts(..).io)')
            if tr is None:
                wrong.append('the connection\'s transport after the handshake is not a Framed built by Framed::new / Decoder::framed / Framed::from_parts (%s)' % absx.fmt(new_stream or ('unk',))[:60])
            else:
                if tr['io'] != ('ctor', 'ConnType::Tls', (('variant', tterm, 'Ok', 0),)):
                    wrong.append('it does not run over the stream the handshake returned')
                if old is None or tr['codec'] != ('field', old, 'codec'):
                    wrong.append('its codec is not the cleartext transport\'s (into_parts(..).codec)')
            ctx.add('W3.fresh-framed-from-io-and-codec', key, loc(B.root), not wrong, 'the TLS transport is not framed afresh from parts.io and parts.codec of the cleartext transport: ' + '; '.join(wrong))
            if tr is not None:
                for which, what in (('read_buf', 'read'), ('write_buf', 'write')):
                    ctx.add('W3.no-cleartext-buffer-carried-over', '%s|%s' % (key, what), loc(B.root), tr[which] == FRESH,
                            'the %s buffer of the protected transport does not start empty: it is %s - %s' % (what, describe_buffer(tr[which]),
                                'bytes the peer (or an attacker on the path) sent in cleartext after the StartTLS response are decoded as LDAP responses inside the protected session and delivered to whichever operation carries their message ID' if what == 'read'
                                else 'bytes queued in cleartext are written into the protected session'))
            # nothing else of the cleartext transport survives the upgrade: of its parts only io and codec flow anywhere on this path
            if old is not None:
                used = set()
                # (what a call is given, what a place holds when the path ends, what is returned; a value stored and overwritten again went nowhere)
                for t in [x for e in o.st.ev if e[0] == 'call' for x in e[2]] + list(o.st.heap.values()) + [o.val]:
                    for x in absx.leaves(t, lambda x: x[0] == 'field' and x[1] == old):
                        used.add(x[2])
                ctx.add('W3.only-io-and-codec', key, loc(B.root), used <= {'io', 'codec'}, 'parts of the cleartext transport that flow into the protected session: %s' % sorted(used - {'io', 'codec'}))
    for need in [('ldap', False), ('ldap', True), ('ldaps', None)]:
        ctx.add('W1.coverage', str(need), loc(B.root), need in seen, 'no Ok path for (scheme, starttls) = %s' % (need,))
    # scheme tag: "starttls" exactly when scheme is ldap and settings.starttls()
    clones = [n for n, c in walk(B.root) if n['k'] == 'MethodCall' and (callee_of(n) or '').endswith('Clone>::clone') and 'ldap3::ldap::Ldap' in hirq.strip_refs(n['recv'].get('ty', ''))]
    # what `success()` means for the StartTLS response: Ok exactly for result code 0 (decided over the finite partition, shared with C03 T4)
    from props import C03
    C03.check_result_helpers(ctx, f, 'W2.success-means-rc-0', only=('ldap3::result::ExopResult::success',))
    ctx.add('W2.handle-not-cloned', NT, loc(B.root), not clones, 'the handle is cloned during establishment')
    # ---- W3 global: a transport is rebuilt from parts only where the rule above judges the result (the TCP constructor; a helper
    # introduced by a later change is expanded into it at fact load): anywhere else the buffers it carries are not decided
    fp = [(p, n) for p, n, _c in hirq.all_calls(f, lambda c: ('Framed' in c and c.endswith('::from_parts')) or c.endswith('FramedParts::<T, U>::new')) if p.split('::{closure')[0] != NT]
    ctx.add('W3.transport-rebuilt-only-in-the-upgrade', 'workspace', fp[0][1]['sp'][0] if fp else '', not fp,
            'a Framed transport is rebuilt from parts outside the TLS upgrade of the TCP constructor (%s): whether it carries a read buffer filled in cleartext into a protected session is not decided' % sorted({p for p, n in fp}))

    # ---- W4 verification only disabled on request
    check_verification(ctx, f, R)
    check_settings_copy(ctx, f, R)
    check_settings_getters(ctx, f, R)
    check_other_constructors(ctx, f, R)


DANGER = anchors.ConnSettings.DANGER
TS = anchors.ConnSettings.TS
IS_SETTINGS = lambda t: t == anchors.ConnSettings.ST

def states_of(R):
    """the distinct reachable scalar states of the settings struct, each with a node that reaches it (for the report)"""
    out = {}
    for n in R.nodes:
        out.setdefault(R.key(n['state']), n)
    return list(out.values())

def reading_text(role, v):
    if role == 'verify-off':
        return 'certificate verification is %s' % {True: 'switched off', False: 'performed', None: 'not decided'}[v]
    return 'starttls() answers %s' % {True: 'true', False: 'false', None: 'something the analysis cannot reduce to a constant'}[v]

def check_request_recorded(ctx, R, role, rule, instance):
    """set_x(v) makes x read v: in every reachable state of the settings, with v = true and v = false, the state the setter leaves
    is one in which the setting - read through its reader, see anchors.ConnSettings - is v.  (One bool field, one bit of a flags
    byte that is set with `|=` and cleared with `&= !BIT`, a variant of an enum: all the same to this rule.)"""
    p = R.setter[role]
    nm = p.rsplit('::', 1)[-1]
    bad, n = [], 0
    for t in R.trans:
        if t['setter'] != p:
            continue
        n += 1
        got, why = R.read(role, t['state'])
        if got is None:
            continue        # a reader the analysis cannot decide in this state is reported - once - by the rule that judges the reader in every reachable state (W4.verification-disabled-only-on-request / W7.getter-returns-the-setting)
        if got is not t['arg']:
            before = R.read(role, R.nodes[t['node']]['state'])[0]
            bad.append('%s after %s: %s%s%s' % (t['call'], R.where(t['node']), reading_text(role, got), ' (%s)' % why if got is None else '',
                                                ' - as before the call' if got is not None and got == before else ''))
    ctx.add(rule, instance, '', not bad and n > 0,
            '%s(v) does not record v: %s - the request cannot be told from its absence (%d of %d calls over the reachable settings states)' % (nm, '; '.join(bad[:3]), len(bad), n))
    return not bad and n > 0

def check_verification(ctx, f, R):
    """W4, certificate verification.  The request "do not verify" is the public call `set_no_tls_verify(true)`.  How the settings
    struct keeps it is not read (anchors.ConnSettings): the reachable states of the struct are enumerated by evaluating the builder
    methods on literals, and the setting is read where it takes effect - in the default connector / configuration of the handshake
    helper.
      (a) the setter records the request: after set_no_tls_verify(v), from any reachable state, the setting reads v;
      (b) every way to obtain a settings value without calling the setter - every body that builds the struct (`new`, the `Default`
          impl whether derived or written by hand, Clone, ...) - yields "not requested" (or what the settings it copies from say);
      (c) in every reachable state the default connector / configuration switches verification off exactly when the last
          set_no_tls_verify call on the way there said true (never called: false);
      (d) it is built from the connection's own settings, and a caller-supplied connector is used as given."""
    role = 'verify-off'
    if role not in R.setter:
        ctx.fail('W4.verification-request-recorded', 'set_no_tls_verify', '', 'the settings struct has no public set_no_tls_verify(bool): anchor lost')
        return
    builders = [fn for fn in DANGER if fn in f.hir]
    ctx.add('W4.default-connector-builder', TS, '', len(builders) == 1 and TS in f.hir, 'the handshake helper / the builder of the default connector were not found (%s): anchor lost' % builders)
    if len(builders) != 1 or TS not in f.hir:
        return
    bname = builders[0].split('::')[-1]
    ctx.analysed['bodies'].update([TS, builders[0], R.setter[role]])
    # ---- (a)
    check_request_recorded(ctx, R, role, 'W4.verification-request-recorded', R.setter[role])
    # ---- (b) the value every constructor path starts from
    n = 0
    for p in R.constructors():
        B = hirq.Body(f, f.body(p))
        ctx.analysed['bodies'].add(p)
        sparams, _vals = R.built(p)
        short = p.replace(R.ST, 'LdapConnSettings')
        built = 0
        # a body that is handed a settings value (Clone, a conversion) is evaluated with that value in every reachable state
        for src in (states_of(R) if sparams else [None]):
            _sp, vals = R.built(p, src['state'] if src else None)
            for got in vals:
                built += 1
                n += 1
                if got is None or any(not R.closed(got[F]) for F in R.S):
                    ctx.fail('W4.settings-constructor-readable', p, loc(B.root), 'a settings value built by %s could not be reduced to a state of the struct' % short)
                    continue
                after, why = R.read(role, {F: got[F] for F in R.S})
                before = R.read(role, src['state'])[0] if src else False
                ok = after is False or (after is True and before is True) or (after is None and (src is None or before is None))     # (a reader the analysis cannot decide: every initial state is a reachable state, reported - once - by (c))
                ctx.add('W4.verification-disabled-only-on-request', '%s|initial value' % short, loc(B.root), ok,
                        'settings obtained from %s%s have certificate verification disabled although nobody asked: %s with them%s' % (
                            short, ' (applied to %s)' % R.where(src) if src else '', reading_text(role, after), ' (%s)' % why if after is None else ''))
        ctx.add('W4.settings-constructor-readable', p, loc(B.root), built > 0, 'a body that builds the settings struct could not be followed to the value it builds')
    ctx.floor('W4.initial', 'settings values built (constructor paths: new, Default, Clone)', n, 3)
    # ---- (c) the default connector / configuration, in every reachable state
    by_req = {True: [], False: []}
    for nd in R.nodes:
        got, why = R.read(role, nd['state'])
        by_req[nd['req'][role]].append((nd, got, why))
    for asked in (True, False):
        bad = [(nd, got, why) for nd, got, why in by_req[asked] if got is not asked]
        ctx.add('W4.verification-disabled-only-on-request', '%s|disabling requested=%s' % (bname, asked), loc(f.body(builders[0])['body']), by_req[asked] and not bad,
                'certificate verification is %s by %s where set_no_tls_verify(true) %s: %s' % (
                    'not decided to be %s' % ('disabled' if asked else 'kept') if bad and all(got is None for _n, got, _w in bad) else 'kept' if asked else 'disabled', bname, 'was the last such call' if asked else 'was not called (or was followed by set_no_tls_verify(false))',
                    '; '.join('with %s %s%s' % (R.where(nd), reading_text(role, got), ' (%s)' % why if got is None else '') for nd, got, why in bad[:3]) or 'no reachable settings state with this request'))
    ctx.floor('W4', bname + ': reachable settings states it was evaluated in', len(R.nodes), 4)
    # ---- (d) the handshake helper
    T = hirq.Body(f, f.body(TS))
    sparams = [('param', x) for x in sem.params_of_type(f, T, IS_SETTINGS)]
    hosts = [('param', x) for x in sem.params_of_type(f, T, lambda t: t == 'str')]
    streams = [('param', x) for x in sem.params_of_type(f, T, lambda t: t.endswith('::TcpStream'))]
    ctx.add('W4.handshake-helper-signature', TS, loc(T.root), len(sparams) == 1 and len(hosts) == 1 and len(streams) == 1,
            'the handshake helper is not (settings, host name: &str, stream: TcpStream): anchor lost')
    CF = R.field.get('connector')
    given = lambda x: x[0] == 'field' and x[2] == CF and x[1] in sparams
    takes_settings = {fn: any('LdapConnSettings' in (x or '') for x in (f.items.get(fn) or {}).get('inputs') or []) for fn in builders}
    outs = absx.Interp(f, T, combinators=True).run(root=T.root['body'] if T.root['k'] == 'Closure' else T.root)
    n = 0
    for o in outs:
        pcs = [(sem.untake(a), t) for a, t in o.st.pc]
        # the default connector is built from the caller's own settings (a builder that is handed something else - a flag read from
        # them - is judged by (c), which follows the handshake helper into it)
        for dc in [e for e in o.st.ev if e[0] == 'call' and e[1] in DANGER]:
            okf = any(a in sparams for a in dc[2]) if takes_settings.get(dc[1]) else True
            ctx.add('W4.default-connector-from-own-settings', dc[1].split('::')[-1], loc(dc[3]), okf, 'the default connector is not built from this connection\'s settings (its verification request)')
        con = calls(o, 'TlsConnector::connect')
        if not con:
            continue
        n += 1
        custom = absx.pc_variant(pcs, given, 'Some')
        a = tuple(sem.untake(x) for x in con[0][1][2])
        src = a[0]
        uses_given = absx.leaves(src, lambda x: x[0] == 'variant' and x[2] == 'Some' and given(x[1])) != []
        uses_default = absx.leaves(src, lambda x: x[0] == 'call' and x[1] in DANGER) != []
        ok = (custom is True and uses_given and not uses_default) or (custom is False and uses_default and not uses_given)
        ctx.add('W4.connector-choice', 'custom=%s' % custom, loc(T.root), ok, 'a caller-supplied connector/config must be used as given, the default one otherwise')
        host = a[1]
        okh = host in hosts or any(absx.leaves(host, lambda x, h=h: x == h) for h in hosts)
        ctx.add('W4.connect-arguments', 'custom=%s' % custom, loc(T.root), okh and a[-1] in streams, 'the handshake is not run for (hostname, stream) as given')
    ctx.floor('W4', 'create_tls_stream connect paths', n, 2)


def check_settings_copy(ctx, f, R):
    """W5 - a copy of the connection settings asks for the same protection as the original: if the settings type can be cloned
    (derived or hand-written), then for the original in every reachable state the clone reads the same StartTLS request and the
    same verification setting (each through its reader), and carries the original's connector / config, on every path of
    `Clone::clone`.  (Settings are routinely prepared once and cloned per connection; a clone that forgets `starttls` opens a
    cleartext session although StartTLS was requested.)"""
    st = R.ST
    p = '<%s as core::clone::Clone>::clone' % st
    roles = [r for r in ('starttls', 'verify-off') if r in R.setter]
    ctx.add('W5.settings-fields', st, '', len(roles) == 2, 'the settings struct has no public set_starttls / set_no_tls_verify: anchor lost')
    if p not in f.hir:
        ctx.ok('W5.settings-copy-keeps-tls-request', 'not Clone', '', 'the settings type cannot be cloned in this configuration')
        return
    B = hirq.Body(f, f.body(p))
    ctx.analysed['bodies'].add(p)
    SELF = ('param', 'self')
    CF = R.field.get('connector')
    n = 0
    for src in states_of(R):
        for o in R.interp(B).run(heap=R.seed(SELF, src['state'])):
            if o.kind not in ('val', 'ret'):
                continue
            n += 1
            got = R.taken_apart(o.val, o) if o.val[0] == 'struct' else None
            wrong = []
            if got is None or any(not R.closed(got[F]) for F in R.S):
                wrong.append('the clone is not a settings value the analysis can take apart (%s)' % absx.fmt(o.val)[:40])
            else:
                s2 = {F: got[F] for F in R.S}
                for r in roles:
                    a, b = R.read(r, src['state'])[0], R.read(r, s2)[0]
                    if a != b or (b is None and r != 'verify-off'):      # (a verification reader that is undecided for the original and for the clone alike is reported by W4 (c))
                        wrong.append('for the original %s, for the clone %s' % (reading_text(r, a), reading_text(r, b)))
                if CF is not None and R.copied(got[CF]) != ('field', SELF, CF):
                    wrong.append('the caller\'s connector becomes %s' % absx.fmt(got[CF])[:30])
            ctx.add('W5.settings-copy-keeps-tls-request', ','.join(roles + ['connector']), loc(B.root), not wrong,
                    'a clone of the connection settings %s does not ask for the same protection: %s - a connection opened from the copy is not protected as requested' % (R.where(src), '; '.join(wrong)))
    ctx.floor('W5', 'paths of the settings\' Clone::clone', n, 1)


def check_settings_getters(ctx, f, R):
    """W7: the constructors read what was requested through the settings' public getter; a getter that does not return what the
    setters recorded turns the request off (or on) for every caller.  In every configuration in which the setter exists:
    set_starttls(v) makes starttls() answer v from every reachable state (W7.request-recorded), and in every reachable state
    starttls() answers what the last set_starttls call on the way there said - false when there was none
    (W7.getter-returns-the-setting).  Setter and getter are evaluated on literals, so how the request is kept - a bool field, a bit
    of a flags byte - is not read.  (The always-false fallback getter exists only where no TLS backend is compiled in - and there
    there is no setter.)  This is what ties `set_starttls(true)` to the scheme decision of the TCP constructor in both TLS back
    ends (the cfg attributes on the getter pair are not visible in any one configuration)."""
    role = 'starttls'
    if role not in R.setter:
        return
    g = R.GETTER[role]
    ctx.analysed['bodies'].update([g, R.setter[role]])
    check_request_recorded(ctx, R, role, 'W7.request-recorded', 'set_starttls')
    bad = []
    for nd in R.nodes:
        got, why = R.read(role, nd['state'])
        if got is not nd['req'][role]:
            bad.append('with %s %s%s' % (R.where(nd), reading_text(role, got), ' (%s)' % why if got is None else ''))
    ctx.add('W7.getter-returns-the-setting', 'starttls', loc(f.body(g)['body']) if g in f.hir else '', not bad,
            'LdapConnSettings::starttls() does not return what set_starttls recorded: %s - what the caller requested is not what connection set-up sees' % '; '.join(bad[:3]))
    ctx.floor('W7', 'reachable settings states the TLS-relevant getters were evaluated in', len(R.nodes), 4)


def check_other_constructors(ctx, f, R):
    """W8: `set_starttls(true)` is a request for a protected session whatever the URL scheme.  Every constructor other than the TCP
    one (decided by W1) that takes the settings - the Unix-socket constructor - is evaluated with the settings in every reachable
    state in which StartTLS reads as requested (the getter followed into): it must not hand back a connection without TLS there."""
    if 'starttls' not in R.setter:
        return
    asked = [n for n in states_of(R) if R.read('starttls', n['state'])[0] is True]
    ctx.floor('W8', 'reachable settings states with StartTLS requested', len(asked), 1)
    for p in sorted(q for q in f.hir if q.startswith('ldap3::conn::LdapConnAsync::new_') and q != NT and '{' not in q):
        it = f.items.get(p) or {}
        if not any('LdapConnSettings' in (x or '') for x in it.get('inputs') or []):
            continue
        B = hirq.Body(f, f.body(p))
        ctx.analysed['bodies'].add(p)
        setts = [('param', x) for x in sem.params_of_type(f, B, IS_SETTINGS)]
        bad, total = 0, 0
        for n in asked:
            heap = {}
            for sp in setts:
                heap.update(R.seed(sp, n['state']))
            outs = absx.Interp(f, B, unroll=1, summaries=[R.algebra], inline=lambda c: c in R.GETTER.values()).run(root=B.root['body'] if B.root['k'] == 'Closure' else B.root, heap=heap)
            oks = [o for o in outs if o.kind in ('val', 'ret') and o.val[0] == 'ctor' and o.val[1] == 'Ok']
            total += len(oks)
            bad += len([o for o in oks if not any(e[0] == 'call' and e[1].endswith('::create_tls_stream') for e in o.st.ev)])
        if not total:
            continue        # e.g. the non-Unix stub, which never returns
        ctx.add('W8.no-cleartext-handle-when-starttls-requested', p.rsplit('::', 1)[-1], loc(B.root), not bad,
                '%s returns a connection without TLS on %d of %d paths although StartTLS was requested: with an %s URL, set_starttls(true) is silently ignored and a cleartext handle is handed back' % (
                    p.rsplit('::', 1)[-1], bad, total, 'ldapi' if 'unix' in p else 'other'))
