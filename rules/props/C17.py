"""C17 - requested TLS is never silently downgraded."""
from facts import walk, callee_of, call_args, loc
import hirq, anchors, absx, sem

EXPLANATION = ("All paths of the TCP connection constructor are enumerated (path-sensitive abstract evaluation of its typed HIR): W1 every "
               "path that returns Ok for an `ldaps` URL, or for an `ldap` URL with StartTLS requested, has obtained Ok from the TLS "
               "handshake helper, re-framed the connection over ConnType::Tls with that stream and marked the handle has_tls; the only "
               "Ok paths without TLS are those for `ldap` without StartTLS; W2 on StartTLS paths exactly one LDAP operation is issued "
               "before the handshake - extended(StartTLS) - the driver turn's result and `success()?` of the response are both required "
               "(Ok) before into_parts / the handshake, `ldaps` paths issue no LDAP operation before the handshake, and the handle is not "
               "cloned; W3 the transport the connection ends up with is read as what it is built from, whichever constructor spells it (Framed::new, Decoder::framed, FramedParts::new + Framed::from_parts, each modelled after tokio_util): it runs over the stream the handshake returned, the handshake ran on the socket taken out of the cleartext transport, the codec is the cleartext transport's, and its read and write buffers start empty - a buffer of the cleartext transport carried over (assigned into the new parts, or the old parts reused) would have cleartext bytes decoded inside the protected session; of the old transport's parts only io and codec flow anywhere; a transport is rebuilt from parts nowhere else; W4 the request to skip certificate verification is the public call set_no_tls_verify(true): the private field it writes and "
               "the value that stands for the request are read from the setter (not from a name); every body that builds a settings value "
               "(new, the Default impl - derived or hand-written -, Clone) leaves that field at 'not requested'; the default connector / "
               "configuration disables verification exactly on the paths that found the request in the field, is built from the "
               "connection's own settings, a caller-supplied connector is used as given, and the handshake is given the URL's host name; "
               "W5/W7/W8 the settings' Clone keeps, and the starttls() getter returns, what the setters recorded (fields anchored by role). Not decided: what native-tls / rustls verify (trusted); server behaviours as runtime events.")
TRUSTED = ['native-tls / rustls certificate and host name verification', 'tokio_util Framed::into_parts / Framed::new / Framed::from_parts / FramedParts::new / Decoder::framed behave as modelled in transport_of (read from tokio-util 0.7 source)']
UNDECIDED = ['TLS library behaviour', 'server behaviour at run time']
ASSUMPTIONS = []
CONFIGS = ['default', 'rustls']
QUICK_CONFIGS = ['default', 'rustls']      # the two TLS back ends are sibling implementations of the same clauses, selected by cfg: a change can be visible in only one of them
SHARED = [('C04', ('L7.',), 'W6.transport'), ('C18', ('U6.',), 'W9.request-survives-later-builder-calls'),
          ('C03', ('T1.result-code',), 'W2.result-code-is-what-the-server-sent')]      # what is written to a ConnType::Tls goes to the TLS stream, not to another variant's socket, method by method; W9 "under all combinations of scheme, StartTLS and verification settings": set_starttls(true) / the verification setting / the caller's connector are still what connection setup sees after any later builder call - a builder method that rebuilds the settings from defaults turns a requested StartTLS off without a word; W2.result-code "establishment fails if the StartTLS response is not success ... answering garbage": the result code that `success()` tests (W2.success-means-rc-0: Ok exactly for 0) is the ENUMERATED the server put first into the response, decoded - on no path a default that stands in for an element that is missing, wrong-tagged or constructed, because the default of the code's type is 0 = success

NT = 'ldap3::conn::LdapConnAsync::new_tcp'

def scheme_of(o):
    s = {}
    for a, t in o.st.pc:
        if a[0] == 'bin' and a[1] == 'Eq' and a[2][0] == 'call' and a[2][1] == 'url::Url::scheme' and a[3][0] == 'lit':
            s[a[3][1]] = t
    if s.get('ldap'):
        return 'ldap'
    if s.get('ldaps'):
        return 'ldaps'
    return 'other'

def starttls_of(o):
    return next((t for a, t in o.st.pc if a[0] == 'call' and a[1] == 'ldap3::conn::LdapConnSettings::starttls'), None)

def calls(o, suffix):
    return [(i, e) for i, e in enumerate(o.st.ev) if e[0] == 'call' and e[1].endswith(suffix)]


FRESH = ('fresh-buffer',)
FRAMED_FRESH = {'tokio_util::codec::framed::Framed::<T, U>::new': (0, 1), 'tokio_util::codec::framed::Framed::<T, U>::with_capacity': (0, 1), 'tokio_util::codec::decoder::Decoder::framed': (1, 0)}
FROM_PARTS = 'tokio_util::codec::framed::Framed::<T, U>::from_parts'
PARTS_NEW = 'tokio_util::codec::framed::FramedParts::<T, U>::new'
EMPTY_BUFFER = ('bytes::bytes_mut::BytesMut::new', 'bytes::bytes_mut::BytesMut::with_capacity', '<bytes::bytes_mut::BytesMut as core::default::Default>::default')

def transport_of(t, o):
    """What a `Framed` value is built from, read off its constructor term and the stores that precede the construction on path o:
    {'io', 'codec', 'read_buf', 'write_buf'} with FRESH for a buffer that starts empty; None when t is not the result of a
    constructor modelled here (the caller fails closed).  The models, each after tokio_util's source:
      Framed::new(io, codec), Framed::with_capacity(io, codec, n), Decoder::framed(codec, io) [the provided method is
        `Framed::new(io, self)`; an impl that overrides it has another def-path and is not matched]: state = Default, both buffers empty;
      Framed::from_parts(p) = Framed { inner: p.io, codec: p.codec, read: p.read_buf.into(), write: p.write_buf.into() }: the four
        fields of p as they are at the call;
      FramedParts::new(io, codec) = { io, codec, read_buf: BytesMut::new(), write_buf: BytesMut::new() };
      any other parts value (Framed::into_parts(f)): its fields are opaque terms `p.x` - in particular never FRESH.
    A field of a parts value is the last value stored to it before the construction, else what its own constructor gave it.  A parts
    value from FramedParts::new that was also handed to some other call (e.g. by `&mut`) is not followed: its buffers are unknown."""
    if not (isinstance(t, tuple) and t and t[0] == 'call' and len(t) == 4):
        return None
    if t[1] in FRAMED_FRESH and len(t[2]) > max(FRAMED_FRESH[t[1]]):
        i, c = FRAMED_FRESH[t[1]]
        return {'io': t[2][i], 'codec': t[2][c], 'read_buf': FRESH, 'write_buf': FRESH}
    if t[1] != FROM_PARTS or len(t[2]) != 1:
        return None
    P = t[2][0]
    at = next((i for i, e in enumerate(o.st.ev) if e[0] == 'call' and e[1] == FROM_PARTS and e[3].get('id') == t[3]), None)
    if at is None:
        return None
    stored, touched = {}, {}
    def without_fields(x):
        # x with every `P.f` cut out: what is left of P in it is the parts value as a whole
        if isinstance(x, tuple):
            if len(x) == 3 and x[0] == 'field' and x[1] == P:
                return ('cut',)
            return tuple(without_fields(y) for y in x)
        return x
    for e in o.st.ev[:at]:
        if e[0] == 'store' and e[1][0] == 'field' and e[1][1] == P:
            stored[e[1][2]] = e[2]
        elif e[0] == 'store' and absx.is_subplace(e[1], P):
            k = e[1]
            while k[1] != P:
                k = k[1]
            touched.setdefault(k[2], 'a store inside it')   # a store below one of its fields: that field is no longer what was put there
        elif e[0] == 'call':
            # the parts value - or one of its fields - handed to a function (possibly by `&mut`): what the callee leaves there is not modelled
            for x in e[2]:
                for y in absx.leaves(x, lambda y: len(y) == 3 and y[0] == 'field' and y[1] == P):
                    touched.setdefault(y[2], e[1].rsplit('::', 1)[-1])
                if absx.leaves(without_fields(x), lambda y: y == P):
                    touched.setdefault('*', e[1].rsplit('::', 1)[-1])
        elif e[0] == 'store-unknown':
            touched.setdefault('*', 'a store the interpreter could not place')
    made_new = P[0] == 'call' and P[1] == PARTS_NEW and len(P[2]) == 2
    out = {}
    for name, k in (('io', 0), ('codec', 1), ('read_buf', None), ('write_buf', None)):
        why = touched.get(name) or touched.get('*')
        if name in stored:
            v = stored[name]
            if k is None and why is None and v[0] == 'call' and v[1] in EMPTY_BUFFER and all(x[0] == 'lit' for x in v[2]):
                v = FRESH       # BytesMut::new() / with_capacity(n) / default(): a new buffer of length 0
            out[name] = v
        elif made_new and k is not None:
            out[name] = P[2][k]
        elif made_new:
            out[name] = FRESH if why is None else ('unk', 'a buffer handed to %s before from_parts' % why)
        else:
            out[name] = ('field', P, name)
    return out

def describe_buffer(b):
    if b[0] == 'field' and b[1][0] == 'call' and b[1][1].endswith('::into_parts'):
        return 'the %s of the cleartext transport (into_parts(..).%s)' % (b[2], b[2])
    return absx.fmt(b)[:80]

def run(ctx):
    f = ctx.facts
    if NT not in f.hir:
        ctx.fail('anchor-missing', NT, '', 'TCP constructor not found'); return
    B = hirq.Body(f, f.body(NT))
    ctx.analysed['bodies'].add(NT)
    R = anchors.ConnSettings(f)
    outs = absx.Interp(f, B, unroll=1, combinators=True).run(root=B.root['body'] if B.root['k'] == 'Closure' else B.root)
    oks = [o for o in outs if o.kind in ('val', 'ret') and o.val[0] == 'ctor' and o.val[1] == 'Ok']
    ctx.floor('W1', 'Ok-returning paths of the TCP constructor', len(oks), 3)
    urls = sem.params_of_type(f, B, lambda t: t == 'url::Url')
    ctx.add('W4.url-parameter', NT, loc(B.root), len(urls) == 1, 'the TCP constructor has no single parameter of type &Url: anchor lost')
    URL = ('param', urls[0] if urls else 'url')
    seen = set()
    for o in oks:
        sch, stls = scheme_of(o), starttls_of(o)
        want_tls = sch == 'ldaps' or (sch == 'ldap' and stls is True)
        conn, ldap = o.val[2][0][1] if o.val[2][0][0] == 'tuple' else (('unk',), ('unk',))
        tls = calls(o, 'LdapConnAsync::create_tls_stream')
        has_tls = o.st.heap.get(('field', ldap, 'has_tls')) == ('lit', True)
        got_tls = False
        tterm = ('await', ('call', tls[0][1][1], tls[0][1][2], tls[0][1][3].get('id'))) if len(tls) == 1 else None
        # the transport the returned connection ends up with, read as what it is built from (however the constructor is spelled)
        new_stream = o.st.heap.get(('field', conn, 'stream'))
        tr = transport_of(new_stream, o) if new_stream is not None else None
        if tterm is not None:
            ok_hs = any(a == ('is', tterm, 'Ok') and t for a, t in o.st.pc)
            got_tls = ok_hs and tr is not None and tr['io'] == ('ctor', 'ConnType::Tls', (('variant', tterm, 'Ok', 0),)) and has_tls
        key = '%s|starttls=%s' % (sch, stls)
        seen.add((sch, stls if sch == 'ldap' else None))
        if want_tls:
            ctx.add('W1.tls-before-ok', key, loc(B.root), got_tls,
                    'a usable handle is returned for %s although the TLS handshake result was not required / the connection was not re-framed over TLS / has_tls not set' % key)
        else:
            ctx.add('W1.cleartext-only-for-plain-ldap', key, loc(B.root), sch == 'ldap' and stls is False and not tls and not has_tls,
                    'a connection without TLS is returned for %s' % key)
        # ---- W2
        ops = [(i, e) for i, e in enumerate(o.st.ev) if e[0] == 'call' and e[1].startswith('ldap3::ldap::Ldap::') and e[1] != 'ldap3::ldap::Ldap::clone']
        if sch == 'ldap' and stls is True:
            ok = len(ops) == 1 and ops[0][1][1] == 'ldap3::ldap::Ldap::extended' and ops[0][1][2][1] in (('ctor', 'starttls::StartTLS', ()), ('const', 'ldap3::exop_impl::starttls::StartTLS'))
            ctx.add('W2.only-starttls-in-clear', key, loc(B.root), ok, 'LDAP operations issued before the handshake: %s' % [(e[1].split('::')[-1], absx.fmt(e[2][-1])[:30]) for i, e in ops])
            suc = calls(o, 'ExopResult::success')
            ip = calls(o, 'Framed::<T, U>::into_parts')
            okq = len(suc) == 1 and len(ip) == 1 and len(tls) == 1 and suc[0][0] < ip[0][0] < tls[0][0]
            if okq:
                sterm = ('call', suc[0][1][1], suc[0][1][2], suc[0][1][3].get('id'))
                okq = any(a == ('is', sterm, 'Ok') and t for a, t in o.st.pc)
                # the response examined is component .1 of the joined result, the driver result component .0 must be Ok too
                joined = suc[0][1][2][0]
                okq = okq and joined[0] == 'field' and joined[2] == '1' and any(a == ('is', ('field', joined[1], '0'), 'Ok') and t for a, t in o.st.pc)
            ctx.add('W2.success-required-before-handshake', key, loc(B.root), okq, 'the StartTLS response is not checked with success()? (and the driver turn with ?) before the TLS handshake')
        elif sch == 'ldaps':
            ctx.add('W2.nothing-in-clear', key, loc(B.root), not ops, 'an LDAP operation is issued on an ldaps connection before the handshake')
        # handshake input: the URL's host name, the TCP stream taken out of the framed transport
        if len(tls) == 1:
            a = tls[0][1][2]
            def strip_site(t):
                if isinstance(t, tuple):
                    if t and t[0] == 'call' and len(t) == 4:
                        return ('call', t[1], tuple(strip_site(x) for x in t[2]), None)
                    return tuple(strip_site(x) for x in t)
                return t
            hs = ('call', 'url::Url::host_str', (URL,), None)
            has_host = any(strip_site(a2) == ('is', hs, 'Some') and t for a2, t in o.st.pc) and \
                any(a2[0] == 'call' and a2[1].endswith('::is_empty') and strip_site(a2[2][0]) == ('variant', hs, 'Some', 0) and not t for a2, t in o.st.pc)
            host_ok = strip_site(a[1]) == (('variant', hs, 'Some', 0) if has_host else ('lit', 'localhost'))
            ctx.add('W4.handshake-host-is-url-host', key, loc(tls[0][1][3]), host_ok, 'the host name given to the TLS handshake is %s, not the URL\'s' % absx.fmt(a[1])[:60])
            # ---- W3: what the protected transport is built from
            ip = calls(o, 'Framed::<T, U>::into_parts')
            old = ('call', ip[0][1][1], ip[0][1][2], ip[0][1][3].get('id')) if len(ip) == 1 else None
            wrong = []
            if old is None or a[2] != ('variant', ('field', old, 'io'), 'ConnType::Tcp', 0):
                wrong.append('the handshake is not run on the socket taken out of the cleartext transport (into_parts(..).io)')
            if tr is None:
                wrong.append('the connection\'s transport after the handshake is not a Framed built by Framed::new / Decoder::framed / Framed::from_parts (%s)' % absx.fmt(new_stream or ('unk',))[:60])
            else:
                if tr['io'] != ('ctor', 'ConnType::Tls', (('variant', tterm, 'Ok', 0),)):
                    wrong.append('it does not run over the stream the handshake returned')
                if old is None or tr['codec'] != ('field', old, 'codec'):
                    wrong.append('its codec is not the cleartext transport\'s (into_parts(..).codec)')
            ctx.add('W3.fresh-framed-from-io-and-codec', key, loc(B.root), not wrong, 'the TLS transport is not framed afresh from parts.io and parts.codec of the cleartext transport: ' + '; '.join(wrong))
            if tr is not None:
                for which, what in (('read_buf', 'read'), ('write_buf', 'write')):
                    ctx.add('W3.no-cleartext-buffer-carried-over', '%s|%s' % (key, what), loc(B.root), tr[which] == FRESH,
                            'the %s buffer of the protected transport does not start empty: it is %s - %s' % (what, describe_buffer(tr[which]),
                                'bytes the peer (or an attacker on the path) sent in cleartext after the StartTLS response are decoded as LDAP responses inside the protected session and delivered to whichever operation carries their message ID' if what == 'read'
                                else 'bytes queued in cleartext are written into the protected session'))
            # nothing else of the cleartext transport survives the upgrade: of its parts only io and codec flow anywhere on this path
            if old is not None:
                used = set()
                # (what a call is given, what a place holds when the path ends, what is returned; a value stored and overwritten again went nowhere)
                for t in [x for e in o.st.ev if e[0] == 'call' for x in e[2]] + list(o.st.heap.values()) + [o.val]:
                    for x in absx.leaves(t, lambda x: x[0] == 'field' and x[1] == old):
                        used.add(x[2])
                ctx.add('W3.only-io-and-codec', key, loc(B.root), used <= {'io', 'codec'}, 'parts of the cleartext transport that flow into the protected session: %s' % sorted(used - {'io', 'codec'}))
    for need in [('ldap', False), ('ldap', True), ('ldaps', None)]:
        ctx.add('W1.coverage', str(need), loc(B.root), need in seen, 'no Ok path for (scheme, starttls) = %s' % (need,))
    # scheme tag: "starttls" exactly when scheme is ldap and settings.starttls()
    clones = [n for n, c in walk(B.root) if n['k'] == 'MethodCall' and (callee_of(n) or '').endswith('Clone>::clone') and 'ldap3::ldap::Ldap' in hirq.strip_refs(n['recv'].get('ty', ''))]
    # what `success()` means for the StartTLS response: Ok exactly for result code 0 (decided over the finite partition, shared with C03 T4)
    from props import C03
    C03.check_result_helpers(ctx, f, 'W2.success-means-rc-0', only=('ldap3::result::ExopResult::success',))
    ctx.add('W2.handle-not-cloned', NT, loc(B.root), not clones, 'the handle is cloned during establishment')
    # ---- W3 global: a transport is rebuilt from parts only where the rule above judges the result (the TCP constructor; a helper
    # introduced by a later change is expanded into it at fact load): anywhere else the buffers it carries are not decided
    fp = [(p, n) for p, n, _c in hirq.all_calls(f, lambda c: ('Framed' in c and c.endswith('::from_parts')) or c.endswith('FramedParts::<T, U>::new')) if p.split('::{closure')[0] != NT]
    ctx.add('W3.transport-rebuilt-only-in-the-upgrade', 'workspace', fp[0][1]['sp'][0] if fp else '', not fp,
            'a Framed transport is rebuilt from parts outside the TLS upgrade of the TCP constructor (%s): whether it carries a read buffer filled in cleartext into a protected session is not decided' % sorted({p for p, n in fp}))

    # ---- W4 verification only disabled on request
    check_verification(ctx, f, R)
    check_settings_copy(ctx, f, R)
    check_settings_getters(ctx, f, R)
    check_other_constructors(ctx, f, R)


DANGER = {'ldap3::conn::LdapConnAsync::create_connector': 'danger_accept_invalid_certs', 'ldap3::conn::LdapConnAsync::create_config': 'set_certificate_verifier'}
TS = 'ldap3::conn::LdapConnAsync::create_tls_stream'
IS_SETTINGS = lambda t: t == anchors.ConnSettings.ST

def check_verification(ctx, f, R):
    """W4, certificate verification.  The request "do not verify" is the public call `set_no_tls_verify(true)`; the private field
    it writes and the value that stands for the request are read from the setter (anchors.ConnSettings), not from a name.
      (a) the setter records the request: it stores the two distinct boolean constants for true / false;
      (b) every way to obtain a settings value without calling the setter - every body that builds the struct (`new`, the `Default`
          impl whether derived or written by hand, ...) - yields "not requested" in that field (or copies another settings' field);
      (c) the default connector / configuration switches verification off exactly on the paths that found the request in the field;
      (d) it is built from the connection's own settings, and a caller-supplied connector is used as given."""
    F = R.field.get('verify-off')
    ctx.add('W4.verification-request-recorded', R.setter.get('verify-off', 'set_no_tls_verify'), '', F is not None and R.polarity_ok('verify-off'),
            'set_no_tls_verify(v) does not record v in a field of the settings (it stores %s for true, %s for false): the request cannot be told from its absence' % (
                tuple(absx.fmt(R.stored.get('verify-off', {}).get(v, ('unk',))) for v in (True, False))))
    if F is None or not R.polarity_ok('verify-off'):
        return
    on_value = R.stored['verify-off'][False]          # what the field holds when verification is to be performed
    # ---- (b) initial value on every constructor path
    n = 0
    for p in sorted(f.hir):
        rec = f.hir[p]
        if '{' in p or not any(nd['k'] == 'Struct' and (nd.get('ctor_of') or nd.get('def') or '') == R.ST for nd, _c in walk(rec['body'])):
            continue
        if p == R.setter.get('verify-off'):
            continue        # the setter itself, written as a struct-update (`Self { f: v, ..self }`): what it records is (a)'s question
        B = hirq.Body(f, f.body(p))
        ctx.analysed['bodies'].add(p)
        sparams = [('param', x) for x in sem.params_of_type(f, B, IS_SETTINGS)]
        def copied(x):
            while x and x[0] == 'call' and x[1].rsplit('::', 1)[-1] in ('clone', 'to_owned') and x[2]:
                x = x[2][0]
            return x[0] == 'field' and x[2] == F and x[1] in sparams
        outs = absx.Interp(f, B, combinators=True, summaries=[sem.primitive_defaults], inline=lambda c: c.endswith('core::default::Default>::default')).run(
            root=B.root['body'] if B.root['k'] == 'Closure' else B.root)
        built = 0
        for o in outs:
            if o.kind == 'div':
                continue
            where = [o.val] + [x for e in o.st.ev if e[0] in ('call', 'store') for x in (e[2] if e[0] == 'call' else (e[2],))] + list(o.st.heap.values())
            structs = []
            for t in where:
                for x in absx.leaves(t, lambda x: x[0] == 'struct' and x[1] == hirq.short_def(R.ST)):
                    if x not in structs:
                        structs.append(x)
            # a struct that only serves as the `..base` of another one is judged through the outer one
            bases = [y[3] for y in structs if y[3] is not None]
            for x in structs:
                if x in bases:
                    continue
                built += 1
                n += 1
                v = absx.field_term(x, F)
                ok = v == on_value or copied(v)
                ctx.add('W4.verification-disabled-only-on-request', '%s|initial value' % p.replace(R.ST, 'LdapConnSettings'), loc(B.root), ok,
                        'settings obtained from %s have certificate verification disabled although nobody asked: the field `%s` starts as %s, which is what set_no_tls_verify(true) stores (verification is on for %s)' % (
                            p.replace(R.ST, 'LdapConnSettings'), F, absx.fmt(v)[:40], absx.fmt(on_value)))
        ctx.add('W4.settings-constructor-readable', p, loc(B.root), built > 0, 'a body that builds the settings struct could not be followed to the value it builds')
    ctx.floor('W4.initial', 'settings values built (constructor paths: new, Default, Clone)', n, 3)
    # ---- (c) the default connector / configuration
    flagged = {}          # builder fn -> ('settings', param) | ('bool', param idx): where it reads the request from
    for fn, danger in DANGER.items():
        if fn not in f.hir:
            continue
        Cb = hirq.Body(f, f.body(fn))
        ctx.analysed['bodies'].add(fn)
        sparams = sem.params_of_type(f, Cb, IS_SETTINGS)
        bparams = sem.params_of_type(f, Cb, lambda t: t == 'bool')
        n = 0
        for o in absx.Interp(f, Cb, combinators=True).run():
            if o.kind == 'div':
                continue
            n += 1
            asked = None
            for a, t in o.st.pc:
                if a[0] == 'field' and a[2] == F and a[1][0] == 'param' and a[1][1] in sparams:
                    asked = R.requested('verify-off', t)
                    flagged[fn] = ('settings', a[1][1])
                elif a[0] == 'param' and a[1] in bparams:
                    # the builder is handed the request as a boolean: (d) requires the caller to pass the field (in this sense)
                    asked = t
                    flagged[fn] = ('bool', next(d['idx'] for d in Cb.defs.values() if d['kind'] == 'param' and d['name'] == a[1]))
            d = calls(o, danger)
            ok = asked is not None and bool(d) == asked
            if d and danger == 'danger_accept_invalid_certs':
                ok = ok and d[0][1][2][1] == ('lit', True)
            ctx.add('W4.verification-disabled-only-on-request', '%s|disabling requested=%s' % (fn.split('::')[-1], asked), loc(Cb.root), ok,
                    'certificate verification is %s on a path of %s where set_no_tls_verify(true) %s' % (
                        'disabled' if d else 'kept', fn.split('::')[-1], 'was not tested for' if asked is None else 'was called' if asked else 'was not called'))
        ctx.floor('W4', fn.split('::')[-1] + ' paths', n, 2)
    # ---- (d) the handshake helper
    if TS in f.hir:
        T = hirq.Body(f, f.body(TS))
        ctx.analysed['bodies'].add(TS)
        sparams = [('param', x) for x in sem.params_of_type(f, T, IS_SETTINGS)]
        hosts = [('param', x) for x in sem.params_of_type(f, T, lambda t: t == 'str')]
        streams = [('param', x) for x in sem.params_of_type(f, T, lambda t: t.endswith('::TcpStream'))]
        ctx.add('W4.handshake-helper-signature', TS, loc(T.root), len(sparams) == 1 and len(hosts) == 1 and len(streams) == 1,
                'the handshake helper is not (settings, host name: &str, stream: TcpStream): anchor lost')
        CF = R.field.get('connector')
        own_flag = lambda x: x[0] == 'field' and x[2] == F and x[1] in sparams
        given = lambda x: x[0] == 'field' and x[2] == CF and x[1] in sparams
        outs = absx.Interp(f, T, combinators=True).run(root=T.root['body'] if T.root['k'] == 'Closure' else T.root)
        n = 0
        for o in outs:
            pcs = [(sem.untake(a), t) for a, t in o.st.pc]
            # the default connector is built from the caller's own verification setting
            for dc in [e for e in o.st.ev if e[0] == 'call' and e[1] in DANGER]:
                how = flagged.get(dc[1])
                if how is None:
                    okf = False
                elif how[0] == 'settings':
                    okf = any(a in sparams for a in dc[2])
                else:
                    okf = how[1] < len(dc[2]) and own_flag(dc[2][how[1]]) and R.requested('verify-off', True)
                    if how[1] < len(dc[2]) and dc[2][how[1]][0] == 'not' and own_flag(dc[2][how[1]][1]):
                        okf = R.requested('verify-off', False)
                ctx.add('W4.default-connector-from-own-settings', dc[1].split('::')[-1], loc(dc[3]), okf, 'the default connector is not built from this connection\'s settings (its verification request)')
            con = calls(o, 'TlsConnector::connect')
            if not con:
                continue
            n += 1
            custom = absx.pc_variant(pcs, given, 'Some')
            a = tuple(sem.untake(x) for x in con[0][1][2])
            src = a[0]
            uses_given = absx.leaves(src, lambda x: x[0] == 'variant' and x[2] == 'Some' and given(x[1])) != []
            uses_default = absx.leaves(src, lambda x: x[0] == 'call' and x[1] in DANGER) != []
            ok = (custom is True and uses_given and not uses_default) or (custom is False and uses_default and not uses_given)
            ctx.add('W4.connector-choice', 'custom=%s' % custom, loc(T.root), ok, 'a caller-supplied connector/config must be used as given, the default one otherwise')
            host = a[1]
            okh = host in hosts or any(absx.leaves(host, lambda x, h=h: x == h) for h in hosts)
            ctx.add('W4.connect-arguments', 'custom=%s' % custom, loc(T.root), okh and a[-1] in streams, 'the handshake is not run for (hostname, stream) as given')
        ctx.floor('W4', 'create_tls_stream connect paths', n, 2)


def check_settings_copy(ctx, f, R):
    """W5 - a copy of the connection settings asks for the same protection as the original: if the settings type can be cloned
    (derived or hand-written), the clone's starttls / no_tls_verify / connector / config are the original's on every path of
    `Clone::clone`.  (Settings are routinely prepared once and cloned per connection; a clone that forgets `starttls` opens a
    cleartext session although StartTLS was requested.)"""
    st = 'ldap3::conn::LdapConnSettings'
    p = '<%s as core::clone::Clone>::clone' % st
    # the TLS-relevant fields, each anchored as the field its public setter writes
    tls_fields = [R.field[r] for r in ('starttls', 'verify-off', 'connector') if r in R.field]
    ctx.add('W5.settings-fields', st, '', 'starttls' in R.field and 'verify-off' in R.field, 'the settings struct has no field written by set_starttls / set_no_tls_verify: anchor lost')
    if p not in f.hir:
        ctx.ok('W5.settings-copy-keeps-tls-request', 'not Clone', '', 'the settings type cannot be cloned in this configuration')
        return
    B = hirq.Body(f, f.body(p))
    ctx.analysed['bodies'].add(p)
    SELF = ('param', 'self')
    n = 0
    for o in absx.Interp(f, B, combinators=True, inline=lambda c: c.endswith('core::default::Default>::default')).run():
        if o.kind not in ('val', 'ret'):
            continue
        n += 1
        v = o.val
        got = dict(v[2]) if v[0] == 'struct' else {}
        def same(x, name):
            # the field itself, possibly through clone()/copy
            while x and x[0] == 'call' and x[1].rsplit('::', 1)[-1] in ('clone', 'to_owned') and x[2]:
                x = x[2][0]
            return x == ('field', SELF, name)
        wrong = [name for name in tls_fields if not same(got.get(name), name)]
        ctx.add('W5.settings-copy-keeps-tls-request', ','.join(tls_fields), loc(B.root), v[0] == 'struct' and not wrong,
                'a clone of the connection settings does not carry over %s (it becomes %s): a connection opened from the copy is not protected as requested' % (
                    wrong, [absx.fmt(got.get(x, ('unk',)))[:30] for x in wrong]))
    ctx.floor('W5', 'paths of the settings\' Clone::clone', n, 1)


def check_settings_getters(ctx, f, R):
    """W7: the constructors read what was requested through the settings' public getter; a getter that does not return what the
    setter recorded turns the request off (or on) for every caller.  In every configuration in which the setter exists, each path of
    `LdapConnSettings::starttls()` returns "set_starttls(true) was called" - the field the setter writes, in the setter's polarity
    (the always-false fallback exists only where no TLS backend is compiled in - and there there is no setter).  This is what ties
    `set_starttls(true)` to the scheme decision of the TCP constructor in both TLS back ends (the cfg attributes on the getter pair
    are not visible in any one configuration)."""
    st = R.ST
    SELF = ('param', 'self')
    n = 0
    g = '%s::starttls' % st
    if 'starttls' in R.field and g in f.hir:
        fld = ('field', SELF, R.field['starttls'])
        ctx.add('W7.request-recorded', 'set_starttls', '', R.polarity_ok('starttls'), 'set_starttls(v) does not record v in a field of the settings')
        want = fld if R.stored['starttls'][True] == ('lit', True) else ('not', fld)
        B = hirq.Body(f, f.body(g))
        ctx.analysed['bodies'].add(g)
        for o in absx.Interp(f, B).run():
            if o.kind not in ('val', 'ret'):
                continue
            n += 1
            ctx.add('W7.getter-returns-the-setting', 'starttls', loc(B.root), o.val == want,
                    'LdapConnSettings::starttls() returns %s, not what set_starttls recorded (%s): what the caller requested is not what connection set-up sees' % (absx.fmt(o.val)[:40], absx.fmt(want)))
    if 'starttls' in R.field:
        ctx.floor('W7', 'paths of the TLS-relevant settings getters', n, 1)


def check_other_constructors(ctx, f, R):
    """W8: `set_starttls(true)` is a request for a protected session whatever the URL scheme.  Every constructor that can hand back a
    connection without TLS must have read the request and found it false on that path - otherwise it hands back a cleartext handle
    although protection was asked for.  The TCP constructor is decided by W1; this rule covers the remaining ones (the Unix-socket
    constructor)."""
    for p in sorted(q for q in f.hir if q.startswith('ldap3::conn::LdapConnAsync::new_') and q != NT and '{' not in q):
        it = f.items.get(p) or {}
        if not any('LdapConnSettings' in (x or '') for x in it.get('inputs') or []):
            continue
        B = hirq.Body(f, f.body(p))
        ctx.analysed['bodies'].add(p)
        setts = [('param', x) for x in sem.params_of_type(f, B, IS_SETTINGS)]
        outs = absx.Interp(f, B, unroll=1).run(root=B.root['body'] if B.root['k'] == 'Closure' else B.root)
        oks = [o for o in outs if o.kind in ('val', 'ret') and o.val[0] == 'ctor' and o.val[1] == 'Ok']
        if not oks:
            continue        # e.g. the non-Unix stub, which never returns
        bad = []
        for o in oks:
            asked = None
            for a, t in o.st.pc:
                if a[0] == 'call' and a[1].endswith('LdapConnSettings::starttls'):
                    asked = t
                elif a[0] == 'field' and a[1] in setts and a[2] == R.field.get('starttls'):
                    asked = R.requested('starttls', t)
            tls = any(e[0] == 'call' and e[1].endswith('::create_tls_stream') for e in o.st.ev)
            if not tls and asked is not False:
                bad.append(o)
        ctx.add('W8.no-cleartext-handle-when-starttls-requested', p.rsplit('::', 1)[-1], loc(B.root), not bad,
                '%s returns a connection without TLS on %d of %d paths without having found the StartTLS request absent: with an %s URL, set_starttls(true) is silently ignored and a cleartext handle is handed back' % (
                    p.rsplit('::', 1)[-1], len(bad), len(oks), 'ldapi' if 'unix' in p else 'other'))
