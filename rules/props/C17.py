"""C17 - requested TLS is never silently downgraded."""
from facts import walk, callee_of, call_args, loc
import hirq, anchors, absx

EXPLANATION = ("All paths of the TCP connection constructor are enumerated (path-sensitive abstract evaluation of its typed HIR): W1 every "
               "path that returns Ok for an `ldaps` URL, or for an `ldap` URL with StartTLS requested, has obtained Ok from the TLS "
               "handshake helper, re-framed the connection over ConnType::Tls with that stream and marked the handle has_tls; the only "
               "Ok paths without TLS are those for `ldap` without StartTLS; W2 on StartTLS paths exactly one LDAP operation is issued "
               "before the handshake - extended(StartTLS) - the driver turn's result and `success()?` of the response are both required "
               "(Ok) before into_parts / the handshake, `ldaps` paths issue no LDAP operation before the handshake, and the handle is not "
               "cloned; W3 the TLS transport is framed with a fresh Framed built from parts.io and parts.codec only - Framed::from_parts, "
               "which would keep cleartext bytes read before the handshake, is never called; W4 certificate verification is disabled only "
               "on the path where settings.no_tls_verify is true, a caller-supplied connector is used as given, and the handshake is given "
               "the URL's host name. Not decided: what native-tls / rustls verify (trusted); server behaviours as runtime events.")
TRUSTED = ['native-tls / rustls certificate and host name verification', 'tokio_util Framed::into_parts / Decoder::framed']
UNDECIDED = ['TLS library behaviour', 'server behaviour at run time']
ASSUMPTIONS = []
CONFIGS = ['default', 'rustls']
QUICK_CONFIGS = ['default', 'rustls']      # the two TLS back ends are sibling implementations of the same clauses, selected by cfg: a change can be visible in only one of them
SHARED = [('C04', ('L7.',), 'W6.transport')]      # what is written to a ConnType::Tls goes to the TLS stream, not to another variant's socket, method by method

NT = 'ldap3::conn::LdapConnAsync::new_tcp'

def scheme_of(o):
    s = {}
    for a, t in o.st.pc:
        if a[0] == 'bin' and a[1] == 'Eq' and a[2][0] == 'call' and a[2][1] == 'url::Url::scheme' and a[3][0] == 'lit':
            s[a[3][1]] = t
    if s.get('ldap'):
        return 'ldap'
    if s.get('ldaps'):
        return 'ldaps'
    return 'other'

def starttls_of(o):
    return next((t for a, t in o.st.pc if a[0] == 'call' and a[1] == 'ldap3::conn::LdapConnSettings::starttls'), None)

def calls(o, suffix):
    return [(i, e) for i, e in enumerate(o.st.ev) if e[0] == 'call' and e[1].endswith(suffix)]

def run(ctx):
    f = ctx.facts
    if NT not in f.hir:
        ctx.fail('anchor-missing', NT, '', 'TCP constructor not found'); return
    B = hirq.Body(f, f.body(NT))
    ctx.analysed['bodies'].add(NT)
    outs = absx.Interp(f, B, unroll=1).run(root=B.root['body'] if B.root['k'] == 'Closure' else B.root)
    oks = [o for o in outs if o.kind in ('val', 'ret') and o.val[0] == 'ctor' and o.val[1] == 'Ok']
    ctx.floor('W1', 'Ok-returning paths of the TCP constructor', len(oks), 3)
    seen = set()
    for o in oks:
        sch, stls = scheme_of(o), starttls_of(o)
        want_tls = sch == 'ldaps' or (sch == 'ldap' and stls is True)
        conn, ldap = o.val[2][0][1] if o.val[2][0][0] == 'tuple' else (('unk',), ('unk',))
        tls = calls(o, 'LdapConnAsync::create_tls_stream')
        fr = calls(o, 'Decoder::framed')
        has_tls = o.st.heap.get(('field', ldap, 'has_tls')) == ('lit', True)
        got_tls = False
        if len(tls) == 1 and len(fr) == 1:
            tterm = ('await', ('call', tls[0][1][1], tls[0][1][2], tls[0][1][3].get('id')))
            ok_hs = any(a == ('is', tterm, 'Ok') and t for a, t in o.st.pc)
            io = fr[0][1][2][1]
            new_stream = o.st.heap.get(('field', conn, 'stream'))
            got_tls = ok_hs and io == ('ctor', 'ConnType::Tls', (('variant', tterm, 'Ok', 0),)) and new_stream is not None and new_stream[0] == 'call' \
                and new_stream[3] == fr[0][1][3].get('id') and has_tls
        key = '%s|starttls=%s' % (sch, stls)
        seen.add((sch, stls if sch == 'ldap' else None))
        if want_tls:
            ctx.add('W1.tls-before-ok', key, loc(B.root), got_tls,
                    'a usable handle is returned for %s although the TLS handshake result was not required / the connection was not re-framed over TLS / has_tls not set' % key)
        else:
            ctx.add('W1.cleartext-only-for-plain-ldap', key, loc(B.root), sch == 'ldap' and stls is False and not tls and not has_tls,
                    'a connection without TLS is returned for %s' % key)
        # ---- W2
        ops = [(i, e) for i, e in enumerate(o.st.ev) if e[0] == 'call' and e[1].startswith('ldap3::ldap::Ldap::') and e[1] != 'ldap3::ldap::Ldap::clone']
        if sch == 'ldap' and stls is True:
            ok = len(ops) == 1 and ops[0][1][1] == 'ldap3::ldap::Ldap::extended' and ops[0][1][2][1] in (('ctor', 'starttls::StartTLS', ()), ('const', 'ldap3::exop_impl::starttls::StartTLS'))
            ctx.add('W2.only-starttls-in-clear', key, loc(B.root), ok, 'LDAP operations issued before the handshake: %s' % [(e[1].split('::')[-1], absx.fmt(e[2][-1])[:30]) for i, e in ops])
            suc = calls(o, 'ExopResult::success')
            ip = calls(o, 'Framed::<T, U>::into_parts')
            okq = len(suc) == 1 and len(ip) == 1 and len(tls) == 1 and suc[0][0] < ip[0][0] < tls[0][0]
            if okq:
                sterm = ('call', suc[0][1][1], suc[0][1][2], suc[0][1][3].get('id'))
                okq = any(a == ('is', sterm, 'Ok') and t for a, t in o.st.pc)
                # the response examined is component .1 of the joined result, the driver result component .0 must be Ok too
                joined = suc[0][1][2][0]
                okq = okq and joined[0] == 'field' and joined[2] == '1' and any(a == ('is', ('field', joined[1], '0'), 'Ok') and t for a, t in o.st.pc)
            ctx.add('W2.success-required-before-handshake', key, loc(B.root), okq, 'the StartTLS response is not checked with success()? (and the driver turn with ?) before the TLS handshake')
        elif sch == 'ldaps':
            ctx.add('W2.nothing-in-clear', key, loc(B.root), not ops, 'an LDAP operation is issued on an ldaps connection before the handshake')
        # handshake input: the URL's host name, the TCP stream taken out of the framed transport
        if len(tls) == 1:
            a = tls[0][1][2]
            def strip_site(t):
                if isinstance(t, tuple):
                    if t and t[0] == 'call' and len(t) == 4:
                        return ('call', t[1], tuple(strip_site(x) for x in t[2]), None)
                    return tuple(strip_site(x) for x in t)
                return t
            hs = ('call', 'url::Url::host_str', (('param', 'url'),), None)
            has_host = any(strip_site(a2) == ('is', hs, 'Some') and t for a2, t in o.st.pc) and \
                any(a2[0] == 'call' and a2[1].endswith('::is_empty') and strip_site(a2[2][0]) == ('variant', hs, 'Some', 0) and not t for a2, t in o.st.pc)
            host_ok = strip_site(a[1]) == (('variant', hs, 'Some', 0) if has_host else ('lit', 'localhost'))
            ctx.add('W4.handshake-host-is-url-host', key, loc(tls[0][1][3]), host_ok, 'the host name given to the TLS handshake is %s, not the URL\'s' % absx.fmt(a[1])[:60])
            ip = calls(o, 'Framed::<T, U>::into_parts')
            okio = len(ip) == 1 and fr and a[2][0] == 'variant' and a[2][2] == 'ConnType::Tcp' and a[2][1] == ('field', ('call', ip[0][1][1], ip[0][1][2], ip[0][1][3].get('id')), 'io') \
                and fr[0][1][2][0] == ('field', a[2][1][1], 'codec')
            ctx.add('W3.fresh-framed-from-io-and-codec', key, loc(B.root), okio, 'the TLS transport is not framed afresh from parts.io and parts.codec of the cleartext transport')
    for need in [('ldap', False), ('ldap', True), ('ldaps', None)]:
        ctx.add('W1.coverage', str(need), loc(B.root), need in seen, 'no Ok path for (scheme, starttls) = %s' % (need,))
    # scheme tag: "starttls" exactly when scheme is ldap and settings.starttls()
    clones = [n for n, c in walk(B.root) if n['k'] == 'MethodCall' and (callee_of(n) or '').endswith('Clone>::clone') and 'ldap3::ldap::Ldap' in hirq.strip_refs(n['recv'].get('ty', ''))]
    # what `success()` means for the StartTLS response: Ok exactly for result code 0 (decided over the finite partition, shared with C03 T4)
    from props import C03
    C03.check_result_helpers(ctx, f, 'W2.success-means-rc-0', only=('ldap3::result::ExopResult::success',))
    ctx.add('W2.handle-not-cloned', NT, loc(B.root), not clones, 'the handle is cloned during establishment')
    # ---- W3 global: from_parts never used; parts fields
    fp = hirq.all_calls(f, lambda c: 'Framed' in c and c.endswith('::from_parts'))
    ctx.add('W3.no-from-parts', 'workspace', fp[0][1]['sp'][0] if fp else '', not fp, 'Framed::from_parts carries the pre-handshake read buffer into the protected session')
    parts_fields = set()
    for n, c in walk(B.root):
        if n['k'] == 'Field' and 'FramedParts<' in hirq.strip_refs(n['e'].get('ty', '')):
            parts_fields.add(n['name'])
    ctx.add('W3.only-io-and-codec', 'parts', loc(B.root), parts_fields <= {'io', 'codec'}, 'fields of the old transport used: %s' % sorted(parts_fields))

    # ---- W4 verification only disabled on request
    for fn, danger in (('ldap3::conn::LdapConnAsync::create_connector', 'danger_accept_invalid_certs'), ('ldap3::conn::LdapConnAsync::create_config', 'set_certificate_verifier')):
        if fn not in f.hir:
            continue
        Cb = hirq.Body(f, f.body(fn))
        ctx.analysed['bodies'].add(fn)
        n = 0
        is_flag = lambda a: a == ('field', ('param', 'settings'), 'no_tls_verify') or a == ('param', 'no_tls_verify')
        for o in absx.Interp(f, Cb, combinators=True).run():
            nv = next((t for a, t in o.st.pc if is_flag(a)), None)
            d = calls(o, danger)
            if o.kind == 'div':
                continue
            n += 1
            ok = (bool(d) == (nv is True)) and nv is not None
            if d and danger == 'danger_accept_invalid_certs':
                ok = ok and d[0][1][2][1] == ('lit', True)
            ctx.add('W4.verification-disabled-only-on-request', '%s|no_tls_verify=%s' % (fn.split('::')[-1], nv), loc(Cb.root), ok,
                    'certificate verification is %s although no_tls_verify is %s' % ('disabled' if d else 'kept', nv))
        ctx.floor('W4', fn.split('::')[-1] + ' paths', n, 2)
    check_settings_copy(ctx, f)
    check_settings_getters(ctx, f)
    check_other_constructors(ctx, f)
    ts = 'ldap3::conn::LdapConnAsync::create_tls_stream'
    if ts in f.hir:
        T = hirq.Body(f, f.body(ts))
        ctx.analysed['bodies'].add(ts)
        outs = absx.Interp(f, T, combinators=True).run(root=T.root['body'] if T.root['k'] == 'Closure' else T.root)
        n = 0
        for o in outs:
            # the default connector is built from the caller's own verification setting
            for dc in [e for e in o.st.ev if e[0] == 'call' and (e[1].endswith('create_connector') or e[1].endswith('create_config'))]:
                okf = any(a == ('param', 'settings') or a == ('field', ('param', 'settings'), 'no_tls_verify') or
                          (a[0] == 'field' and a[2] == 'no_tls_verify' and absx.leaves(a, lambda x: x == ('param', 'settings'))) for a in dc[2])
                ctx.add('W4.default-connector-from-own-settings', dc[1].split('::')[-1], loc(dc[3]), okf, 'the default connector is not built from this connection\'s settings')
            con = calls(o, 'TlsConnector::connect')
            if not con:
                continue
            n += 1
            custom = next((t for a, t in o.st.pc if a[0] == 'is' and a[2] == 'Some' and a[1][0] == 'field' and a[1][2] in ('connector', 'config')), None)
            a = con[0][1][2]
            src = a[0]
            uses_given = absx.leaves(src, lambda x: x[0] == 'variant' and x[2] == 'Some' and x[1][0] == 'field' and x[1][2] in ('connector', 'config')) != []
            uses_default = absx.leaves(src, lambda x: x[0] == 'call' and (x[1].endswith('create_connector') or x[1].endswith('create_config'))) != []
            ok = (custom is True and uses_given and not uses_default) or (custom is False and uses_default and not uses_given)
            ctx.add('W4.connector-choice', 'custom=%s' % custom, loc(T.root), ok, 'a caller-supplied connector/config must be used as given, the default one otherwise')
            host = a[1]
            okh = absx.leaves(host, lambda x: x == ('param', 'hostname')) != [] or host == ('param', 'hostname')
            if ts and 'rustls' in ctx.cfg:
                okh = okh
            ctx.add('W4.connect-arguments', 'custom=%s' % custom, loc(T.root), okh and a[-1] == ('param', 'stream'), 'the handshake is not run for (hostname, stream) as given')
        ctx.floor('W4', 'create_tls_stream connect paths', n, 2)


def check_settings_copy(ctx, f):
    """W5 - a copy of the connection settings asks for the same protection as the original: if the settings type can be cloned
    (derived or hand-written), the clone's starttls / no_tls_verify / connector / config are the original's on every path of
    `Clone::clone`.  (Settings are routinely prepared once and cloned per connection; a clone that forgets `starttls` opens a
    cleartext session although StartTLS was requested.)"""
    st = 'ldap3::conn::LdapConnSettings'
    p = '<%s as core::clone::Clone>::clone' % st
    fields = [fl['name'] for v in (f.items.get(st) or {}).get('variants', []) for fl in v['fields']]
    tls_fields = [x for x in ('starttls', 'no_tls_verify', 'connector', 'config') if x in fields]
    ctx.add('W5.settings-fields', st, '', 'starttls' in fields, 'the settings struct has no starttls field: anchor lost')
    if p not in f.hir:
        ctx.ok('W5.settings-copy-keeps-tls-request', 'not Clone', '', 'the settings type cannot be cloned in this configuration')
        return
    B = hirq.Body(f, f.body(p))
    ctx.analysed['bodies'].add(p)
    SELF = ('param', 'self')
    n = 0
    for o in absx.Interp(f, B, combinators=True, inline=lambda c: c.endswith('core::default::Default>::default')).run():
        if o.kind not in ('val', 'ret'):
            continue
        n += 1
        v = o.val
        got = dict(v[2]) if v[0] == 'struct' else {}
        def same(x, name):
            # the field itself, possibly through clone()/copy
            while x and x[0] == 'call' and x[1].rsplit('::', 1)[-1] in ('clone', 'to_owned') and x[2]:
                x = x[2][0]
            return x == ('field', SELF, name)
        wrong = [name for name in tls_fields if not same(got.get(name), name)]
        ctx.add('W5.settings-copy-keeps-tls-request', ','.join(tls_fields), loc(B.root), v[0] == 'struct' and not wrong,
                'a clone of the connection settings does not carry over %s (it becomes %s): a connection opened from the copy is not protected as requested' % (
                    wrong, [absx.fmt(got.get(x, ('unk',)))[:30] for x in wrong]))
    ctx.floor('W5', 'paths of the settings\' Clone::clone', n, 1)


def check_settings_getters(ctx, f):
    """W7: the constructors read what was requested through the settings' getters; a getter that does not return its field turns the
    request off (or on) for every caller.  In every configuration in which the settings struct has the field, each path of the getter
    of the same name returns that field of `self` (the always-false fallback exists only where no TLS backend is compiled in - and
    there the struct has no such field).  This is what ties `set_starttls(true)` to the scheme decision of the TCP constructor in
    both TLS back ends (the cfg attributes on the getter pair are not visible in any one configuration)."""
    st = 'ldap3::conn::LdapConnSettings'
    fields = [fl['name'] for v in (f.items.get(st) or {}).get('variants', []) for fl in v['fields']]
    SELF = ('param', 'self')
    n = 0
    for name in ('starttls', 'no_tls_verify'):
        g = '%s::%s' % (st, name)
        if name not in fields or g not in f.hir:
            continue
        B = hirq.Body(f, f.body(g))
        ctx.analysed['bodies'].add(g)
        for o in absx.Interp(f, B).run():
            if o.kind not in ('val', 'ret'):
                continue
            n += 1
            ctx.add('W7.getter-returns-the-setting', name, loc(B.root), o.val == ('field', SELF, name),
                    'LdapConnSettings::%s() returns %s, not the `%s` field set by its setter: what the caller requested is not what connection set-up sees' % (name, absx.fmt(o.val)[:40], name))
    if 'starttls' in fields:
        ctx.floor('W7', 'paths of the TLS-relevant settings getters', n, 1)


def check_other_constructors(ctx, f):
    """W8: `set_starttls(true)` is a request for a protected session whatever the URL scheme.  Every constructor that can hand back a
    connection without TLS must have read the request and found it false on that path - otherwise it hands back a cleartext handle
    although protection was asked for.  The TCP constructor is decided by W1; this rule covers the remaining ones (the Unix-socket
    constructor)."""
    SETT = ('param', 'settings')
    for p in sorted(q for q in f.hir if q.startswith('ldap3::conn::LdapConnAsync::new_') and q != NT and '{' not in q):
        it = f.items.get(p) or {}
        if not any('LdapConnSettings' in (x or '') for x in it.get('inputs') or []):
            continue
        B = hirq.Body(f, f.body(p))
        ctx.analysed['bodies'].add(p)
        outs = absx.Interp(f, B, unroll=1).run(root=B.root['body'] if B.root['k'] == 'Closure' else B.root)
        oks = [o for o in outs if o.kind in ('val', 'ret') and o.val[0] == 'ctor' and o.val[1] == 'Ok']
        if not oks:
            continue        # e.g. the non-Unix stub, which never returns
        bad = []
        for o in oks:
            asked = None
            for a, t in o.st.pc:
                if (a[0] == 'call' and a[1].endswith('LdapConnSettings::starttls')) or a == ('field', SETT, 'starttls'):
                    asked = t
            tls = any(e[0] == 'call' and e[1].endswith('::create_tls_stream') for e in o.st.ev)
            if not tls and asked is not False:
                bad.append(o)
        ctx.add('W8.no-cleartext-handle-when-starttls-requested', p.rsplit('::', 1)[-1], loc(B.root), not bad,
                '%s returns a connection without TLS on %d of %d paths without having found the StartTLS request absent: with an %s URL, set_starttls(true) is silently ignored and a cleartext handle is handed back' % (
                    p.rsplit('::', 1)[-1], len(bad), len(oks), 'ldapi' if 'unix' in p else 'other'))
