"""C08 - filter strings compile to the RFC 4511 filter they denote."""
import os
from facts import walk, callee_of, call_args, loc
import hirq, anchors, absx, peg, cone, engine, unesc, sem, nomlit
from shapes import *

EXPLANATION = ("P1 the PEG extracted from the nom combinator calls of src/filter.rs (resolved callees; let-chains, alt, delimited, preceded, "
               "many0/1, opt, recognize, verify, map, map_res, fold_many0, tag, take_while(1), digit1, be_u8; a parser written by hand is read off its "
               "enumerated paths: the remainder it returns is a chain of parser applications / longest-prefix splits) equals the reference PEG of "
               "RFC 4515 plus the documented extensions (bare item; empty (&) and (|)), at language level when the function boundaries differ - an "
               "acceptance test that only reads values fixed earlier in the rule (the operator matched) is decided, not kept opaque; parse() accepts only "
               "with an empty remainder; every nom primitive is the `complete` variant; P2 byte classes evaluated exhaustively over all 256 bytes (value "
               "characters = all but NUL ( ) *; alnum-hyphen; alphabetic first character) and the leading-zero rule of `number` over its partition; P3 the "
               "semantic actions build RFC 4511 Filter shapes: and [0], or [1], not [2] explicit (abstractly evaluated on every path); the attribute-value "
               "items - found by the role of each parse step, not by function name - by exhaustive literal evaluation of the item parser over operator x "
               "value empty/not x every admissible `*` list of 0..4 components: equalityMatch [3], substrings [4] {initial [0], any [1], final [2]}, >= [5], "
               "<= [6], present [7] primitive, ~= [8]; WHICH piece becomes initial / any / final decided as a function of the pieces' positions alone (P3.substring-placement): the same "
               "evaluation on every pattern of equal / different contents of up to four pieces after the first asterisk (an `any` equal to the final piece, all equal, ...), with contents "
               "of one length and of different lengths, with and without a trailing asterisk, the initial value absent / different / equal to the last piece - a comparison of two "
               "pieces' contents is evaluated on the octets, a comparison of two references' addresses (ptr::eq) on the positions they point to; extensibleMatch [9] {matchingRule [1], type [2], matchValue [3], dnAttributes [4]} with the parser "
               "output feeding each slot; P4 the equality / presence / substring discrimination (same evaluation), no `*` list after an ordering / approx "
               "operator, and the adjacent-asterisk test evaluated on all 121 lists of 0..4 components over {empty, x, *}; P5 the "
               "unescaper's transition table over {backslash, hex digit, other} x {WantFirst, WantSecond, Value, Error} and acceptance only "
               "in Value, the unescaper evaluated exhaustively on literals over all 5120 (state, byte) pairs (hex arithmetic included); WHAT unescaped() computes, whatever it is built from (a fold over the state machine, a loop, a split at backslashes + from_str_radix ...), decided as a function by exact literal evaluation of its typed HIR (nom combinators, filter.rs functions and std functions by their definitions on literals) over a finite partition of about 3100 inputs: every class of octet after a backslash (hex digit 0-9 / a-f / A-F, + - blank, the ASCII neighbours of the digit ranges, other ASCII, >= 0x80, backslash, the value terminators, end of input) with every class, every octet 0..255 in either position, with and without literal octets around, a remainder, runs of two escapes, values of the lengths around every integer constant of the code - accepted with the octet 16*hi+lo exactly when both are hex digits, rejected otherwise, every other octet unchanged, the remainder left, never a panic; where the value is computed by feeding Unescaper::feed, additionally by induction over the length: the value fold (fold_many0 closures or a loop over the consumed prefix: base case, generic step, acceptance); P6 no panic source reachable from parse / parse_matched_values that is not reviewed infeasible or discharged by a guard re-read on every run; "
               "P8 what the leaf parsers RETURN (value reading of the nom combinators next to the grammar reading: recognize = the consumed bytes, terminated / preceded / "
               "delimited = one part's output, pair / tuple, opt, many0, map, verify, peek ...): the attribute description slot of every item holds exactly the bytes the "
               "attribute-description step consumed (type and all options), the operator dispatched on is the literal consumed, the matchingRule slot holds what the step "
               "consumed after the colon, every `*` component is the output of unescaped() on its part, the unescaper is folded over the consumed bytes themselves and unescaped() returns that fold's "
               "result as it is; the actions of and / or / not / mv_filterlist receive the outputs of their sub-rule (every repetition, in input order) and the rules in "
               "between hand one part's tree upwards unchanged. Not decided: "
               "'printing the BER reproduces the input' taken whole.")
TRUSTED = ['nom combinator semantics', 'RFC 4515 grammar transcribed below', 'rules/triage/C08.tsv']
UNDECIDED = ['round trip through a canonical printer taken whole', 'the initial / any / final placement is decided on `*` lists of up to four non-empty pieces (+ a trailing asterisk): a placement that changes from the fifth piece on is not seen', 'a value computation that is not a per-octet fold over Unescaper::feed is decided on literal values up to 121 octets (around every integer constant of its code), not for every length']
ASSUMPTIONS = []
SHARED = [('C07', ('B1.', 'B2m.', 'B4.encoder', 'B5.'), 'P7.ber-writer')]
TRIAGE = os.path.join(engine.VERIF, 'rules', 'triage', 'C08.tsv')
FP = 'ldap3::filter::'

def R(name): return ('ref', name)
def L(s): return ('lit', s.encode() if isinstance(s, str) else s)
def S(*xs): return peg.flat(('seq', list(xs)))
def A(*xs): return ('alt', list(xs))
def K(g, what='x'): return ('check', g, what)
VALUECHAR, ALNUMH, ALPHA, DIGIT = 'valuechar', 'alnumhyphen', 'alpha', 'digit'
REFERENCE = {
    'filtexpr': A(R('filter'), R('item')),                                   # extension: item without outer parentheses
    'filter': S(L('('), R('filtercomp'), L(')')),
    'filtercomp': A(R('and'), R('or'), R('not'), R('item')),
    'filterlist': ('star', R('filter')),                                      # extension: empty (&) and (|)
    'and': S(L('&'), R('filterlist')),
    'or': S(L('|'), R('filterlist')),
    'not': S(L('!'), R('filter')),
    'item': A(R('eq'), R('non_eq'), R('extensible')),
    'eq': S(R('attributedescription'), L('='), R('unescaped'), K(('star', S(L('*'), R('unescaped'))))),
    'non_eq': S(R('attributedescription'), A(L('>='), L('<='), L('~=')), R('unescaped')),
    'extensible': A(R('attr_dn_mrule'), R('dn_mrule')),
    'attr_dn_mrule': S(R('attributedescription'), ('opt', L(':dn')), ('opt', S(L(':'), R('attributetype'))), L(':='), R('unescaped')),
    'dn_mrule': S(('opt', L(':dn')), L(':'), R('attributetype'), L(':='), R('unescaped')),
    'unescaped': K(('star', ('class', VALUECHAR))),
    'attributedescription': S(R('attributetype'), ('star', S(L(';'), ('plus', ('class', ALNUMH))))),
    'attributetype': A(R('numericoid'), R('descr')),
    'numericoid': S(R('number'), ('star', S(L('.'), R('number')))),
    'number': K(('plus', ('class', DIGIT))),
    'descr': S(('class', ALPHA), ('star', ('class', ALNUMH))),
    'mv_filtexpr': S(L('('), R('mv_filterlist'), L(')')),                    # RFC 3876 ValuesReturnFilter: "(" 1*item ")"
    'mv_filterlist': R('mv_filteritems'),
    'mv_filteritems': ('plus', S(L('('), R('item'), L(')'))),
}
CLASS_SETS = {
    VALUECHAR: set(range(256)) - {0, ord('('), ord(')'), ord('*')},
    ALNUMH: set(b'0123456789abcdefghijklmnopqrstuvwxyzABCDEFGHIJKLMNOPQRSTUVWXYZ-'),
    ALPHA: set(b'abcdefghijklmnopqrstuvwxyzABCDEFGHIJKLMNOPQRSTUVWXYZ'),
}

def char_summary(I, cal, args, node, st):
    tables = {'nom::character::is_alphanumeric': lambda c: chr(c).isalnum() and c < 128, 'nom::character::is_alphabetic': lambda c: chr(c).isalpha() and c < 128,
              'nom::character::is_hex_digit': lambda c: chr(c) in '0123456789abcdefABCDEF', 'nom::character::is_digit': lambda c: chr(c) in '0123456789'}
    if cal in tables and args and args[0][0] == 'lit':
        return [absx.Out('val', ('lit', bool(tables[cal](args[0][1]))), st)]
    return None

def eval_class(f, desc):
    """Exhaustive evaluation of a byte predicate over 0..255."""
    kind, x = desc
    res = set()
    for c in range(256):
        if kind == 'fn':
            B = hirq.Body(f, f.hir[x])
            I = absx.Interp(f, B, summaries=[char_summary], inline=lambda cal: cal.startswith(FP))
            env = {}
            outs = []
            st = absx.St(env)
            for kind2, s2 in I.match(f.hir[x]['params'][0], ('lit', c), st):
                outs += I.ev(B.root, s2)
        else:
            owner = x['def'].rsplit('::{closure', 1)[0]
            while owner not in f.hir:
                owner = owner.rsplit('::{closure', 1)[0]
            B = hirq.Body(f, f.hir[owner])
            I = absx.Interp(f, B, summaries=[char_summary], inline=lambda cal: cal.startswith(FP))
            outs = I.apply_closure(('closure', x['def']), [('lit', c)], absx.St({}), x)
        vals = {o.val for o in outs if o.kind in ('val', 'ret')}
        if vals == {('lit', True)}:
            res.add(c)
        elif vals != {('lit', False)}:
            return None
    return res

def out_of(name):
    """predicate: the value (.1) produced by an application of parser `name` (a filter.rs function)"""
    def f(t, env):
        t = strip(t)
        return t[0] == 'field' and t[2] == '1' and t[1][0] == 'variant' and t[1][2] == 'Ok' and t[1][1][0] == 'call' and t[1][1][1] == FP + name
    return f
def out_of_comb(*needles):
    """predicate: the value produced by an indirect application of a combinator expression mentioning all `needles`"""
    def f(t, env):
        t = strip(t)
        if t[0] == 'variant' and t[2] == 'Some':
            t = t[1]
        if not (t[0] == 'field' and t[2] == '1' and t[1][0] == 'variant' and t[1][2] == 'Ok' and t[1][1][0] == 'call' and t[1][1][1] == '<indirect>'):
            return False
        s = str(t[1][1][2][0])
        return all(n in s for n in needles)
    return f

def out_of_step(B, app):
    """predicate: the value (.1, possibly the Some payload of it) produced by the parser application `app` (a node of body B)"""
    def f(t, env):
        t = strip(t)
        if t[0] == 'variant' and t[2] == 'Some':
            t = t[1]
        if not (t[0] == 'field' and t[2] == '1' and t[1][0] == 'variant' and t[1][2] == 'Ok' and t[1][1][0] == 'call' and len(t[1][1]) > 3):
            return False
        return B.by_id.get(t[1][1][3]) is app
    return f

def run(ctx):
    f = ctx.facts
    # ------------------------------------------------------------------ P1 grammar
    X = peg.Extractor(f, FP)
    rules = {}
    missing = []
    for name in REFERENCE:
        p = FP + name
        if p not in f.hir:
            missing.append(name); continue
        ctx.analysed['bodies'].add(p)
        rules[p] = X.fn_grammar(p)
    # parser functions that are not in the reference by name (a rule split off or merged by a refactor)
    for p, h in f.hir.items():
        if p.startswith(FP) and p not in rules and '::' not in p[len(FP):] and h.get('kind') == 'Fn':
            it = f.items.get(p) or {}
            if 'nom::' in str(it.get('output') or '') or 'IResult' in str(it.get('output') or ''):
                rules[p] = X.fn_grammar(p)
                ctx.analysed['bodies'].add(p)
    # classes first (P2), because grammar comparison maps predicate -> class name
    classmap = {}
    for cname, desc in X.classes.items():
        got = eval_class(f, desc)
        match = [n for n, s in CLASS_SETS.items() if got == s]
        classmap[cname] = match[0] if match else None
        ctx.add('P2.byte-class', cname.split('::')[-1] if '{closure' not in cname else cname.split('::')[-3] + '::closure', '', bool(match),
                'byte predicate accepts %s; it equals none of the reference classes (value characters = all but NUL ( ) *; [0-9A-Za-z-]; [A-Za-z])' % (
                    ('%d bytes: %s...' % (len(got), sorted(got)[:12])) if got is not None else 'an undetermined set'))
    classmap['digit'] = DIGIT
    ctx.floor('P2', 'byte classes', len(X.classes), 3)
    structural = {}
    for p, g in rules.items():
        name = p.split('::')[-1]
        if name in REFERENCE:
            structural[name] = peg.equal(g, REFERENCE[name], rules, REFERENCE, classmap) + (p, g)
    if not missing and all(v[0] for v in structural.values()) and len(structural) == len(rules):
        for name, (ok, why, p, g) in structural.items():
            ctx.add('P1.rule', name, loc(f.hir[p]['body']), ok, 'extracted `%s = %s`, reference `%s`' % (name, peg.show(g), peg.show(REFERENCE[name])))
    else:
        # the function boundaries differ from the reference's rule boundaries: compare the languages (see peg.language)
        ref_rec = peg.recursive_rules(REFERENCE)
        ext_rec = peg.recursive_rules(rules, lambda n: n.split('::')[-1])
        look_ref = lambda n: REFERENCE.get(n)
        look_ext = lambda n: rules.get(FP + n)
        # ordered choice: where the reference rule exists as a function and only the *order* of overlapping alternatives differs,
        # the set of sequences is the same but a PEG tries them in order - that is a different parser
        for name, (ok, why, p, g) in structural.items():
            if not ok and 'ordered choice differs' in why:
                ctx.fail('P1.rule', name, loc(f.hir[p]['body']), 'extracted `%s = %s`, reference `%s`: %s' % (name, peg.show(g), peg.show(REFERENCE[name]), why))
        for name in sorted({'filtexpr', 'mv_filtexpr'} | ref_rec | ext_rec):
            p = FP + name
            where = loc(f.hir[p]['body']) if p in f.hir else ''
            if name not in REFERENCE or p not in rules:
                ctx.fail('P1.rule', name, where, 'the recursive structure of the grammar differs: rule `%s` is %s' % (name, 'not in the RFC 4515 reference' if name not in REFERENCE else 'missing from filter.rs'))
                continue
            try:
                lr = peg.language(f, REFERENCE[name], look_ref, ref_rec, None)
                le = peg.language(f, rules[p], look_ext, ext_rec, classmap)
            except peg.NoNormalForm as e:
                ctx.fail('P1.rule', name, where, 'no normal form for `%s` (%s); structural comparison: %s' % (name, e, structural.get(name, (None, 'n/a'))[1])); continue
            extra, lack = le - lr, lr - le
            ctx.add('P1.rule', name, where, not extra and not lack,
                    'the language of `%s` differs from RFC 4515: accepted but not in the reference: %s; in the reference but rejected: %s' % (
                        name, sorted(peg.show_seq(t) for t in extra)[:4], sorted(peg.show_seq(t) for t in lack)[:4]))
    ctx.floor('P1', 'grammar rules', len(rules), 20)
    # P1c commitments: the parser is a PEG (opt / alt / many0 never give back what they took); no string of the grammar may be lost to
    # that (pegcommit.py).  Decided for the maximal non-recursive rules (item level); their followers are delimiters.
    import pegcommit
    ext_rec = peg.recursive_rules(rules, lambda n: n.split('::')[-1])
    look_ext = lambda n: rules.get(FP + n)
    graph = peg.rule_graph(rules, lambda n: n.split('::')[-1])
    nonrec = [n for n in graph if n not in ext_rec]
    inner = {m for n in nonrec for m in graph[n]}
    def touches_rec(n, seen=()):
        return any(m in ext_rec or (m not in seen and touches_rec(m, seen + (n,))) for m in graph.get(n, ()))
    tops = sorted(n for n in nonrec if n not in inner and not touches_rec(n))
    n_samples = 0
    for name in tops:
        hz, ns, npts = pegcommit.hazards(rules[FP + name], look_ext, ext_rec, CLASS_SETS, classmap)
        n_samples += ns
        ctx.add('P1.commitments-lose-nothing', name, loc(f.hir[FP + name]['body']), not hz,
                'a string of the grammar is rejected because the parser commits to an optional part / first alternative / greedy repetition: %s' % (
                    ['%r: %s' % (w, why) for w, j, why in hz][:3]))
    ctx.floor('P1.commitments', 'sample strings generated from the commit points of the item-level rules %s' % tops, n_samples, 1000)
    # every local grammar function referenced is covered
    refs = set()
    def collect(g):
        if g[0] == 'ref':
            refs.add(g[1])
        for x in g[1:] if g[0] in ('seq', 'alt') else ():
            for y in x:
                collect(y)
        if g[0] in ('star', 'plus', 'opt', 'check'):
            collect(g[1])
    for g in rules.values():
        collect(g)
    ctx.add('P1.closed', 'references', '', refs <= set(rules), 'grammar refers to functions outside the reference: %s' % sorted(refs - set(rules)))
    bad = [p for p in X.prims_used if p.startswith('nom::') and '::streaming::' in p]
    ctx.add('P1.complete-parsers', 'nom primitives', '', not bad, 'streaming nom primitives in the filter parser (a truncated filter would be `Incomplete`, not an error): %s' % bad)
    for entry, top in (('parse', 'filtexpr'), ('parse_matched_values', 'mv_filtexpr')):
        B = hirq.Body(f, f.body(FP + entry))
        ctx.analysed['bodies'].add(B.path)
        okp = False
        for o in absx.Interp(f, B).run():
            if o.kind in ('val', 'ret') and o.val[0] == 'ctor' and o.val[1] == 'Ok':
                v = o.val[2][0]
                src_ok = v[0] == 'field' and v[2] == '1' and v[1][0] == 'variant' and v[1][1][0] == 'call' and v[1][1][1] == FP + top
                empty = any(t and a[0] == 'call' and a[1].endswith('::is_empty') and a[2][0] == ('field', v[1], '0') for a, t in o.st.pc)
                okp = src_ok and empty
                ctx.add('P1.entry', entry, loc(B.root), okp, '%s() must return the tree of `%s` only when the remainder is empty' % (entry, top))
                if src_ok:
                    # ... and of the caller's string itself: every octet of it belongs to the filter (in the bare-item form the
                    # value runs to the end of the input), so nothing may be cut off, trimmed or replaced before parsing
                    arg = v[1][1][2][0] if v[1][1][2] else ('unk',)
                    while arg[0] == 'call' and len(arg[2]) == 1 and arg[1].rsplit('::', 1)[-1] in ('as_ref', 'as_bytes', 'as_slice', 'borrow', 'deref', 'as_str', 'into', 'from'):
                        arg = arg[2][0]
                    ctx.add('P1.entry.whole-input', entry, loc(B.root), arg[0] == 'param',
                            '%s() parses %s, not the caller\'s input as given: octets that belong to the filter (e.g. the end of a bare item\'s value) are dropped or altered before parsing' % (entry, absx.fmt(arg)[:80]))
        if not okp:
            ctx.add('P1.entry.reachable', entry, loc(B.root), okp, 'no accepting path found')

    # number: leading-zero rule over its partition
    chk = [c for c in X.checks if c[0] == FP + 'number']
    if len(chk) == 1 and chk[0][2]['k'] == 'Closure':
        B = hirq.Body(f, f.hir[FP + 'number'])
        I = absx.Interp(f, B)
        table = {b'0': True, b'7': True, b'00': False, b'01': False, b'10': True, b'123': True, b'0123': False, b'9': True, b'90': True}
        wrong = []
        for inp, exp in table.items():
            vals = {o.val for o in I.apply_closure(('closure', chk[0][2]['def']), [('lit', inp)], absx.St({}), chk[0][2]) if o.kind in ('val', 'ret')}
            if vals != {('lit', exp)}:
                wrong.append((inp, sorted(map(str, vals)), exp))
        ctx.add('P2.number-no-leading-zero', 'number', loc(B.root), not wrong, 'a number may be 0 but must not have superfluous leading zeroes: %s' % wrong)
    else:
        ctx.fail('P2.number-no-leading-zero', 'number', '', 'number() is not verify(digit1, <closure>)')

    # ------------------------------------------------------------------ P3 shapes of the semantic actions
    inl = lambda c: c.endswith('core::default::Default>::default') or c in (FP + 'filtertag', FP + 'extensible_tag')
    def map_closure(name):
        B = hirq.Body(f, f.hir[FP + name])
        cl = [n for n, c in walk(B.root) if n['k'] == 'Closure']
        return B, cl[-1] if cl else None
    for name, ref, pname in (('and', C('C', 0, ('LIST', param('tagv'))), 'tagv'), ('or', C('C', 1, ('LIST', param('tagv'))), 'tagv'),
                             ('not', C('C', 2, ANY(param('tag'))), 'tag'), ('mv_filterlist', SEQ(('LIST', param('tagv'))), 'tagv')):
        B, cl = map_closure(name)
        if cl is None:
            ctx.fail('P3.shape', name, '', 'no semantic action found'); continue
        I = absx.Interp(f, B, inline=inl)
        outs = [o for o in I.apply_closure(('closure', cl['def']), [('param', pname)], absx.St({}), cl) if o.kind in ('val', 'ret')]
        for o in outs:
            mism = compare(to_shape(o.val), ref, o.st.pc, {'elems': [], 'pc': o.st.pc})
            ctx.add('P3.shape', name, loc(cl), not mism, '; '.join(mism)[:300] or 'matches RFC 4511')
        ctx.add('P3.shape.paths', name, loc(B.root), len(outs) == 1, 'expected one path through the action')
    # the attribute-value items: equality / presence / substrings / ordering / approximate match.  Found by role (whichever
    # functions the grammar's item level is drawn into) and decided by exhaustive literal evaluation, see check_simple_items
    check_simple_items(ctx, f, X, rules, classmap, inl)
    # extensible
    for name, has_attr in (('attr_dn_mrule', True), ('dn_mrule', False)):
        if FP + name not in f.hir:
            # (still anchored by name: the grammar comparison P1 says what became of the rule; here the clause is reported as undecided)
            ctx.fail('P3.shape', name, '', 'the extensible-match parser `%s` does not exist as a function: its semantic action (extensibleMatch [9] slots) could not be located and is not decided' % name)
            continue
        B = hirq.Body(f, f.hir[FP + name])
        n = 0
        for o in absx.Interp(f, B, inline=inl).run():
            if not (o.kind in ('val', 'ret') and o.val[0] == 'ctor' and o.val[1] == 'Ok'):
                continue
            n += 1
            tag = o.val[2][0][1][1]
            # the matching-rule / dn-flag steps by role (what the step parses, ext_roles) and the identity of the application; only
            # when the chain cannot be read that way, by the literals the combinator expression mentions
            xr = ext_roles(X.chains.get(FP + name) or [])
            mr = out_of_step(B, xr['mrule']['app']) if xr else out_of_comb("b':'", 'attributetype')
            dn = out_of_step(B, xr['dn']['app']) if (xr and 'dn' in xr) else out_of_comb("b':dn'")
            def is_some_pc(pred):
                def g(pc):
                    for a, t in pc:
                        if a[0] == 'is' and a[2] in ('Some', 'None') and pred(a[1], {}):
                            return t if a[2] == 'Some' else not t
                    return None
                return g
            dn_flag = lambda t, env: (t[0] == 'is' and t[2] == 'Some' and dn(t[1], env)) or t == ('lit', True)
            its = []
            if has_attr:
                its.append(OPT(is_some_pc(mr), P('OCT', 'C', 1, mr), 'matchingRule'))
                its.append(P('OCT', 'C', 2, out_of('attributedescription')))
            else:
                its.append(P('OCT', 'C', 1, mr))
            its.append(P('OCT', 'C', 3, out_of('unescaped')))
            its.append(OPT(is_some_pc(dn), P('BOOL', 'C', 4, dn_flag), 'dnAttributes'))
            ref = C('C', 9, *its)
            mism = compare(to_shape(tag), ref, o.st.pc, {'elems': [], 'pc': o.st.pc})
            ctx.add('P3.shape', '%s|%d' % (name, n), loc(B.root), not mism, '; '.join(mism)[:300] or 'matches RFC 4511')
        ctx.floor('P3', name + ' paths', n, 2 if not has_attr else 4)

    # ------------------------------------------------------------------ P8 what the leaf parsers RETURN vs what they CONSUME
    check_outputs(ctx, f, X, rules, classmap)

    # ------------------------------------------------------------------ P5 unescaper
    check_unescaper(ctx, f, X)
    check_value_function(ctx, f)

    # ------------------------------------------------------------------ P6 no panic
    G = cone.Graph(f, engine.REPO)
    parent = G.cone([FP + 'parse', FP + 'parse_matched_values'])
    srcs, ext = G.sources(parent)
    triage = cone.load_triage(TRIAGE)
    ctx.analysed['notes'].append({'external_callees': {k: list(v) for k, v in sorted(ext.items())}})
    # arithmetic inside the unescaper is decided by P5: every (state, byte) pair was evaluated exactly on literals with range
    # checks (an overflow on any pair shows up there as a wrong transition), so its overflow asserts cannot fire
    if ctx.unescaper_exact:
        for sx in srcs:
            if sx.kind == 'assert' and sx.key_fn == unesc.FEED and not sx.discharged:
                sx.discharged = 'decided by P5: all %d (state, byte) pairs of the unescaper were evaluated exactly with range checks' % ctx.unescaper_exact
    ctx._cone = (G, parent, None, srcs)
    import controls
    controls.panic_cone(ctx)
    cone.judge(ctx, 'P6.panic-source', cone.group_keys(srcs), triage,
               lambda s: 'panic source reachable from filter parsing (%s) via %s' % (s.kind, ' -> '.join(x.split('::')[-1] for x in G.chain(parent, s.fn))))
    ctx.floor('P6', 'bodies in the filter-parser cone', len(parent), 20)


OPS = {b'=': None, b'>=': 5, b'<=': 6, b'~=': 8}      # RFC 4511: greaterOrEqual [5], lessOrEqual [6], approxMatch [8]; '=' is equality [3] / substrings [4] / present [7]

def mentions(g, what):
    if g == what:
        return True
    if g[0] in ('seq', 'alt'):
        return any(mentions(x, what) for x in g[1])
    if g[0] in ('star', 'plus', 'opt', 'check', 'peek'):
        return mentions(g[1], what)
    if g[0] == 'bound':
        return mentions(g[2], what)
    return False

def item_roles(chain):
    """The parse results an attribute-value item is built from, found by *what each step of the function's let-chain parses* (not
    by the names of functions or locals): the attribute description, the operator (a literal or an alternative of literals out
    of = >= <= ~=), the value up to the first asterisk, and - optionally - the list of `*`-separated further components.
    None if the chain is not of that kind (some other parser function)."""
    roles = {}
    def put(k, e):
        if k in roles:
            raise KeyError(k)
        roles[k] = e
    try:
        for e in chain:
            g = e['g']
            lits = [g] if g[0] == 'lit' else g[1] if (g[0] == 'alt' and all(x[0] == 'lit' for x in g[1])) else None
            if g == ('ref', FP + 'attributedescription'):
                put('attr', e)
            elif lits is not None and all(bytes(x[1]) in OPS for x in lits):
                put('op', dict(e, ops=[bytes(x[1]) for x in lits]))
            elif g == ('ref', FP + 'unescaped'):
                put('initial', e)
            elif (g[0] == 'star' or (g[0] == 'check' and g[1][0] == 'star')) and mentions(g, ('lit', b'*')) and mentions(g, ('ref', FP + 'unescaped')):
                put('list', e)
            else:
                return None
    except KeyError:
        return None
    return roles if all(k in roles for k in ('attr', 'op', 'initial')) else None

def ext_roles(chain):
    """The parse results an extensible-match item is built from, found by what each step of the let-chain parses (as item_roles):
    the attribute description (optional), the `:dn` flag, the matching rule (the step that parses an attribute type after a
    colon), the `:=` separator and the value.  None if the chain is not of that kind."""
    roles = {}
    for e in chain:
        g = e['g']
        if g in (('ref', FP + 'attributedescription'), ('opt', ('ref', FP + 'attributedescription'))):
            k = 'attr'
        elif g == ('ref', FP + 'unescaped'):
            k = 'value'
        elif g == ('lit', b':='):
            k = 'sep'
        elif mentions(g, ('lit', b':dn')):
            k = 'dn'
        elif mentions(g, ('lit', b':')) and mentions(g, ('ref', FP + 'attributetype')):
            k = 'mrule'
        else:
            return None
        if k in roles:
            return None
        roles[k] = e
    return roles if all(k in roles for k in ('mrule', 'sep', 'value')) else None

def check_outputs(ctx, f, X, rules, classmap):
    """P8: the octets an item places into a *text* slot of the RFC 4511 Filter are exactly the bytes the corresponding rule of the
    grammar CONSUMED - not less (an attribute description without its options), not more (a delimiter dragged along).

    P1 decides which strings the parser functions consume and P3 which parser application feeds which slot; both are blind to what
    a parser function *returns*.  A nom parser returns a pair (remainder, output) and the two are independent: `terminated(a, b)`
    consumes a b and returns a's output, `recognize(p)` returns the consumed bytes whatever p returns.  peg.Extractor.value reads
    the output of every parser expression as a function of the bytes it consumes (one line per combinator), and peg.text_part
    decides whether that output is a slice of the input and which part of the grammar it spans.  Slots decided this way, for every
    item parser (found by role, as in P3):
      * the attribute description (AttributeDescription of equalityMatch / substrings / >= / <= / ~= / present, `type` [2] of
        extensibleMatch): the output of the attribute-description step = all the bytes it consumed (attribute type AND options);
        this goes through attributedescription() -> attributetype() -> numericoid() / descr(), each decided the same way;
      * the operator the item parser dispatches on (P3 evaluates the parser once per operator literal, taking the step's output to
        be the literal matched): the output of the operator step = the bytes it consumed;
      * `matchingRule` [1] of extensibleMatch: the output of the matching-rule step (through `opt`) = the bytes of a part of the step
        such that the step consumes a colon, that part and nothing else (the colon is consumed and dropped; that the part is an
        `attributetype` is P1's verdict on the step);
      * the value slots (assertionValue, initial / any / final, matchValue) are not text slots: they hold the output of unescaped(),
        i.e. the unescaper folded over *exactly the consumed bytes* - decided by P5.fold-over-consumed-bytes, which for the
        fold_many0 form now requires the element parser's output to be the byte it consumed; here only: every component of the `*`
        list is the output of unescaped() applied to its part (through `preceded`, `many0` and the acceptance test P4 evaluates).
    A parser function written by hand has no value reading: the slot it feeds is reported (fails closed)."""
    ext_rec = peg.recursive_rules(rules, lambda n: n.split('::')[-1])
    look_ext = lambda n: rules.get(FP + n)
    def only_empty(g):
        try:
            return peg.language(f, g, look_ext, ext_rec, classmap) == {()}
        except peg.NoNormalForm:
            return False
    def fn_value(p):
        return X.fn_value(p), rules.get(p) or ('unknown', 'no grammar for ' + p)
    def all_but_the_colon(part, g):
        """the step g consumes a colon followed by `part` and nothing else (that the part is an `attributetype` is then P1's
        verdict on the step): L(g) = { ":" + t | t in L(part) }"""
        try:
            return peg.language(f, g, look_ext, ext_rec, classmap) == {(('b', ord(':')),) + t for t in peg.language(f, part, look_ext, ext_rec, classmap)}
        except peg.NoNormalForm:
            return False
    def whole_text(p, e, slot, what):
        v, g = X.step_value(p, e), e['g']
        if v[0] == 'opt' and g[0] == 'opt':
            v, g = v[2], g[1]           # an optional part: the slot (filled when the part is present) receives the payload
        part, whole, why = peg.text_part(v, g, fn_value, only_empty)
        name = p.split('::')[-1]
        ctx.add('P8.slot-is-the-consumed-text', '%s|%s' % (name, slot), loc(e['app']), whole,
                'in %s() %s receives the output of `%s`, which is not the bytes that step consumed: %s' % (name, what, peg.show(e['g']), why or peg.show_value(v)))
    def from_unescaped(v):
        if v == ('fn', FP + 'unescaped'):
            return True
        return v[0] == 'sub' and from_unescaped(v[3])
    kinds = set()
    for p, ch in sorted(X.chains.items()):
        name = p.split('::')[-1]
        roles = item_roles(ch)
        if roles is not None:
            whole_text(p, roles['attr'], 'attribute description', 'the attribute description slot'); kinds.add('attr')
            if roles['op']['bind'] is not None:
                whole_text(p, roles['op'], 'operator', 'the operator the filter choice is decided on'); kinds.add('op')
            if 'list' in roles:
                e = roles['list']
                v = X.step_value(p, e)
                test = e['g'][3] if (e['g'][0] == 'check' and len(e['g']) > 3) else None
                if v[0] == 'mapres' and v[1] is test:
                    v = v[3]            # map_res whose closure hands an accepted list on unchanged: P4.adjacent-asterisks.rejects
                ok = v[0] == 'list' and from_unescaped(v[2])
                ctx.add('P8.slot-is-the-parser-output', '%s|substring components' % name, loc(e['app']), ok,
                        'in %s() the components after an asterisk are not the outputs of unescaped() applied to each component, in input order: the step yields %s' % (name, peg.show_value(v)))
                kinds.add('list')
            continue
        roles = ext_roles(ch)
        if roles is None:
            continue
        if 'attr' in roles:
            whole_text(p, roles['attr'], 'attribute description', 'the `type` [2] slot of extensibleMatch'); kinds.add('attr')
        e = roles['mrule']
        v = X.step_value(p, e)
        g = e['g']
        if v[0] == 'opt':
            v, g = v[2], v[1]
        part, whole, why = peg.text_part(v, g, fn_value, only_empty)
        ok = part is not None and all_but_the_colon(part, g)
        ctx.add('P8.slot-is-the-consumed-text', '%s|matching rule' % name, loc(e['app']), ok,
                'in %s() the `matchingRule` [1] slot of extensibleMatch receives the output of `%s`, which is not the bytes of the matching rule name (all that the step consumes after the colon): %s' % (
                    name, peg.show(e['g']), ('it is the bytes of `%s`' % peg.show(part)) if part is not None else (why or peg.show_value(v))))
        kinds.add('mrule')
    # ---- the tree-valued rules: what reaches a semantic action, and what the pass-through rules hand upwards
    # P3 applies the action of and / or / not / mv_filterlist to a symbolic argument and takes the item parsers' own results for the
    # leaves; here: that argument is the output of the sub-rule (for a list: of every repetition, in input order), and the rules in
    # between (filter, filtercomp, filterlist, item, extensible, the entry rules) return one part's output as it is.
    def resolve(v, depth=0):
        """a value reduced to outputs of the functions that compute something: ('out', fn) | ('list', r) | ('oneof', {r..}) | ('opaque', text)"""
        if depth > 40:
            return ('opaque', 'nested too deeply')
        if v[0] == 'fn':
            fv = X.fn_value(v[1])
            return resolve(fv, depth + 1) if fv[0] in ('fn', 'sub', 'alt', 'list') else ('out', v[1])
        if v[0] == 'sub':
            return resolve(v[3], depth + 1)
        if v[0] == 'alt':
            rs = frozenset(resolve(x, depth + 1) for x in v[2])
            return next(iter(rs)) if len(rs) == 1 else ('oneof', rs)
        if v[0] == 'list':
            return ('list', resolve(v[2], depth + 1))
        return ('opaque', peg.show_value(v))
    def show_r(r):
        if r[0] == 'out': return 'output of %s()' % r[1].split('::')[-1]
        if r[0] == 'list': return 'Vec of (%s)' % show_r(r[1])
        if r[0] == 'oneof': return ' / '.join(sorted(show_r(x) for x in r[1]))
        return r[1]
    def leaves(r):
        if r[0] == 'oneof':
            return [y for x in r[1] for y in leaves(x)]
        return [r]
    n_actions = 0
    for name, sub, many in (('and', 'filter', True), ('or', 'filter', True), ('not', 'filter', False), ('mv_filterlist', 'item', True)):
        if FP + name not in f.hir or FP + sub not in f.hir:
            continue                    # P3.shape reports the missing action
        v = X.fn_value(FP + name)
        B = hirq.Body(f, f.hir[FP + name])
        cl = [n for n, c in walk(B.root) if n['k'] == 'Closure']
        want = resolve(('fn', FP + sub))
        want = ('list', want) if many else want
        got = resolve(v[3]) if v[0] == 'map' else None
        n_actions += 1
        ctx.add('P8.action-argument', name, loc(B.root), v[0] == 'map' and bool(cl) and v[1] is cl[-1] and got == want,
                'the semantic action of %s() (the one P3 evaluates) must be applied to %s; %s() is %s%s' % (
                    name, show_r(want), name, peg.show_value(v)[:160], (', the action receives ' + show_r(got)) if got is not None else ''))
    decided = {FP + n for n in ('and', 'or', 'not', 'mv_filterlist')} | {p for p, ch in X.chains.items() if item_roles(ch) is not None or ext_roles(ch) is not None}
    for entry in ('filtexpr', 'mv_filtexpr'):
        if FP + entry not in f.hir:
            continue
        r = resolve(('fn', FP + entry))
        bad = [x for x in leaves(r) if not (x[0] == 'out' and x[1] in decided)]
        ctx.add('P8.tree-passes-through', entry, loc(f.hir[FP + entry]['body']), not bad,
                'the tree %s() returns must be the result of one of the semantic actions P3 decides, handed upwards unchanged by the rules in between; it can also be: %s' % (
                    entry, sorted(show_r(x) for x in bad)[:4]))
    ctx.floor('P8.actions', 'semantic actions whose argument was decided', n_actions, 4)
    ctx.floor('P8', 'kinds of text slots whose feeding parser output was decided (attribute description, operator, substring components, matching rule)', len(kinds), 4)

ATTR = ('param', 'attr')

def expected_item(op, initial, lst):
    """(kind, reference shape) of the RFC 4511 Filter that the item  attr op initial *lst[0] *lst[1] ...  denotes"""
    is_attr = lambda t, env: strip(t) == ATTR
    if op != b'=':
        return 'ordering' if op != b'~=' else 'approx', C('C', OPS[op], OCT(is_attr), OCT(lit(initial)))
    if not lst:
        return 'equality', C('C', 3, OCT(is_attr), OCT(lit(initial)))
    if not initial and lst == (b'',):
        return 'present', P('OCT', 'C', 7, is_attr)
    subs = [P('OCT', 'C', 0, lit(initial))] if initial else []
    subs += [P('OCT', 'C', 1, lit(x)) for x in lst[:-1]]
    kind = 'substrings' + ('|any' if len(lst) > 1 else '')
    if lst[-1]:
        subs.append(P('OCT', 'C', 2, lit(lst[-1])))
        kind += '|final'
    return kind, C('C', 4, OCT(is_attr), SEQ(*subs))

def check_simple_items(ctx, f, X, rules, classmap, inl):
    """P3 / P4 for the items  attr=value, attr=*, attr=ini*any*fin, attr>=value, attr<=value, attr~=value.

    Decided by *exhaustive literal evaluation* of the item parser's own code (absx on the typed HIR; nothing of the library runs):
    the results of the parsers it applies are replaced, at their application sites, by every combination of
        operator   each literal the operator step can match,
        value      empty / non-empty,
        `*` list   every list of 0..4 components that the list's acceptance test lets through (components before the last
                   non-empty and pairwise distinct, the last one empty or not),
    and the Tag built on the single resulting path is compared with the RFC 4511 Filter the item denotes.  The code decides on a
    list only through its length, the emptiness of a component and a component's position relative to the end; lengths 0..4
    cover {no asterisk, one, two (an `any` component), three and four (several `any` components in order)} x {last empty, not}, and the
    distinct literals tie every output octet string to the component it must come from (lists with EQUAL components - where a
    placement that compares contents instead of positions goes wrong - are check_placement's).  So the discrimination equality /
    presence / substrings, the initial / any / final tagging and the operator table are decided however they are spelled (a
    loop with `break`, `pop` + `extend(map)`, a `match`, one merged function or two).  A combination the evaluator cannot
    decide (more than one path, an unknown construct) is a violation: the rule fails closed.

    Which lists can reach the code at all is part of the claim: a `*` list after an ordering / approximate operator must be
    impossible (P4.operator-discrimination): decided on the grammar of the list step under the operator chosen (peg.language)."""
    ext_rec = peg.recursive_rules(rules, lambda n: n.split('::')[-1])
    look_ext = lambda n: rules.get(FP + n)
    items = [(p, item_roles(ch)) for p, ch in sorted(X.chains.items())]
    items = [(p, r) for p, r in items if r is not None]
    seen_ops, kinds, n_rows, n_placed = set(), set(), 0, 0
    NONEMPTY = (b'a', b'b', b'c')
    for p, roles in items:
        name = p.split('::')[-1]
        B = hirq.Body(f, f.hir[p])
        ctx.analysed['bodies'].add(p)
        steps = [roles[k] for k in ('attr', 'op', 'initial', 'list') if k in roles]
        for op in roles['op']['ops']:
            seen_ops.add(op)
            env = {roles['op']['bind']: ('lit', op)} if roles['op']['bind'] is not None else {}
            # can a non-empty `*` list follow this operator?
            lists_possible = False
            if 'list' in roles:
                try:
                    L = peg.language(f, roles['list']['g'], look_ext, ext_rec, classmap, env=env)
                    lists_possible = bool(L - {()})
                except peg.NoNormalForm:
                    lists_possible = True
            if op != b'=':
                ctx.add('P4.operator-discrimination', '%s|%s' % (name, op.decode()), loc(B.root), not lists_possible,
                        'an item with the operator %s can take the `*` list of the substring syntax: an ordering / approximate-match item must not reach the '
                        'substring / presence branches (RFC 4515: only `=` is followed by  [initial] any final ; an unescaped `*` after %s must be rejected) - '
                        'e.g. (a%s*) would be compiled as %s' % (op.decode(), op.decode(), op.decode(), describe_built(f, B, roles, steps, op, b'', (b'',), inl)))
            lists = [()]
            if lists_possible:
                lists += [NONEMPTY[:n] + (last,) for n in range(0, 4) for last in (b'', b'z')]
            for initial in (b'', b'i'):
                for lst in lists:
                    if op != b'=' and lst:
                        continue        # reported above; what would be built is not an RFC 4511 question
                    n_rows += 1
                    kind, ref = expected_item(op, initial, lst)
                    inst = '%s|%s|initial=%s|list=%s' % (op.decode(), kind, 'present' if initial else 'empty', ','.join(x.decode() or "''" for x in lst) or '-')
                    tags, why = build_item(f, B, roles, steps, op, initial, lst, inl)
                    if tags is None:
                        ctx.fail('P3.shape', inst, loc(B.root), 'the item built for this combination could not be decided by literal evaluation of %s(): %s' % (name, why))
                        continue
                    o, tag = tags
                    mism = compare(to_shape(tag), ref, o.st.pc, {'elems': [], 'pc': o.st.pc})
                    ctx.add('P3.shape', inst, loc(B.root), not mism, ('%s() builds %s: ' % (name, fmt_shape(to_shape(tag))[:160])) + ('; '.join(mism)[:300] or 'matches RFC 4511'))
                    if not mism:
                        kinds.add(kind.split('|')[0]); kinds.update(kind.split('|')[1:] and ['substrings|' + k for k in kind.split('|')[1:]])
        # the acceptance test of the `*` list: adjacent asterisks
        if 'list' in roles:
            check_adjacent(ctx, f, B, roles, name)
            if b'=' in roles['op']['ops']:
                n_placed += check_placement(ctx, f, B, roles, steps, name, inl)
    anchor = loc(f.hir[items[0][0]]['body']) if items else ''
    ctx.add('P3.simple-items.operators', 'table', anchor, seen_ops == set(OPS), 'operators handled by the attribute-value item parsers: %s (expected = >= <= ~=)' % sorted(x.decode() for x in seen_ops))
    for need in ('equality', 'present', 'substrings', 'substrings|any', 'substrings|final'):
        ctx.add('P4.discrimination', need, anchor, need in kinds, 'no combination of parse results makes the item parser build a correct filter of kind ' + need)
    ctx.add('P4.adjacent-asterisks.present', 'list test', anchor, any('list' in r for p, r in items), 'no item parser reads a `*` list')
    ctx.floor('P3', 'attribute-value item combinations evaluated', n_rows, 24)
    ctx.floor('P3.substring-placement', 'piece lists (every pattern of equal / different pieces) x initial value evaluated', n_placed, 250)

def equality_patterns(k):
    """Every way k pieces can be equal to / different from one another: the set partitions of k positions, as restricted growth
    strings (position j carries the number of its class, classes numbered in order of first appearance): 1, 2, 5, 15 for k = 1..4."""
    out = [[]]
    for _ in range(k):
        out = [p + [c] for p in out for c in range((max(p) + 1 if p else 0) + 1)]
    return [tuple(p) for p in out]

# what the classes of a pattern are filled with: octet strings that differ in content only (all of one length), and octet strings
# that differ in length as well - a placement that reads a piece's length, or compares lengths, decides differently on one of them
PIECE_ALPHABETS = ((b'x', b'y', b'z', b'w'), (b'p', b'qq', b'rrr', b'ssss'))

def placement_lists():
    """The partition of `*` lists the substring placement is decided on: 0..4 non-empty pieces after the first asterisk in every
    pattern of equal / different contents, filled from either alphabet, with and without a trailing asterisk (= an empty last piece);
    a list that is only the trailing asterisk included (`a=i*`)."""
    seen, out = set(), []
    for k in range(0, 5):
        for pat in equality_patterns(k):
            for alpha in PIECE_ALPHABETS:
                pieces = tuple(alpha[c] for c in pat)
                for lst in (pieces, pieces + (b'',)):
                    if lst and lst not in seen:
                        seen.add(lst); out.append(lst)
    return out

SUB_NAMES = {0: 'initial', 1: 'any', 2: 'final'}

def substrings_built(tag):
    """[(context tag number, octets)...] of the SubstringFilter's `substrings` SEQUENCE inside the Tag term, when it has exactly that
    form with every octet string known; None otherwise"""
    sh = to_shape(tag)
    if not (sh[0] == 'C' and sh[1] == 'C' and sh[2] == 4 and len(sh[3]) == 2 and sh[3][1][0] == 'C' and sh[3][1][1:3] == ('U', 16)):
        return None
    out = []
    for x in sh[3][1][3]:
        src = strip(x[4]) if x[0] == 'P' else None
        if not (x[0] == 'P' and x[1] == 'OCT' and x[2] == 'C' and src[0] == 'lit' and isinstance(src[1], bytes)):
            return None
        out.append((x[3], bytes(src[1])))
    return out

def check_placement(ctx, f, B, roles, steps, name, inl):
    """P3.substring-placement: WHICH piece of  attr=initial*p1*p2*..*pn  becomes `initial` [0], `any` [1], `final` [2] is a function of
    the pieces' POSITIONS alone (RFC 4515: substring = [initial] any [final], any = "*" *(assertionvalue "*"); RFC 4511
    SubstringFilter: at most one initial, first; at most one final, last): the value before the first asterisk is the initial one
    if it is not empty; every piece followed by another asterisk is an `any`; the piece after the last asterisk is the final one if
    it is not empty; all in input order.

    Decided as a FUNCTION by exact literal evaluation of the item parser (build_item: absx on its typed HIR, the parsers' results
    fixed at their application sites) on the partition placement_lists() x {no initial value, one that differs from every piece,
    one equal to the last non-empty piece}.  What a placement can read of a piece - besides its position - is whether it is
    empty, its content compared with another piece's / the initial value's, and its length: the partition holds every pattern of
    equal / different contents of up to four pieces (a piece that equals the final one, all equal, the first `any` equal to the last
    `any` ...), once with contents of one length and once with contents of different lengths.  The pieces are the OUTPUTS of
    unescaped() (P8.slot-is-the-parser-output), so two pieces that are spelled differently but denote the same octets (`\41`
    and `A`) are two equal pieces here.  A comparison of two pieces' contents (`==` on the octets, on `Option<&Vec<u8>>` ...) is
    evaluated on the octets; a comparison of two references' addresses (`ptr::eq`) on the positions they point to (absx elem_refs);
    a list the evaluator cannot decide is a violation (the rule fails closed).  Returns the number of combinations evaluated."""
    n, undecided, wrong = 0, [], []
    show = lambda ps: ', '.join('%s %s' % (SUB_NAMES.get(t, '[%d]' % t), v.decode()) for t, v in ps) or 'nothing'
    for lst in placement_lists():
        nonempty = [x for x in lst if x]
        for initial in [b'', b'i'] + ([nonempty[-1]] if nonempty else []):
            if not initial and lst == (b'',):
                continue            # `a=*` is the presence test, not a substring filter (P3.shape / P4.discrimination)
            n += 1
            want = ([(0, initial)] if initial else []) + [(1, x) for x in lst[:-1]] + ([(2, lst[-1])] if lst[-1] else [])
            text = 'a=%s*%s' % (initial.decode(), '*'.join(x.decode() for x in lst))
            tags, why = build_item(f, B, roles, steps, b'=', initial, lst, inl)
            if tags is None:
                undecided.append('`%s`: %s' % (text, why)); continue
            got = substrings_built(tags[1])
            if got is None:
                undecided.append('`%s`: not a substrings [4] filter with known octet strings but %s' % (text, fmt_shape(to_shape(tags[1]))[:160])); continue
            if got == want:
                continue
            # the first piece that is placed wrongly, said in terms of the filter string
            j = next(j for j in range(max(len(got), len(want))) if got[j:j + 1] != want[j:j + 1])
            g, w = (got[j] if j < len(got) else None), (want[j] if j < len(want) else None)
            if g is not None and w is not None and g[1] == w[1]:
                first = 'substring number %d, the piece `%s`, is tagged [%d] %s, it must be [%d] %s' % (j + 1, w[1].decode(), g[0], SUB_NAMES.get(g[0], '?'), w[0], SUB_NAMES[w[0]])
            elif g is None:
                first = 'the %s piece `%s` is missing' % (SUB_NAMES[w[0]], w[1].decode())
            elif w is None:
                first = 'there is a piece too many: %s `%s`' % (SUB_NAMES.get(g[0], '[%d]' % g[0]), g[1].decode())
            else:
                first = 'substring number %d is %s `%s`, it must be %s `%s`' % (j + 1, SUB_NAMES.get(g[0], '[%d]' % g[0]), g[1].decode(), SUB_NAMES[w[0]], w[1].decode())
            wrong.append((len(text), text, '`%s`: %s - %s() builds {%s}, expected {%s}' % (text, first, name, show(got), show(want))))
    wrong.sort()
    ctx.add('P3.substring-placement', name + '|decided', loc(B.root), not undecided,
            'what %s() builds for a substring filter must be decided by literal evaluation (one path, a substrings [4] SEQUENCE of known octet strings); of %d filters '
            '%d are not: %s' % (name, n, len(undecided), '; '.join(undecided[:3])[:500]))
    ctx.add('P3.substring-placement', name + '|positions-decide', loc(B.root), not wrong,
            'every piece followed by an asterisk is an `any` [1], only a non-empty piece after the LAST asterisk is the `final` [2], a non-empty value before the first '
            'asterisk the `initial` [0], in input order, whatever the pieces contain (RFC 4515 substring, RFC 4511 SubstringFilter); evaluated on %d filters, %s() '
            'places the pieces differently on %d: %s' % (n, name, len(wrong), '; '.join(w[2] for w in wrong[:3])))
    return n

def build_item(f, B, roles, steps, op, initial, lst, inl):
    """((path, Tag term), None) of the single accepting path of the item parser when its parsers yield the given results,
    or (None, why)."""
    values = {'attr': ATTR, 'op': ('lit', op), 'initial': ('lit', initial), 'list': ('vec', tuple(('lit', x) for x in lst))}
    by_app = {id(roles[k]['app']): (('param', 'rest#%d' % i), values[k]) for i, k in enumerate(k for k in ('attr', 'op', 'initial', 'list') if k in roles)}
    def parsed(I, cal, args, node, st):
        hit = by_app.get(id(node))
        if hit is not None:
            return [absx.Out('val', ('ctor', 'Ok', (('tuple', hit),)), st)]
        return None
    I = absx.Interp(f, B, inline=inl, summaries=[parsed], combinators=True)
    I.exact_seqs = True
    I.elem_refs = True      # a reference to a piece of the list knows which piece it points to (`ptr::eq` on two of them is decided)
    try:
        outs = I.run()
    except absx.TooManyPaths:
        return None, 'too many paths'
    if len(outs) != 1:
        return None, '%d paths (%s)' % (len(outs), ', '.join(sorted({'%s %s' % (o.kind, absx.fmt(o.val)[:40]) for o in outs}))[:200])
    o = outs[0]
    v = o.val
    if not (o.kind in ('val', 'ret') and v[0] == 'ctor' and v[1] == 'Ok' and v[2][0][0] == 'tuple' and len(v[2][0][1]) == 2):
        return None, 'the path ends in %s %s' % (o.kind, absx.fmt(v)[:80])
    return (o, v[2][0][1][1]), None

def describe_built(f, B, roles, steps, op, initial, lst, inl):
    tags, why = build_item(f, B, roles, steps, op, initial, lst, inl)
    return fmt_shape(to_shape(tags[1]))[:120] if tags is not None else 'something undecided (%s)' % why

def check_adjacent(ctx, f, B, roles, name):
    """P4.adjacent-asterisks: the acceptance test of the `*` list rejects exactly the lists with an empty component other than the
    last (`a=x**y`), and hands an accepted list on unchanged.  The test is a function of the list alone: it is evaluated on
    literals for every list of 0..4 components over {empty, "x", "*"} (121 lists; two different non-empty contents, so a test that
    looked at more than emptiness shows up), however it is written (fold / any / windows / split_last ...)."""
    g = roles['list']['g']
    node = g[3] if (g[0] == 'check' and len(g) > 3) else None
    if node is None or node.get('k') != 'Closure':
        ctx.fail('P4.adjacent-asterisks', name, loc(B.root), 'the `*` list is accepted without a test (or the test is not a closure the rules can evaluate): adjacent asterisks are not rejected')
        return
    I = absx.Interp(f, B)
    I.exact_seqs = True
    import itertools
    wrong, changed, n = [], [], 0
    for ln in range(0, 5):
        for combo in itertools.product((b'', b'x', b'*'), repeat=ln):
            n += 1
            LIST = ('vec', tuple(('lit', x) for x in combo))
            try:
                outs = I.apply_closure(('closure', node['def']), [LIST], absx.St({}), node)
            except absx.TooManyPaths:
                outs = []
            exp_reject = any(x == b'' for x in combo[:-1])
            got = set()
            for o in outs:
                v = o.val
                if o.kind not in ('val', 'ret'):
                    got.add('?' + o.kind)
                elif g[2] == 'verify':
                    got.add('accept' if v == absx.TRUE else 'reject' if v == absx.FALSE else '?')
                elif v[0] == 'ctor' and v[1] == 'Ok':
                    got.add('accept')
                    if v[2] != (LIST,):
                        changed.append(combo)
                else:
                    got.add('reject' if sem.is_err_result(v) else '?')
            if got != {'reject' if exp_reject else 'accept'}:
                wrong.append(('*'.join(x.decode() for x in combo) if combo else '<no asterisk>', sorted(got) or ['no path']))
    show = lambda w: ['a=i*%s: %s' % (c, '/'.join(g_)) for c, g_ in w[:4]]
    ctx.add('P4.adjacent-asterisks', name, loc(node), not wrong,
            'the substring list must be rejected exactly when a component other than the last is empty (adjacent asterisks); evaluated on %d literal lists, the '
            'test of %s() decides differently (or not at all) on %d: %s' % (n, name, len(wrong), show(wrong)))
    ctx.add('P4.adjacent-asterisks.rejects', name, loc(node), not changed and not wrong, 'an accepted list must be handed on unchanged (changed: %s)' % changed[:3])


def check_unescaper(ctx, f, X=None):
    p = FP + 'Unescaper::feed'
    B = hirq.Body(f, f.body(p))
    ctx.analysed['bodies'].add(p)
    I = absx.Interp(f, B)
    C_ = ('param', 'c')
    def run_state(sv):
        env = {}
        for b, d in B.defs.items():
            if d['kind'] == 'param':
                env[b] = sv if d['name'] == 'self' else C_
        return I.run(env=env)
    hexa = lambda a: a[0] == 'call' and a[1].endswith('::is_hex_digit') and a[2] == (C_,)
    bsl = lambda a: a == ('bin', 'Eq', C_, ('lit', 92))
    def cls(o):
        h = next((t for a, t in o.st.pc if hexa(a)), None)
        b = next((t for a, t in o.st.pc if bsl(a)), None)
        return h, b
    exp = {
        'Error': {(None, None): 'Error'},
        'WantFirst': {(True, None): 'WantSecond', (False, None): 'Error'},
        'WantSecond': {(True, None): 'Value', (False, None): 'Error'},
        'Value': {(None, False): 'Value', (None, True): 'WantFirst'},
    }
    for sname, table in exp.items():
        sv = ('ctor', 'Unescaper::' + sname, (('param', 'payload'),) if sname in ('WantSecond', 'Value') else ())
        got = {}
        for o in run_state(sv):
            if o.kind in ('val', 'ret') and o.val[0] == 'ctor':
                got[cls(o)] = o.val[1].split('::')[-1]
                if sname == 'Value' and cls(o) == (None, False):
                    ctx.add('P5.value-passthrough', 'Value', loc(B.root), o.val[2] == (C_,), 'an ordinary byte must be passed through unchanged')
        ctx.add('P5.transition', sname, loc(B.root), got == table,
                'from %s: (hex digit?, backslash?) -> %s; expected %s' % (sname, got, table))
    n, w = unesc.check_feed(f)
    ctx.unescaper_exact = n if (not w and n == 5120) else 0
    ctx.add('P5.hex-arithmetic-exhaustive', 'Unescaper::feed', loc(B.root), not w and n == 5120,
            'evaluated on literals for all %d (state, byte) pairs; differs from the RFC 4515 automaton on %d: %s' % (n, len(w), w[:4]))
    # the fold in `unescaped`: start in Value, push exactly the Value payloads, accept only in Value
    U = hirq.Body(f, f.body(FP + 'unescaped'))
    ctx.analysed['bodies'].add(U.path)
    if not feeds_the_state_machine(f, U.path):
        # The value is not computed by feeding the consumed octets to Unescaper::feed one by one (split at backslashes + a
        # conversion of two octets, a table, ...): there is no fold whose base case / step / acceptance could be stated.  What
        # the function computes is decided by P5.value-unescaping (check_value_function) - exact literal evaluation of whatever code
        # is there -, which is evaluated for every way of writing the function, this one included.
        ctx.ok('P5.fold-form', 'unescaped', loc(U.root), 'unescaped() does not go through Unescaper::feed: decided as a function by P5.value-unescaping alone')
        return
    ok_init, ok_step, ok_acc, ok_src, form = fold_facts(f, U, X)
    ctx.add('P5.fold-initial-state', 'unescaped', loc(U.root), ok_init, 'the unescaper must start in Value with an empty output')
    ctx.add('P5.fold-step', 'unescaped', loc(U.root), ok_step, 'each input byte must be fed to the unescaper and exactly the Value payloads pushed to the output')
    ctx.add('P5.accept-only-in-value', 'unescaped', loc(U.root), ok_acc, 'a value ending inside an escape sequence (or after a bad one) must be rejected')
    ctx.add('P5.fold-over-consumed-bytes', 'unescaped', loc(U.root), ok_src, 'the bytes fed to the unescaper must be exactly the bytes the parser consumes (all of them, in order); form read: %s' % form)


def feeds_the_state_machine(f, path, seen=None):
    """Is Unescaper::feed called from the body `path` (its closures included) or from a filter.rs function it calls?"""
    seen = set() if seen is None else seen
    if path in seen or path not in f.hir:
        return False
    seen.add(path)
    for n, _c in walk(f.hir[path]['body']):
        if n.get('k') in ('Call', 'MethodCall'):
            cal = callee_of(n) or ''
            if cal == unesc.FEED:
                return True
            if cal.startswith(FP) and feeds_the_state_machine(f, cal, seen):
                return True
        if n.get('k') == 'Path' and n.get('res') != 'local' and (n.get('def') or '').startswith(FP):
            d = n.get('inst') or n.get('def')
            if d == unesc.FEED or feeds_the_state_machine(f, d, seen):
                return True
    return False


# ---------------------------------------------------------------------------------------------------------------------------------
# P5.value-unescaping: WHAT the value parser computes, decided by exact literal evaluation over a finite partition of inputs

HEXDIGITS = set(b'0123456789abcdefABCDEF')

def ref_value(inp):
    """RFC 4515 `assertionvalue` as the grammar reads it, on the octets inp: the value is the longest prefix of value characters
    (everything but NUL ( ) *); in it a backslash must be followed by two hex digits and stands for the octet 16*hi+lo, every
    other octet stands for itself.  -> (remainder, octets), or (remainder, None) when an escape is malformed (rejected)."""
    n = 0
    while n < len(inp) and inp[n] in CLASS_SETS[VALUECHAR]:
        n += 1
    raw, rest = inp[:n], inp[n:]
    out, i = bytearray(), 0
    while i < len(raw):
        if raw[i] != 0x5c:
            out.append(raw[i]); i += 1
        elif i + 2 < len(raw) and raw[i + 1] in HEXDIGITS and raw[i + 2] in HEXDIGITS:
            out.append(int(raw[i + 1:i + 3], 16)); i += 3
        else:
            return rest, None
    return rest, bytes(out)

# representatives of the classes an octet after a backslash can fall in: hex digits (both ends of 0-9, a-f, A-F), the signs and the
# blank that std's number parsers treat specially, the neighbours of the digit ranges in ASCII order (/ : @ G ` g), other ASCII
# (printable, control), octets >= 0x80 (a UTF-8 lead byte, a continuation byte, 0x80, 0xff), the backslash, the four octets that end
# the value, and "nothing" (end of input)
AFTER_BACKSLASH = [bytes([c]) for c in b'09afAF+- gG/:@`x_\x01\x7f\x80\xc3\xa9\xff\\()*\x00'] + [b'']
CLASS_REPS = [bytes([c]) for c in b'5cC+- gGx\x80\\)'] + [b'']

def value_inputs(lengths):
    """The literal inputs of the partition (deduplicated, in a fixed order)."""
    seen, out = set(), []
    def add(b):
        if b not in seen:
            seen.add(b); out.append(b)
    add(b'')
    for c in range(256):
        add(bytes([c]))                                  # every octet on its own: passes through / ends the value
    add(b'ab'); add(b'a b+-'); add(b'ab)c'); add(b'a*b'); add(b'(a')
    for x in AFTER_BACKSLASH:                            # every class with every class, right after a backslash
        for y in (AFTER_BACKSLASH if x else [b'']):
            add(b'\\' + x + y)
    for c in range(256):                                 # every octet in either position, next to a hex digit / a sign
        add(b'\\' + bytes([c]) + b'5')
        add(b'\\5' + bytes([c]))
        add(b'\\+' + bytes([c]))
    for x in CLASS_REPS:                                 # ... with literal characters before / after, a remainder, runs of two escapes
        for y in (CLASS_REPS if x else [b'']):
            core = b'\\' + x + y
            for inp in (b'p' + core, core + b's', b'pq' + core + b'st', core + b')z', core + b'\\41', b'\\6a' + core, core + core, b'a' + core + b'b' + core + b'c'):
                add(inp)
    for n in sorted(lengths):                            # lengths around every integer constant the code mentions
        if n >= 3:
            for inp in (b'a' * n, b'a' * (n - 3) + b'\\41', b'a' * (n - 3) + b'\\4g'):
                add(inp)
    return out

def length_points(f, path, seen=None, out=None):
    """Lengths at which a length-dependent behaviour of the value function could change: k-1, k, k+1 for every integer literal
    3 <= k <= 120 in its body and in the filter.rs functions it calls (a cut-off, a buffer size, a chunk length is a constant of the
    code).  Constants that are not lengths (character codes) only add inputs."""
    seen = set() if seen is None else seen
    out = set() if out is None else out
    if path in seen or path not in f.hir:
        return out
    seen.add(path)
    for n, _c in walk(f.hir[path]['body']):
        if n.get('k') == 'Lit' and isinstance(n.get('v'), int) and not isinstance(n.get('v'), bool) and 3 <= n['v'] <= 120:
            out.update((n['v'] - 1, n['v'], n['v'] + 1))
        if n.get('k') in ('Call', 'MethodCall', 'Path'):
            cal = (callee_of(n) if n['k'] != 'Path' else (n.get('inst') or n.get('def'))) or ''
            if cal.startswith(FP):
                length_points(f, cal, seen, out)
    return out

def octets_of(t):
    """The octets a byte-vector term stands for when every one of them is known: literal octets, a vector of known octets, a
    vector + one pushed octet, a vector + the elements of another (extend / extend_from_slice); None otherwise."""
    if t[0] == 'lit' and isinstance(t[1], bytes):
        return t[1]
    if t[0] in ('vec', 'array'):
        if all(x[0] == 'lit' and isinstance(x[1], int) and not isinstance(x[1], bool) and 0 <= x[1] <= 255 for x in t[1]):
            return bytes(x[1] for x in t[1])
        return None
    if t[0] == 'vecpush':
        a = octets_of(t[1])
        x = t[2]
        return a + bytes([x[1]]) if a is not None and x[0] == 'lit' and isinstance(x[1], int) and not isinstance(x[1], bool) and 0 <= x[1] <= 255 else None
    if t[0] == 'concat':
        a, b = octets_of(t[1]), octets_of(t[2])
        return a + b if a is not None and b is not None else None
    return None

def show_octets(b):
    s_ = lambda x: ''.join(chr(c) if 0x20 <= c < 0x7f else '\\x%02x' % c for c in x)
    return s_(b) if len(b) <= 24 else '%s..(%d octets)..%s' % (s_(b[:6]), len(b), s_(b[-6:]))

def show_hex(b):
    return (b.hex() or '(none)') if len(b) <= 12 else '%s..(%d octets)..%s' % (b[:4].hex(), len(b), b[-4:].hex())

def check_value_function(ctx, f):
    """P5.value-unescaping: the function `unescaped()` computes - whatever it is built from - is the RFC 4515 value reading (ref_value).

    Decided by *exact literal evaluation*: the typed HIR of unescaped() is interpreted (absx; nothing of the library runs) on one
    literal input at a time - the nom combinators by their definitions (nomlit), filter.rs functions inlined, std functions by their
    exact models on literals (from_str_radix, from_utf8, split, slicing with its bounds check, to_digit ...) - and the single
    outcome is compared with the reference.  The inputs are a finite partition of what can follow a backslash: every class of
    octet (hex digit 0-9 / a-f / A-F, `+`, `-`, blank, the ASCII neighbours of the digit ranges, other ASCII, >= 0x80, backslash,
    the value terminators, end of input) with every class, every single octet 0..255 in either position, each with and without
    literal characters before and after, with a remainder, in runs of two escapes, a backslash last / second to last; every
    octet on its own; and values of the lengths around every integer constant the code mentions.  An input whose evaluation
    does not end in exactly one known Ok / Err is a violation (fails closed)."""
    p = FP + 'unescaped'
    U = hirq.Body(f, f.body(p))
    where = loc(U.root)
    params = [b for b, d in U.defs.items() if d['kind'] == 'param']
    if len(params) != 1:
        ctx.fail('P5.value-unescaping', 'decided', where, 'unescaped() does not take exactly the input slice')
        return
    memo = {}
    def pure_once(I_, cal, args, node, st):
        # a filter.rs function applied to known values only (a byte predicate on a literal octet): if its evaluation is one value
        # and touches nothing (no event, no store, no new path fact), it is that value at every later call with the same arguments
        if not (cal.startswith(FP) and args and all(absx.ground(a) for a in args)):
            return None
        key = (cal, tuple(args))
        if key in memo:
            return [absx.Out('val', memo[key], st)]
        r = I_.inline_call(cal, args, node, st)
        if r is not None and len(r) == 1 and r[0].kind == 'val' and r[0].st.ev == st.ev and r[0].st.pc == st.pc and r[0].st.heap == st.heap and absx.ground(r[0].val):
            memo[key] = r[0].val
        return r
    I = absx.Interp(f, U, summaries=[nomlit.summary, unesc.feed_summary(f), unesc.char_summary, pure_once], inline=lambda c: c.startswith(FP), combinators=True)
    I.exact_seqs = True
    inputs = value_inputs(length_points(f, p))
    bad = {k: [] for k in ('decided', 'no-panic', 'malformed-escape-rejected', 'escape-yields-its-octets', 'literal-octets-unchanged', 'consumes-the-value-characters')}
    for inp in inputs:
        rest, exp = ref_value(inp)
        shown = show_octets(inp)
        try:
            outs = I.run(env={params[0]: ('lit', inp)})
        except absx.TooManyPaths:
            outs = []
        if any(o.kind == 'div' for o in outs):
            bad['no-panic'].append('`%s` panics' % shown)
            continue
        r = nomlit.result_of(outs[0].val) if len(outs) == 1 and outs[0].kind in ('val', 'ret') else None
        got = None
        if r is not None and r[0] == 'err':
            got = ('err',)
        elif r is not None and nomlit.is_bytes(r[1]) and octets_of(r[2]) is not None:
            got = ('ok', r[1][1], octets_of(r[2]))
        if got is None:
            bad['decided'].append('`%s`: %s' % (shown, ', '.join('%s %s' % (o.kind, absx.fmt(o.val)[:60]) for o in outs)[:160] or 'no outcome'))
        elif exp is None and got[0] == 'ok':
            bad['malformed-escape-rejected'].append('`%s` accepted as the octets %s' % (shown, show_hex(got[2])))
        elif exp is not None and (got[0] == 'err' or got[2] != exp):
            kind = 'escape-yields-its-octets' if 0x5c in inp[:len(inp) - len(rest)] else 'literal-octets-unchanged'
            bad[kind].append('`%s` %s, expected the octets %s' % (shown, 'rejected' if got[0] == 'err' else 'gives ' + show_hex(got[2]), show_hex(exp)))
        elif exp is not None and got[1] != rest:
            bad['consumes-the-value-characters'].append('`%s` leaves `%s`, expected `%s`' % (shown, show_octets(got[1]), show_octets(rest)))
    texts = {
        'decided': 'the evaluation of unescaped() on a literal input must end in one known Ok((rest, octets)) / Err',
        'no-panic': 'no value may panic',
        'malformed-escape-rejected': 'a backslash that is not followed by two hex digits must be rejected (RFC 4515: escaped = "\\" HEX HEX)',
        'escape-yields-its-octets': 'a backslash with two hex digits hi lo stands for the one octet 16*hi+lo',
        'literal-octets-unchanged': 'an octet that is not part of an escape stands for itself',
        'consumes-the-value-characters': 'the value is the longest run of value characters; what follows it is left for the caller',
    }
    for k, w in bad.items():
        ctx.add('P5.value-unescaping', k, where, not w, '%s; evaluated on %d literal inputs, unescaped() differs on %d: %s' % (texts[k], len(inputs), len(w), '; '.join(w[:5])))
    ctx.floor('P5.value-unescaping', 'literal inputs of the escape partition evaluated', len(inputs), 2500)


UNESC_VARIANTS = ['Unescaper::WantFirst', 'Unescaper::WantSecond', 'Unescaper::Value', 'Unescaper::Error']

def is_value(pc, st_t):
    """what a path condition says about `st_t is Unescaper::Value` (a test against another variant decides it too)"""
    return sem.variant_truth(pc, lambda t: t == st_t, 'Unescaper::Value', UNESC_VARIANTS)

def fold_facts(f, U, X=None):
    """The value computation of `unescaped` is a fold of the consumed bytes through Unescaper::feed.  Its three parts - the initial
    (state, output), the step and the acceptance test - are decided on the enumerated paths, for either way of writing a fold:
      (a) nom's `map_res(fold_many0(byte parser, init, step), finish)`: the three closures are applied to symbolic arguments;
      (b) a loop over the consumed bytes with the state and the output in loop-carried locals: the body is evaluated as one
          generic iteration from an arbitrary carried (state, output) - the inductive step -, the values the locals hold when the
          loop is entered are the base case, and the code after the loop is the acceptance test of whatever state the last
          iteration left (the state term is opaque, so what is decided for it holds for the initial state of an empty value too).
    Returns (init ok, step ok, accept ok, the bytes folded are the consumed ones, name of the form)."""
    folds = [n for n, c in walk(U.root) if n['k'] == 'Call' and callee_of(n) == 'nom::multi::fold_many0' and len(n['args']) == 3]
    I = absx.Interp(f, U, for_once=True)
    I.carry_vecs = True
    FEED = FP + 'Unescaper::feed'
    payload = lambda st_t: ('variant', st_t, 'Unescaper::Value', 0)
    if len(folds) == 1:
        fold = folds[0]
        finishes = [n for n, c in walk(U.root) if n['k'] == 'Call' and callee_of(n) == 'nom::combinator::map_res' and len(n['args']) == 2 and n['args'][0] is fold]
        init_c, step_c = fold['args'][1], fold['args'][2]
        if len(finishes) != 1 or any(x['k'] != 'Closure' for x in (init_c, step_c, finishes[0]['args'][1])):
            return False, False, False, False, 'fold_many0 without closures / without a map_res acceptance test'
        fin_c = finishes[0]['args'][1]
        outs = [o for o in I.apply_closure(('closure', init_c['def']), [], absx.St({}), init_c)]
        ok_init = bool(outs) and all(o.kind in ('val', 'ret') and o.val[0] == 'tuple' and len(o.val[1]) == 2 and o.val[1][0][0] == 'ctor'
                                     and o.val[1][0][1] == 'Unescaper::Value' and o.val[1][1] == ('vec', ()) for o in outs)
        u, c, acc = ('param', 'u'), ('param', 'c'), ('param', 'vec')
        seen = set()
        ok_step = True
        for o in I.apply_closure(('closure', step_c['def']), [('tuple', (u, acc)), c], absx.St({}), step_c):
            v = o.val
            if o.kind not in ('val', 'ret') or v[0] != 'tuple' or len(v[1]) != 2:
                ok_step = False; continue
            st_t, vec = v[1]
            fed = st_t[0] == 'call' and st_t[1] == FEED and st_t[2] == (u, c)
            isv = is_value(o.st.pc, st_t)
            seen.add(isv)
            ok_step = ok_step and fed and ((isv is True and vec == ('vecpush', acc, payload(st_t))) or (isv is False and vec == acc))
        ok_step = ok_step and seen == {True, False}
        seen = set()
        ok_acc = True
        for o in I.apply_closure(('closure', fin_c['def']), [('tuple', (u, acc))], absx.St({}), fin_c):
            isv = is_value(o.st.pc, u)
            seen.add(isv)
            ok_acc = ok_acc and o.kind in ('val', 'ret') and ((isv is True and o.val == ('ctor', 'Ok', (acc,))) or (isv is False and sem.is_err_result(o.val)))
        ok_acc = ok_acc and seen == {True, False}
        # fold_many0 folds the outputs of its element parser, one per application, in input order: by nom's definition.  What is
        # folded is therefore the consumed bytes exactly when the element parser's OUTPUT is the byte it consumed (value reading
        # of the element parser: be_u8 under any number of `verify`s; a `map` in between would feed the unescaper something else)
        # ... and what unescaped() returns is the acceptance test's payload of that very fold, nothing applied on top of it
        el = X.value_of(fold['args'][0], U.path) if X is not None else ('unknown', 'no extractor')
        fv = X.fn_value(U.path) if X is not None else ('unknown', 'no extractor')
        direct = fv[0] == 'mapres' and fv[1] is fin_c and fv[3][0] == 'fold' and fv[3][3] is init_c and fv[3][4] is step_c
        return ok_init, ok_step, ok_acc, el == peg.BYTE and direct, 'fold_many0 over %s; the function returns %s' % (peg.show_value(el), peg.show_value(fv))
    # (b) a loop
    try:
        outs = I.run()
    except absx.TooManyPaths:
        return False, False, False, False, 'too many paths'
    ok_init = ok_step = ok_acc = ok_src = True
    seen = set()
    n_final = 0
    # the application of the byte-class parser the remainder comes from (if the prefix is cut off by a parser): only *its* failure
    # may be propagated; every other error path must be the "not in Value" rejection decided below
    own_app = set()
    for o in outs:
        v = o.val
        if o.kind in ('val', 'ret') and v[0] == 'ctor' and v[1] == 'Ok' and v[2] and v[2][0][0] == 'tuple' and len(v[2][0][1]) == 2:
            r = v[2][0][1][0]
            if peg.prefix_split(r) is not None and r[1][0] == 'variant':
                own_app.add(r[1][1])
    for o in outs:
        if o.kind in ('val', 'ret') and o.val[0] == 'tryerr' and o.val[1] in own_app:
            continue                # the byte-class parser's own failure, propagated
        carried = [e for e in o.st.ev if e[0] == 'loop-carried']
        loops = {id(e[3]) for e in carried}
        st_c = [e for e in carried if e[4][0] == 'ctor' and e[4][1].startswith('Unescaper::')]
        out_c = [e for e in carried if e[4][0] == 'vec']
        if o.kind not in ('val', 'ret') or len(loops) != 1 or len(carried) != 2 or len(st_c) != 1 or len(out_c) != 1:
            return False, False, False, False, 'no single loop with a carried (state, output) pair on a path that ends in %s' % o.kind
        n_final += 1
        U0, V0 = st_c[0][2], out_c[0][2]           # the carried state and output at the head of the generic iteration
        ok_init = ok_init and st_c[0][4][1] == 'Unescaper::Value' and out_c[0][4] == ('vec', ())
        feeds = [a[1] for a, t in o.st.pc if a[0] == 'is' and a[1][0] == 'call' and a[1][1] == FEED]
        feeds += [x for x in absx.leaves(o.val, lambda x: x[0] == 'call' and x[1] == FEED)]
        F = feeds[0] if feeds else None
        if F is None or any(x != F for x in feeds) or F[2][0] != U0 or F[2][1][0] != 'elem':
            ok_step = False; continue
        isv = is_value(o.st.pc, F)
        seen.add(isv)
        v = o.val
        if isv is True:
            # accepted, with the output of this iteration: what was carried in plus the payload of the new state
            good = v[0] == 'ctor' and v[1] == 'Ok' and v[2][0][0] == 'tuple' and len(v[2][0][1]) == 2 and v[2][0][1][1] == ('vecpush', V0, payload(F))
            ok_step = ok_step and good
            ok_acc = ok_acc and good
            if good:
                rest = peg.prefix_split(v[2][0][1][0])
                taken = peg.prefix_split(F[2][1][1])
                ok_src = ok_src and rest is not None and taken is not None and rest[2] == 'rest' and taken[2] == 'taken' and rest[:2] == taken[:2]
        elif isv is False:
            # rejected; nothing was pushed for this byte (had it been, the vector would show up as a `push` event of this path)
            pushes = [e for e in o.st.ev if e[0] == 'call' and e[1].endswith('::push')]
            ok_step = ok_step and not pushes
            ok_acc = ok_acc and sem.is_err_result(v)
        else:
            ok_step = ok_acc = False
    both = seen == {True, False}
    return ok_init and n_final > 0, ok_step and both, ok_acc and both, ok_src and both, 'loop over the consumed prefix'


def run_thorough(ctx):
    """cross-engine agreement: clippy's restriction lints (an independent, lexical implementation) inside the cone's bodies"""
    if ctx.cfg != 'default':
        return          # clippy is run with the default feature set: compared in that configuration only
    G, parent, regions, srcs = ctx._cone
    sites, info = engine.clippy_sites()
    n = cone.clippy_agreement(ctx, 'P6.cross-engine-agreement', G, parent, regions, srcs, sites)
    ctx.floor('P6.cross-engine', 'clippy sites inside the filter compiler cone', n, 3)
    ctx.note('cross-engine agreement: %d constructs reported by clippy restriction lints lie inside the %d bodies of the cone; each must coincide with a MIR panic source' % (n, len(parent)))
