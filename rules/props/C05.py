"""C05 - in-flight operations never share a message ID; IDs stay within 1..2^31-1.

Decided statically (necessary conditions, DESIGN.md section 6 C05): the shape of the allocator
(single critical section, wrap constants, skip loop, publish/insert/return of the same candidate),
who may touch the ID table, and that the driver never releases an ID that is still routed."""
from facts import walk, callee_of, call_args, loc
import hirq, anchors, absx, sem, setfacts

EXPLANATION = ("Structural rules over the typed HIR of the ID allocator and of every access to the ID table "
               "(Arc<Mutex<(RequestId, HashSet<RequestId>)>>): N1 one lock, every access through that guard; "
               "N2 candidate starts at the stored counter, is reset to 1 exactly when it equals i32::MAX and is "
               "otherwise incremented by 1, table initialised to (0, empty); N3 the search loop is left only on paths whose "
               "condition entails that the freshly updated candidate is not in the in-use set (found not to be a member, or the set found empty; what the path observed of the set before it first changes it - rules/setfacts.py); N4 the same candidate is stored, inserted and "
               "returned; N5 who-may-touch: counter writes (through any alias of the place: `guard.0`, a destructured or re-borrowed guard) and set inserts only in the allocator - a store in the driver loop is accepted only when its arm's paths show it writes back the counter's own current value -, allocator called only "
               "from the operation issue point whose request tuple carries that value, set removals only in the driver "
               "loop, or in the issue point on paths where the removed value is the ID that very call reserved and its only hand-over to the driver is known to have failed before (the driver never learnt of it) - a `retain` is judged by the removals it amounts to: in the driver loop named IDs only, anywhere else none at all, a predicate about an ID's magnitude being decided against the allocator's own invariant (every member is in 1..=i32::MAX; used only when N2 / N4 / N8 and the other N5 obligations establish it on the analysed tree) -; N6 on every enumerated path of a select! arm a release comes with the un-routing of the same ID (or is the Abandon "
               "request's own, never-answered ID); N10 the release an expired operation asks for names the ID allocated for that very operation (C12 O1). Not decided: the arithmetic of 2^31 wrap-around as a runtime fact "
               "beyond this shape; scheduler interleavings (the single Mutex critical section is the argument).")
TRUSTED = ['std::sync::Mutex mutual exclusion', 'std HashSet semantics']
ASSUMPTIONS = ['RequestId = i32 (checked through the resolved field types)']
SHARED = [('C01', ('R5.', 'R7.'), 'N7.reservation-kept'), ('C02', ('S13.',), 'N9.id-on-the-wire'),      # a frame nobody waits for must not release an ID; the allocated ID is the one put on the wire
          # "differs from the ID of every other operation on the same connection still outstanding": an ID is given up only by the
          # operation that owns it.  The one release a handle asks the driver for is the timeout scrub of the issue point; if the ID
          # it names is not the one allocated for this very call (a stale `last_id`: the handle's previous operation, which on a
          # stream's handle is the running Search), another, still outstanding operation's ID leaves the in-use set and is handed
          # out a second time when the counter next comes by (C12 O1.scrub-own-id)
          ('C12', ('O1.scrub-own-id',), 'N10.release-own-id-only')]
UNDECIDED = ['runtime wrap-around over 2^31 allocations (decided only as the allocator shape)']

def check_step(ctx, A, root, V, o, CNT, carried, sig, MAX, entries=()):
    prev = None
    if V == ('lit', 1):
        at = [a for a, t in o.st.pc if t and a[0] == 'bin' and a[1] in ('Eq', 'Ge') and a[3] == ('lit', MAX)]
        prev = at[0][2] if at else None
        ctx.add('N2.wrap', A.path, loc(root), bool(at), 'the candidate is reset to 1 on a path that did not find the previous candidate equal to i32::MAX (%d)' % MAX)
    elif V[0] == 'bin' and V[1] == 'Add' and V[3] == ('lit', 1):
        prev = V[2]
        neq = any((not t) and a[0] == 'bin' and a[1] in ('Eq', 'Ge') and a[2] == prev and a[3] == ('lit', MAX) for a, t in o.st.pc) or \
            any(t and a[0] == 'bin' and a[1] == 'Lt' and a[2] == prev and a[3] == ('lit', MAX) for a, t in o.st.pc)
        ctx.add('N2.step', A.path, loc(root), neq, 'the candidate is incremented on a path that did not exclude i32::MAX: the ID would leave 1..2^31-1')
    else:
        ctx.fail('N2.step', A.path, loc(root), 'the candidate value %s is neither 1 nor the previous candidate plus 1' % absx.fmt(V)[:60])
    if prev is not None:
        # Where the search starts.  The counter is the one SHARED by every handle of the connection: component 0 of the tuple behind
        # the mutex-guarded ID table (CNT is read through the guard of the allocator's single lock, N1).  A candidate that is the
        # loop-carried variable is followed back to the value that variable ENTERS the search loop with (the 'loop-carried' event
        # keeps it): that value has to be the shared counter itself, or a step of it that is judged as a definition of its own
        # (`entries`: the step taken before the probe loop).  A per-handle field, a constant, the larger of the two ... start the
        # search somewhere else: the handle is then given the lowest free ID above *its* mark - an ID just released -, not the
        # next one the connection has not used yet.
        all_carried = [e for e in o.st.ev if e[0] == 'loop-carried'] or carried
        is_cnt = lambda t: sem.strip_site(t) == sem.strip_site(CNT)
        start = [prev]
        if prev[0] == 'carried':
            start = [e[4] for e in all_carried if e[2] == prev]
        bad = [t for t in start if not (is_cnt(t) or t in entries)]
        ctx.add('N2.init-from-counter', A.path + '|' + sig, loc(root), bool(start) and not bad,
                'the search for a free ID starts from %s, not from the counter shared by all handles of the connection through the mutex-guarded ID table '
                '(%s, component 0 of the tuple behind the lock): allocation is not monotone over the connection - a handle whose own mark is behind (every '
                'clone starts at 0, every Search runs on one) is given the lowest free ID, i.e. one that was just released, while the server may still '
                'answer the operation that held it' % (absx.fmt(sem.strip_site(bad[0]))[:60] if bad else 'no visible value', absx.fmt(sem.strip_site(CNT))[:60]))

def never_handed_over(f, C, path, h, n):
    """A release outside the driver loop cannot free an ID some in-flight operation still uses exactly when the driver never learnt
    of that ID: on every path of the function through this `remove`, the removed value is the ID the allocator returned on this same
    path, and the only hand-over of it to the driver (a send on the request channel) is known to have failed before the removal -
    a failed send on an unbounded channel returns the message, nothing was queued.  Returns None when that holds, else the reason."""
    outs, _I = sem.paths(f, hirq.Body(f, h), result_combinators=True)
    is_remove = lambda c: c.endswith('HashSet::<T, S, A>::remove') or c.endswith('HashSet::<T, S>::remove')
    seen = 0
    for o in outs:
        for i, cal, args, node in sem.calls(o, is_remove):
            if node is not n:
                continue
            seen += 1
            allocs = [sem.strip_site(('call', c2, a2, None)) for _j, c2, a2, _n in sem.calls(o, lambda c: c == C.alloc_path)]
            if len(args) < 2 or sem.strip_site(args[1]) not in allocs:
                return 'the value released (%s) is not the ID this call reserved' % absx.fmt(args[1] if len(args) > 1 else ('unk', '?'))[:40]
            sends = [(j, nd) for j, c2, a2, nd in sem.calls(o, lambda c: c.endswith('UnboundedSender::<T>::send')) if sem.recv_ty(nd) == anchors.T_REQ_SENDER]
            if not sends:
                return 'on a path that never tried to hand the request to the driver'
            for j, nd in sends:
                sid = nd.get('id')
                if j > i:
                    return 'the request is handed to the driver after its ID has been released'
                if not sem.failed(o, lambda v: sem.has(v, lambda x: x[0] == 'call' and x[3] == sid)):
                    return 'on a path where the request may have reached the driver (the send is not known to have failed)'
    if not seen:
        return 'no enumerated path reaches it'
    return None

def run(ctx):
    f = ctx.facts
    C = anchors.Conn(f)
    A = C.alloc
    ctx.analysed['bodies'].update([C.alloc_path, C.op_call_path, C.loop_path])
    root = A.root

    # ---- N1-N4: the allocator, decided on the enumerated paths of one *generic* iteration of its search loop
    # (the candidate at the loop head is an arbitrary value an earlier iteration can have left; see absx.generic_loop)
    outs, _I = sem.paths(f, A, generic_loops=True, combinators=True)
    MAX = 2147483647
    is_lock = lambda c: c.endswith('Mutex::<T>::lock')
    def guard_of(o):
        ls = sem.calls(o, is_lock)
        return ls
    exits = [o for o in outs if o.kind in ('val', 'ret')]
    ctx.floor('N3', 'allocator exit paths', len(exits), 2)
    n_lock_ok = True
    for o in outs:
        ls = sem.calls(o, is_lock)
        if len(ls) != 1:
            n_lock_ok = False
    ctx.add('N1.single-lock', A.path, loc(root), n_lock_ok, 'the allocator must take the ID-table lock exactly once on every path (one critical section for read, probe and claim)')
    # ... and the lock is the one of the connection's ID table (the Mutex around the (counter, in-use set) pair that every handle
    # reaches through its Arc): what N2-N4 call "the counter" and "the set" are the components behind THIS guard
    lock_nodes = {id(ls[0][3]): ls[0][3] for o in outs for ls in [sem.calls(o, is_lock)] if len(ls) == 1}
    for ln in lock_nodes.values():
        rt = hirq.strip_refs(ln['recv'].get('adj_ty') or ln['recv'].get('ty') or '') if ln.get('k') == 'MethodCall' else ''
        ctx.add('N1.lock-is-the-id-table', A.path, loc(ln), rt in (anchors.T_IDTABLE, 'std::sync::poison::mutex::Mutex<%s>' % anchors.T_IDPAIR),
                'the allocator\'s critical section is not under the Mutex of the connection\'s ID table (it locks a %s)' % (rt or '?')[:80])
    locks_in_loop = [n for n, c in walk(root) if n['k'] == 'MethodCall' and is_lock(callee_of(n) or '') and any(a['k'] in ('Loop', 'For', 'While') for a, _ in c)]
    ctx.add('N1.lock-outside-loop', A.path, loc(root), not locks_in_loop, 'the lock is taken inside a loop (released between probes)')
    for o in exits:
        V = o.val
        sig = 'wrap' if V == ('lit', 1) else 'step'
        ls = sem.calls(o, is_lock)
        if len(ls) != 1:
            continue
        i_lock, _c, largs, lnode = ls[0]
        G = ('variant', ('call', _c, largs, lnode.get('id')), 'Ok', 0)
        SET, CNT = ('field', G, '1'), ('field', G, '0')
        is_set = lambda t: sem.strip_site(t) == sem.strip_site(SET)
        # N2 the step function.  When the value at the exit is the loop-carried candidate itself (the step is taken before the
        # probe loop and at the end of its body), the step is checked where each value the candidate can carry was computed.
        carried = [e for e in o.st.ev if e[0] == 'loop-carried']
        entries = ()
        if V[0] == 'carried':
            # the values the candidate enters the probe loop with, on whichever path (the step taken before the loop forks on the
            # wrap test: one path enters with 1, another with counter + 1): each is judged below as a definition, on the path that
            # computed it; what the body then makes of the carried value is judged on the paths that go round again
            enter = [(e[4], x) for x in outs for e in x.st.ev if e[0] == 'loop-carried' and e[1] == V[1]]
            entries = tuple(Vd for Vd, _x in enter)
            defs = enter + [(lo.st.env[V[1]], lo) for lo in outs if lo.kind == 'loop' and V[1] in lo.st.env]
            ctx.add('N2.step', A.path + '|defs', loc(root), len(defs) >= 2, 'the candidate carried around the probe loop has no visible definition')
        else:
            defs = [(V, o)]
        for Vd, od in defs:
            check_step(ctx, A, root, Vd, od, CNT, carried, sig, MAX, entries)
        # N3 left only when the candidate is free: the condition of the path that leaves the search must ENTAIL that the candidate
        # is not a member of the in-use set in the state in which it is claimed (setfacts: found not to be a member - `contains`,
        # `get`, the answer of the claiming `insert` itself - or the set found to have no member at all - `is_empty`, `len() == 0`).
        # A test of the candidate against the counter or a bound, or of the set's size against anything but zero, entails nothing.
        ins = [(i, args) for i, cal, args, node in sem.calls(o, lambda c: c.endswith('HashSet::<T, S, A>::insert')) if is_set(args[0])]
        obs = setfacts.before_first_change(o, is_set, lambda pl: sem.has(sem.strip_site(SET), lambda z: z == sem.strip_site(pl)))
        free, why = setfacts.entails_absent(obs, o.st.pc, is_set, V)
        last = ('`%s`' % (('' if o.st.pc[-1][1] else 'not ') + absx.fmt(sem.strip_site(o.st.pc[-1][0]))[:90])) if o.st.pc else 'no condition'
        ctx.add('N3.exit-only-when-free', A.path + '|' + sig, loc(root), free,
                'the allocator returns an ID on a path that did not find it absent from the in-use set: the search is left under %s without the candidate %s having been found free%s'
                % (last, absx.fmt(V)[:40], ' (%s)' % why if why else ''))
        # N4 claim: stored, inserted, returned - the same value, under the same guard
        st_cnt = [(i, val) for i, place, val, node in sem.stores(o, lambda pl: sem.strip_site(pl) == sem.strip_site(CNT))]
        ctx.add('N4.store-candidate', A.path + '|' + sig, loc(root), bool(st_cnt) and st_cnt[-1][1] == V,
                'the shared counter is %s on the path returning %s: the next search would not start after this ID' % ('not written' if not st_cnt else 'set to ' + absx.fmt(st_cnt[-1][1])[:40], absx.fmt(V)[:40]))
        # N8 numbering only advances: the search starts from the counter as the previous allocation left it, and the only value ever
        # written to it is the ID being claimed.  (Releases are not exact in this code base - a stream finished after its Done, or
        # after a timeout, scrubs its ID a second time - which is harmless only as long as a released ID is not handed out again
        # before the counter has gone all the way round.)
        ctx.add('N8.numbering-only-advances', A.path + '|' + sig, loc(root), bool(st_cnt) and all(val == V for _i, val in st_cnt),
                'the shared counter is also set to %s on the path returning %s: numbering restarts, so a recently released ID is handed out again while a stale scrub for it may still be on its way' % (
                    [absx.fmt(val)[:30] for _i, val in st_cnt if val != V][:2], absx.fmt(V)[:40]))
        ctx.add('N4.single-insert', A.path + '|' + sig, loc(root), len(ins) == 1 and ins[0][1][1] == V, 'the returned ID is not (exactly once) inserted into the in-use set')
        drops = [i for i, cal, args, node in sem.calls(o, lambda c: c.endswith('mem::drop')) if sem.has(args[0], lambda x: sem.strip_site(x) == sem.strip_site(G))]
        last_use = max([i for i, _v in st_cnt] + [i for i, _a in ins] + [0])
        ctx.add('N1.no-early-unlock', A.path + '|' + sig, loc(root), all(d > last_use for d in drops), 'the guard is dropped before the ID is claimed')
    probes_in_loop = [o for o in outs if o.kind == 'loop']
    ctx.add('N3.loop', A.path, loc(root), len(probes_in_loop) >= 1, 'no path continues the search: an ID in use is not skipped')

    # ---- N2 initial table
    inits = []
    for path, h in f.hir.items():
        for n, c in walk(h['body']):
            if n['k'] == 'Call' and n.get('ty') == anchors.T_IDTABLE and (callee_of(n) or '').endswith('Arc::<T>::new'):
                inits.append((path, n))
    ctx.add('N2.table-init.count', 'id table constructions', '', len(inits) == 1, 'expected one construction of the ID table, found %d' % len(inits))
    for path, n in inits:
        inner = n['args'][0]
        ok = inner['k'] == 'Call' and (callee_of(inner) or '').endswith('Mutex::<T>::new')
        tup = inner['args'][0] if ok else None
        ok = ok and tup['k'] == 'Tup' and len(tup['elems']) == 2 and hirq.const_eval(f, tup['elems'][0]) == 0 \
            and tup['elems'][1]['k'] == 'Call' and (callee_of(tup['elems'][1]) or '').endswith('HashSet::<T>::new')
        ctx.add('N2.table-init', path, loc(n), ok, 'the ID table must start as (0, empty set)')

    # ---- N5 who may touch
    # The counter (component 0 of the locked table) is stored to by the allocator only, where N2/N4/N8 decide what is stored.  A
    # store is recognised through whatever names the place: `guard.0`, `(*guard).0`, a `&mut` obtained by destructuring or
    # re-borrowing the guard.  Any other store must be shown to leave the counter as it is: in the driver loop it is judged on the
    # enumerated paths of its arm (the value stored is the counter's own current value, read under the same guard, nothing stored
    # to it in between); everywhere else, and when the paths do not show it, it is a violation.  Handing a `&mut` of the counter
    # to another function is a store this analysis cannot follow.
    import driver as drv
    arm_node_role = {}
    for role, a in C.arms.items():
        if isinstance(a, dict):
            for x, _ in walk(a['body']):
                arm_node_role[id(x)] = role
    for path, h in f.hir.items():
        if not any(anchors.is_idguard(x.get('ty')) for x, _ in walk(h['body'])):
            continue        # the counter is reachable through the guard only (N5.guard-escapes: the guard is never handed on)
        B = C.alloc if path == C.alloc_path else C.loop if path == C.loop_path else hirq.Body(f, h)
        for n, c in walk(h['body']):
            if n['k'] in ('Assign', 'AssignOp') and C.is_counter_place(n['l'], B) and path != C.alloc_path:
                role = arm_node_role.get(id(n)) if path == C.loop_path else None
                if role is None:
                    ctx.fail('N5.counter-write', path, loc(n), 'the ID counter is written outside the allocator')
                    continue
                n_ev, bad = 0, None
                for o in drv.arm_paths(C, role)[0]:
                    sts = sem.stores(o)
                    for i, place, val, node in sts:
                        if node is not n:
                            continue
                        n_ev += 1
                        earlier = [1 for j, p2, _v, _n in sts if j < i and sem.strip_site(p2) == sem.strip_site(place)]
                        if val != place or earlier:
                            bad = val
                ctx.add('N5.counter-write', path, loc(n), n_ev > 0 and bad is None,
                        'the ID counter is written outside the allocator%s: numbering no longer only advances within 1..2^31-1 (an ID can leave the range, or one still in use or just released can be handed out again)'
                        % ('' if bad is None else ', set to ' + absx.fmt(bad)[:70]))
            if n['k'] in ('Call', 'MethodCall') and path != C.alloc_path:
                cands = list(n['args']) + ([n['recv']] if n['k'] == 'MethodCall' else [])
                for a in cands:
                    if ((a.get('adj_ty') or a.get('ty') or '').startswith('&mut') or (a.get('ty') or '').startswith('&mut')) and C.is_counter_place(a, B):
                        ctx.fail('N5.counter-write', path + '|escapes', loc(n), 'a mutable reference to the ID counter is handed to `%s` outside the allocator' % (callee_of(n) or '?').rsplit('::', 1)[-1])
    retains = []
    for path, h in f.hir.items():
        for n, c in walk(h['body']):
            if n['k'] == 'Assign' or n['k'] == 'AssignOp':
                l = anchors.peel(n['l'])
                if anchors.is_idguard(l.get('ty')) or C.is_idset_place(n['l']):
                    ctx.fail('N5.table-overwrite', path, loc(n), 'the ID table / in-use set is overwritten wholesale')
            if n['k'] == 'MethodCall' and C.is_idset_place(n['recv']):
                m = (callee_of(n) or '').rsplit('::', 1)[-1]
                if m == 'insert':
                    ctx.add('N5.insert-owner', path, loc(n), path == C.alloc_path, 'insert into the in-use set outside the allocator')
                elif m == 'remove':
                    if path == C.loop_path:
                        ctx.ok('N5.remove-owner', path, loc(n))
                    else:
                        why = never_handed_over(f, C, path, h, n)
                        ctx.add('N5.remove-owner', path, loc(n), why is None, 'release of an ID outside the driver loop%s' % (': ' + why if why else ''))
                elif m in ('contains', 'len', 'is_empty', 'get'):     # observers (`&self`, the elements are plain integers): what a path learns from them is setfacts'
                    ctx.ok('N5.read', path + '|' + m, loc(n))
                elif m == 'retain':
                    retains.append((path, h, n))        # judged below by what it does (the removals it amounts to)
                else:
                    ctx.fail('N5.set-method', path + '|' + m, loc(n), 'unexpected method `%s` on the in-use set' % m)
            # guard passed around as a whole (escapes the analysis)
            if n['k'] in ('Call', 'MethodCall'):
                for a in (n['args'] if n['k'] == 'Call' else n['args']):
                    pa = anchors.peel(a)
                    if anchors.is_idguard(pa.get('ty')) or C.is_idset_place(pa):
                        if not (n['k'] == 'MethodCall' and C.is_idset_place(n['recv'])) and not (callee_of(n) or '').endswith('mem::drop'):
                            ctx.fail('N5.guard-escapes', path, loc(n), 'the ID-table guard or set is passed to another function')
    # `retain(pred)` on the in-use set is the removals it amounts to (absx): `remove(x)` for every x the predicate certainly rejects,
    # `clear` when an element different from all of those is not certainly kept, nothing when it certainly keeps every member.
    # What "every member" can be is the allocator's own invariant J: the counter is in 0..=MAX and the set within 1..=MAX, because
    #   - the table starts as (0, empty)                                                         N2.table-init
    #   - a search starts at the counter, a candidate equal to MAX is followed by 1 and any other candidate c (0 <= c < MAX) by
    #     c + 1: every candidate is in 1..=MAX                                                   N2.init-from-counter / wrap / step
    #   - the only value inserted, and the only value stored to the counter, is the candidate returned      N4, N8
    #   - nobody else stores to the counter (a write-back of its own value aside), inserts, overwrites the table or gets hold of
    #     the guard / the set                                    N5.counter-write / insert-owner / table-overwrite / guard-escapes
    # and removals only shrink the set.  J is used only when every one of these obligations holds on the analysed tree; otherwise
    # nothing is assumed about the members and a predicate that tests their magnitude is not decided (the retain is a violation).
    # In the driver loop a retain may release named IDs (which ones: N6 / C13); anywhere else nobody owns an ID to release, so it
    # must amount to no removal at all - `retain(|&id| id > 0)` does, `retain(|&id| id > 1)` releases ID 1 under its owner's feet.
    J_RULES = ('N2.', 'N4.', 'N8.', 'N5.counter-write', 'N5.insert-owner', 'N5.table-overwrite', 'N5.guard-escapes')
    j_holds = all(o.ok for o in ctx.obls if o.rule.startswith(J_RULES)) and any(o.rule.startswith('N4.single-insert') for o in ctx.obls)
    ctx.idset_member_range = (1, MAX) if j_holds else None          # for the other readers of the arms' paths (driver.idset_member_range)
    member_range = lambda node: (1, MAX) if j_holds and node.get('k') == 'MethodCall' and C.is_idset_place(node['recv']) else None
    for path, h, n in retains:
        kept = named = wipes = 0
        try:
            if path == C.loop_path:
                role = arm_node_role.get(id(n))
                pouts = drv.arm_paths(C, role, member_range=member_range)[0] if role is not None else []
            else:
                pouts = sem.paths(f, C.alloc if path == C.alloc_path else hirq.Body(f, h), combinators=True, member_range=member_range)[0]
        except absx.TooManyPaths:
            pouts = []          # not enumerable: no event is seen below and the obligation fails
        for o in pouts:
            for e in o.st.ev:
                if len(e) > 3 and e[3] is n:
                    if e[0] == 'kept-all':
                        kept += 1
                    elif e[0] == 'call' and e[1].endswith('::remove'):
                        named += 1
                    else:
                        wipes += 1      # `clear`, or left opaque: the predicate is not a function of equality / decided magnitude tests
        if path == C.loop_path:
            ctx.add('N5.set-method', path + '|retain', loc(n), named + kept > 0 and wipes == 0,
                    '`retain` on the in-use set does not amount to releasing named IDs only: IDs of other operations still outstanding can be released')
        else:
            ctx.add('N5.set-method', path + '|retain', loc(n), kept > 0 and named == 0 and wipes == 0,
                    '`retain` on the in-use set outside the driver loop %s: an ID still outstanding is released by someone who is not its owner'
                    % ('lies on no enumerated path of its function (not analysed)' if kept + named + wipes == 0 else
                       'does not certainly keep every ID the allocator can have put there (1..=%d%s)' % (MAX, '' if j_holds else '; not established on this tree: see the other N2 / N4 / N5 / N8 violations')))
    callers = hirq.all_calls(f, lambda c: c == C.alloc_path)
    ctx.add('N5.alloc-callers.count', C.alloc_path, '', len(callers) >= 1, 'allocator is never called')
    for path, n, c in callers:
        ctx.add('N5.alloc-caller', path, loc(n), path == C.op_call_path,
                'the allocator is called from somewhere other than the operation issue point')
    # the request tuple's ID is that call's result
    O = C.op_call
    sends = anchors.method_calls(O.root, 'UnboundedSender::<T>::send', lambda r: hirq.strip_refs(r.get('ty', '')) == anchors.T_REQ_SENDER)
    for s, c in sends:
        tup = hirq.resolve_expr(O, s['args'][0])
        ok = tup['k'] == 'Tup' and len(tup['elems']) == 5
        if ok:
            o = O.origin(tup['elems'][0])
            ok = o[0][0] == 'call' and o[0][1] == C.alloc_path and o[1] == ()
        ctx.add('N5.wire-id-is-allocated', O.path, loc(s), ok, 'the ID placed in the request tuple is not the value returned by the allocator')
    ctx.floor('N5', 'request sends', len(sends), 1)

    # ---- N6 no release of an ID that is still routed.  Decided on the enumerated paths of the select! arms (a branch that cannot
    # be taken - `if let Some(extra) = None` left behind by an expanded helper - is on no path): every release of an ID on a path
    # comes with the removal, on the same path, of a routing entry under the same ID, or is the release of the Abandon request's own,
    # never-answered ID.  Every release site of the loop must lie on some enumerated path (else the rule has not looked at it).
    L = C.loop
    releases = anchors.method_calls(L.root, 'HashSet::<T, S, A>::remove', C.is_idset_place)
    REQ = ('variant', drv.ARM, 'Some', 0)
    OWN, OP = ('field', REQ, '0'), ('field', REQ, '1')
    seen = set()
    interps = {}
    for role, a in C.arms.items():
        if not isinstance(a, dict):
            continue
        pouts, interps[role] = drv.arm_paths(C, role)
        for o in pouts:
            if o.kind == 'div':
                continue
            for i, name, args, node in drv.map_calls(C, o, 'idset', ('remove',)):
                k = args[1]
                seen.add(id(node))
                unrouted = any(a2[1] == k and drv.net_registration(C, o, w, k) != 'kept'
                               for w in ('result', 'search') for _i, _n, a2, _nd in drv.map_calls(C, o, w, ('remove', 'remove_entry')))
                own_abandon = role == 'request' and k == OWN and absx.pc_variant(o.st.pc, lambda v: v == OP, 'LdapOp::Abandon') is True
                ctx.add('N6.release-implies-unrouted', '%s|%s|%s' % (L.path, role, absx.fmt(k)[-40:]), loc(node), unrouted or own_abandon,
                        'an ID is released while its routing entry is kept: the allocator can hand it to a second operation')
    for r, rc in releases:
        if id(r) not in seen and not (arm_node_role.get(id(r)) in interps and drv.never_taken(L, interps[arm_node_role[id(r)]], r)):
            ctx.fail('N6.release-implies-unrouted', '%s|unreached' % L.path, loc(r), 'a release of an ID in the driver loop lies on no enumerated path of a select! arm: it was not analysed')
    ctx.floor('N6', 'ID releases in the driver loop', len(releases), 3)
